#!/bin/sh
# Build the framework from files on disk only (offline): the libTooling extractor.
set -e
cd "$(dirname "$0")"
mkdir -p .cache evidence
python3 - <<'PY'
import sys
sys.path.insert(0, 'sa')
from blochsa.facts import build_bx
build_bx()
print('bx extractor ready')
PY
