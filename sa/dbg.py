#!/usr/bin/env python3
"""Debug helper: dbg.py cfg <fn-suffix> [sig]  |  dbg.py calls <regex>  |  dbg.py sx <fn-suffix>"""
import sys, os, re, json
sys.path.insert(0, os.path.dirname(os.path.abspath(__file__)))
from blochsa.program import Program
from blochsa import sx as SX
p = Program()
cmd = sys.argv[1]
if cmd == 'cfg':
    f = p.fn(sys.argv[2], sys.argv[3] if len(sys.argv) > 3 else None)
    g = p.cfg(f)
    for n in g.nodes:
        print(n, [x.id for x in n.succ], ('x' + str([x.id for x in n.xsucc])) if n.xsucc else '')
elif cmd == 'calls':
    rx = re.compile(sys.argv[2])
    for f in p.functions:
        if not f.body: continue
        for n in SX.walk(f.body, into_lambdas=False):
            if n['k'] in SX.CALL_KINDS and rx.search(SX.callee(n) or ''):
                print('%s:%s %s  %s' % (f.rel, n.get('ln'), f.name.split('::')[-1], SX.show(n)[:140]))
elif cmd == 'sx':
    f = p.fn(sys.argv[2], sys.argv[3] if len(sys.argv) > 3 else None)
    print(json.dumps(f.body, indent=1)[:int(sys.argv[4]) if len(sys.argv) > 4 else 6000])
