#!/bin/sh
# trypatch.sh <patch.diff> <PID>... : apply a patch to a scratch copy of the analysed tree and run checks on it
P=$1; shift
T=$(mktemp -d /tmp/blochsa-try-XXXXXX)
cp -r /repo/src /repo/docs $T/ 2>/dev/null
( cd $T && patch -p1 -s < $P ) || { echo "patch failed"; rm -rf $T; exit 2; }
for pid in "$@"; do
  BLOCH_REPO=$T BLOCHSA_EVIDENCE_DIR=$T/ev /verif/check $pid | grep -E "^\[|VIOLATION|^  R|BROKEN" | grep -v "^  R[0-9.a-z]* *[0-9]*/[0-9]* " | head -12
done
rm -rf $T
