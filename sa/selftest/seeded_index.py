#!/usr/bin/env python3
"""Writes /verif/seeded/INDEX.md: one line per stored seeded change — what it touches and which rule(s) of the property's check report it
(from the `detected_by` record that `seeded.py pcheck` keeps in each meta.json).  Regenerate after `seeded.py pcheck all`."""
import json
import os
import re
V = os.path.dirname(os.path.dirname(os.path.dirname(os.path.abspath(__file__))))
S = os.path.join(V, 'seeded')
rows = []
for d in sorted(os.listdir(S), key=lambda n: (n.split('-')[0], int(n.split('-')[1])) if re.match(r'C\d\d-\d+$', n) else (n, 0)):
    mp = os.path.join(S, d, 'meta.json')
    if not os.path.exists(mp):
        continue
    m = json.load(open(mp))
    files = sorted(set(re.findall(r'^\+\+\+ b/(\S+)', open(os.path.join(S, d, 'patch.diff')).read(), re.M)))
    det = m.get('detected_by', {}).get(m['property'], {})
    rules = []
    for v in det.get('violations', []):
        mm = re.match(r'(R[0-9.]+[A-Za-z]?) at \S+ in (\S+)(?: \[([^\]]*)\])?', v)
        if mm:
            r = mm.group(1) + ((' `' + mm.group(3) + '`') if mm.group(3) else '')
            if r not in rules:
                rules.append(r)
    rows.append('| %s | %s | %s | %s |' % (d, ', '.join(os.path.basename(f) for f in files), 'yes' if m.get('detected') else '**NO**', '; '.join(rules[:3]) + (' …' if len(rules) > 3 else '')))
with open(os.path.join(S, 'INDEX.md'), 'w') as fh:
    fh.write('# Seeded property-breaking changes and the rules that report them\n\n'
             'Each change was written by a sub-agent that saw only the property text, builds, passes the 288 tests and has a demonstration that fails with it and passes\n'
             'without it (`meta.json`, `notes.md`, `demo.sh` in each directory).  "reported" is the verdict of the property\'s own check on a scratch copy with the patch applied\n'
             '(`sa/selftest/seeded.py pcheck all`).\n\n| change | files touched | reported | rule instance(s) |\n|---|---|---|---|\n' + '\n'.join(rows) + '\n')
print('wrote', len(rows), 'rows')
