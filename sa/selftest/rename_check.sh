#!/bin/sh
# rename_check.sh <patch>... : the patches apply to a scratch worktree of /repo's main, the project builds and the 288 tests pass
WT=/tmp/rn-wt
git -C /repo worktree remove --force $WT 2>/dev/null
git -C /repo worktree add --detach $WT main >/dev/null 2>&1 || exit 2
rc=0
for p in "$@"; do ( cd $WT && patch -p1 -s < $p ) || { echo "APPLY FAILED $p"; rc=2; }; done
if [ $rc -eq 0 ]; then
  cmake -G Ninja -S $WT -B $WT/_b -DCMAKE_BUILD_TYPE=Release >/dev/null 2>&1
  ninja -C $WT/_b -j14 2>&1 | grep -E "error|FAILED" | head -20
  if [ -x $WT/_b/bin/bloch_tests ]; then $WT/_b/bin/bloch_tests 2>&1 | tail -1; else echo "BUILD FAILED"; rc=1; fi
fi
git -C /repo worktree remove --force $WT; git -C /repo worktree prune
exit $rc
