#!/usr/bin/env python3
"""automut_fns.py <out-file> <max-per-fn> <fn-suffix>:<PID,PID…> …   — run automut.py on the line range of each named function"""
import os, subprocess, sys
HERE = os.path.dirname(os.path.abspath(__file__))
sys.path.insert(0, os.path.dirname(HERE))
from blochsa.program import Program
p = Program()
out, mx = sys.argv[1], sys.argv[2]
with open(out, 'w') as fh:
    for spec in sys.argv[3:]:
        name, pids = spec.split(':')
        fs = [f for f in p.functions if f.kind != 'lambda' and f.body and (f.name.endswith('::' + name) or f.name == name)]
        for f in fs:
            fh.write('## %s %s:%d-%d %s\n' % (f.name, f.rel, f.ln, f.d.get('endln', f.ln), pids))
            fh.flush()
            r = subprocess.run([sys.executable, os.path.join(HERE, 'automut.py'), f.rel, str(f.ln), str(f.d.get('endln', f.ln)), pids, '--max', mx, '--jobs', os.environ.get('AM_JOBS', '6')],
                               capture_output=True, text=True)
            fh.write(r.stdout)
            fh.flush()
    fh.write('DONE\n')
