#!/usr/bin/env python3
"""Mechanical mutation campaign against the checkers (development aid, not a registered command).

  automut.py <relpath-under-/repo> <first-line> <last-line> <PID>[,<PID>...] [--max N] [--jobs J]

Generates one-token / one-statement mutants of the given line range (relational and arithmetic operator swaps, constant
changes, condition negation / forcing, statement deletion), keeps those that still parse (clang -fsyntax-only), applies each
to a scratch copy of the sources and runs the listed checks.  Prints one line per mutant:
    <line> <kind> <before> -> <after> | C01=1 C03=0 C05=2 …
rc 1 = reported, 0 = silent (equivalent mutant, property-irrelevant, or a miss: needs reading), 2 = analysis broken (the check
could neither pass nor report: always worth turning into a verdict).  Scratch copies live under mkdtemp and are removed."""
import os
import re
import shutil
import subprocess
import sys
import tempfile
from concurrent.futures import ThreadPoolExecutor

HERE = os.path.dirname(os.path.abspath(__file__))
VERIF = os.path.dirname(os.path.dirname(HERE))
sys.path.insert(0, HERE)
import mutate  # noqa: E402

SWAPS = [(' < ', ' <= '), (' <= ', ' < '), (' > ', ' >= '), (' >= ', ' > '), (' == ', ' != '), (' != ', ' == '), (' && ', ' || '), (' || ', ' && '),
         (' + ', ' - '), (' - ', ' + '), (' * ', ' + '), (' << ', ' >> '), (' | ', ' & '), (' & ', ' | '), ('++', '--'), (' += ', ' -= '), (' /= ', ' *= '),
         ('true', 'false'), ('false', 'true')]


def gen(lines, lo, hi):
    out = []
    for i in range(lo - 1, min(hi, len(lines))):
        l = lines[i]
        st = l.strip()
        if not st or st.startswith('//') or st.startswith('*') or st.startswith('#'):
            continue
        code = l.split('//')[0]
        for a, b in SWAPS:
            for m in re.finditer(re.escape(a), code):
                if '"' in code[:m.start()] and code[:m.start()].count('"') % 2 == 1:
                    continue   # inside a string literal
                if a in ('++',) and '+++' in code:
                    continue
                new = code[:m.start()] + b + code[m.end():] + l[len(code):]
                out.append((i, 'op', a.strip(), b.strip(), new))
        for m in re.finditer(r'(?<![\w.])([01])(?![\w.])', code):
            if code[:m.start()].count('"') % 2 == 1:
                continue
            b = '1' if m.group(1) == '0' else '0'
            out.append((i, 'const', m.group(1), b, code[:m.start()] + b + code[m.end():] + l[len(code):]))
        m = re.match(r'^(\s*)(?:\}\s*else\s+)?if \((.*)\)\s*(\{?)\s*$', code.rstrip('\n'))
        if m:
            cond = m.group(2)
            pre = code[:code.index('if (')]
            tail = code[code.index('if (') + 4 + len(cond) + 1:]
            out.append((i, 'neg', cond[:30], '!(..)', pre + 'if (!(' + cond + '))' + tail + l[len(code):]))
            out.append((i, 'force', cond[:30], 'false', pre + 'if (false && (' + cond + '))' + tail + l[len(code):]))
        if re.match(r'^\s*[A-Za-z_][\w:.\->\[\]]*(\(.*\)|\s*[-+*/|&]?=[^=].*);\s*$', code.rstrip('\n')) and not re.match(r'^\s*(return|throw|auto|const|int|size_t|double|bool|std::|Value |RuntimeClass|char|float|long)', code):
            out.append((i, 'del', st[:40], '', re.match(r'^\s*', code).group(0) + ';\n'))
        if re.match(r'^\s*(break|continue);\s*$', code):
            out.append((i, 'del', st, '', re.match(r'^\s*', code).group(0) + ';\n'))
    return out


def main():
    rel, lo, hi, pids = sys.argv[1], int(sys.argv[2]), int(sys.argv[3]), sys.argv[4].split(',')
    mx = int(sys.argv[sys.argv.index('--max') + 1]) if '--max' in sys.argv else 10 ** 9
    jobs = int(sys.argv[sys.argv.index('--jobs') + 1]) if '--jobs' in sys.argv else 8
    repo = os.environ.get('BLOCH_REPO', '/repo')
    lines = open(os.path.join(repo, rel)).read().splitlines(True)
    muts = gen(lines, lo, hi)
    if len(muts) > mx:
        step = len(muts) / mx
        muts = [muts[int(k * step)] for k in range(mx)]

    def one(m):
        i, kind, a, b, new = m
        tmp = tempfile.mkdtemp(prefix='blochsa-am-')
        try:
            mutate.make_copy(repo, tmp)
            ls = list(lines)
            ls[i] = new if new.endswith('\n') else new + '\n'
            open(os.path.join(tmp, rel), 'w').write(''.join(ls))
            se = mutate.syntax_ok(tmp, [rel])
            if se:
                return None
            res = []
            for pid in pids:
                env = dict(os.environ, BLOCH_REPO=tmp, BLOCHSA_EVIDENCE_DIR=os.path.join(tmp, 'ev'), BLOCHSA_NO_SELFTEST='1')
                r = subprocess.run([os.path.join(VERIF, 'check'), pid, '--tier', 'quick'], capture_output=True, text=True, env=env)
                why = ''
                if r.returncode == 2:
                    why = ' [' + ' '.join(l for l in r.stdout.splitlines() if 'BROKEN' in l)[:110] + ']'
                res.append('%s=%d%s' % (pid, r.returncode, why))
            return '%5d %-5s %-32s -> %-6s | %s' % (i + 1, kind, a, b, ' '.join(res))
        finally:
            shutil.rmtree(tmp, ignore_errors=True)
    with ThreadPoolExecutor(max_workers=jobs) as ex:
        for r in ex.map(one, muts):
            if r:
                print(r, flush=True)


if __name__ == '__main__':
    main()
