#!/bin/sh
# Behaviour-preserving refactorings written by independent sub-agents (each builds, passes the 288 tests and was compared
# output-for-output with the pristine binary).  Every registered check must stay silent (exit 0) on each of them.
cd "$(dirname "$0")"
for p in benign/*.diff; do ./tryall.sh "$(pwd)/$p"; done
