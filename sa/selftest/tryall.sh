#!/bin/sh
# tryall.sh <patch.diff> : apply a patch to a scratch copy of /repo's sources and run EVERY registered check on it;
# prints only the properties whose check does not exit 0 (used for behaviour-preserving refactorings: expected output is empty)
P=$1
T=$(mktemp -d /tmp/blochsa-try-XXXXXX)
cp -r /repo/src /repo/docs /repo/CMakeLists.txt $T/ 2>/dev/null
( cd $T && patch -p1 -s < $P ) || { echo "patch failed"; rm -rf $T; exit 2; }
for pid in $(python3 -c "import json; print(' '.join(c['property_id'] for c in json.load(open('/verif/MANIFEST.json'))['checks']))"); do
  out=$(BLOCH_REPO=$T BLOCHSA_EVIDENCE_DIR=$T/ev /verif/check $pid 2>&1); rc=$?
  [ $rc -ne 0 ] && { echo "== $pid rc=$rc"; echo "$out" | grep -E "^  R|BROKEN|INCOMPLETE" | grep -v "^  R[0-9.a-zA-Z]* *[0-9]*/[0-9]* " | cut -c1-400 | head -6; }
done
rm -rf $T
echo "-- done $P"
