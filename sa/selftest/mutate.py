#!/usr/bin/env python3
"""Self-validation of the checkers: apply one-site mutants / behaviour-preserving edits to a scratch
copy of the analysed tree (never to /repo) and verify that the check fires / stays silent.

  mutate.py <PID> [name-substring]      run the battery for a property
Mutants live in sa/selftest/mutants/<PID>.py as a list MUTANTS of dicts:
  {'name':..., 'kind':'mutant'|'benign', 'edits':[(relpath, old, new[, count])], 'expect': 'R06.1' (rule prefix expected in a VIOLATION)}
The scratch copy lives under a fresh mkdtemp and is removed on exit."""
import importlib.util
import os
import shutil
import subprocess
import sys
import tempfile

HERE = os.path.dirname(os.path.abspath(__file__))
VERIF = os.path.dirname(os.path.dirname(HERE))


def make_copy(repo, dst):
    for sub in ('src', 'docs'):
        shutil.copytree(os.path.join(repo, sub), os.path.join(dst, sub), ignore=shutil.ignore_patterns('third_party'))
    tp = os.path.join(repo, 'src', 'third_party')
    if os.path.exists(tp):
        os.symlink(tp, os.path.join(dst, 'src', 'third_party'))


def apply(dst, edits):
    for e in edits:
        if e[0] == 'patch':
            # a unified diff (seeded property-breaking change or behaviour-preserving refactoring written by a sub-agent)
            r = subprocess.run(['patch', '-p1', '-s', '-d', dst, '-i', e[1]], capture_output=True, text=True)
            if r.returncode != 0:
                return 'patch %s does not apply: %s' % (os.path.basename(os.path.dirname(e[1])) or e[1], (r.stdout + r.stderr)[-200:])
            continue
        if e[0] == 'revert':
            # reverse-apply a fix commit of the analysed repository: the pre-fix code is a realistic mutant
            repo = os.environ.get('BLOCH_REPO', '/repo')
            d = subprocess.run(['git', '-C', repo, 'show', '--format=', e[1], '--', 'src'], capture_output=True, text=True)
            if d.returncode != 0 or not d.stdout.strip():
                return 'commit %s not found' % e[1]
            r = subprocess.run(['patch', '-R', '-p1', '-s', '-d', dst], input=d.stdout, capture_output=True, text=True)
            if r.returncode != 0:
                return 'reverse patch of %s does not apply: %s' % (e[1], (r.stdout + r.stderr)[-200:])
            continue
        rel, old, new = e[0], e[1], e[2]
        cnt = e[3] if len(e) > 3 else 1
        p = os.path.join(dst, rel)
        s = open(p).read()
        if s.count(old) < 1:
            return 'anchor text not found in %s: %r' % (rel, old[:60])
        if cnt == 1 and s.count(old) != 1:
            return 'anchor text ambiguous in %s (%d): %r' % (rel, s.count(old), old[:60])
        # cnt: 1 = unique occurrence required, 0 = all occurrences, -1 = first occurrence only
        s = s.replace(old, new) if cnt == 0 else s.replace(old, new, 1)
        open(p, 'w').write(s)
    return None


def syntax_ok(dst, rels):
    for rel in rels:
        if not rel.endswith('.cpp'):
            continue
        r = subprocess.run(['clang++', '-std=gnu++20', '-fsyntax-only', '-I' + os.path.join(dst, 'src'), '-Wno-everything',
                            '-DBLOCH_VERSION="0"', '-DBLOCH_COMMIT_HASH="0"', '-DCPPHTTPLIB_OPENSSL_SUPPORT', os.path.join(dst, rel)],
                           capture_output=True, text=True)
        if r.returncode != 0:
            return r.stderr[-800:]
    return None


def run_battery(pid, only=None, repo=None, verbose=True, jobs=8):
    repo = repo or os.environ.get('BLOCH_REPO', '/repo')
    spec = importlib.util.spec_from_file_location('m_' + pid, os.path.join(HERE, 'mutants', pid + '.py'))
    mod = importlib.util.module_from_spec(spec)
    spec.loader.exec_module(mod)
    from concurrent.futures import ThreadPoolExecutor
    todo = [m for m in mod.MUTANTS if not (only and only not in m['name'])]
    # independent material: the sub-agents' seeded changes for this property (must be reported) and their behaviour-preserving
    # refactorings (every check must stay silent on all of them)
    import glob
    for d in sorted(glob.glob(os.path.join(VERIF, 'seeded', pid + '-*'))):
        todo.append({'name': 'seeded:' + os.path.basename(d), 'kind': 'mutant', 'expect': None, 'edits': [('patch', os.path.join(d, 'patch.diff'))]})
    for f in sorted(glob.glob(os.path.join(HERE, 'benign', '*.diff'))):
        todo.append({'name': 'refactoring:' + os.path.basename(f)[:-5], 'kind': 'benign', 'edits': [('patch', f)]})
    for f in sorted(glob.glob(os.path.join(HERE, 'renames', '*.diff'))):
        todo.append({'name': 'rename-locals:' + os.path.basename(f)[3:-5], 'kind': 'benign', 'edits': [('patch', f)]})
    todo = [m for m in todo if not (only and only not in m['name'])]
    with ThreadPoolExecutor(max_workers=jobs) as ex:
        parts = list(ex.map(lambda m: _one(pid, m, repo), todo))
    results = [r for p in parts for r in p]
    if verbose:
        for n, st, d in results:
            print('%-12s %-45s %s' % (st, n, d[:160]))
    return results


def _one(pid, m, repo):
    results = []
    if True:
        tmp = tempfile.mkdtemp(prefix='blochsa-mut-')
        try:
            make_copy(repo, tmp)
            err = apply(tmp, m['edits'])
            if err:
                results.append((m['name'], 'skipped', err))
                return results
            se = syntax_ok(tmp, sorted({e[0] for e in m['edits'] if e[0] not in ('revert', 'patch')}))
            if se:
                results.append((m['name'], 'skipped', 'mutant does not compile: ' + se[-300:]))
                return results
            env = dict(os.environ, BLOCH_REPO=tmp, BLOCHSA_EVIDENCE_DIR=os.path.join(tmp, 'ev'))
            env.pop('BLOCHSA_REEXEC', None)      # (the sub-run starts under the system python again and must be free to re-exec into the tooling venv)
            r = subprocess.run([os.path.join(VERIF, 'check'), pid, '--tier', 'quick'], capture_output=True, text=True, env=env)
            out = r.stdout
            if m['kind'] == 'mutant':
                hit = r.returncode == 1 and 'VIOLATION' in out and (m.get('expect') is None or any(
                    m['expect'] in l for l in out.splitlines() if l.startswith('  ')))
                results.append((m['name'], 'killed' if hit else 'MISSED', 'rc=%d %s' % (r.returncode, _viol(out))))
            else:
                ok = r.returncode == 0
                st = 'silent' if ok else 'FALSE-ALARM'
                if r.returncode == 2 and (m['name'].split(':')[-1], pid) in _undecided():
                    st = 'undecided'      # documented: the check says it cannot read this form (exit 2), it does not report a violation
                results.append((m['name'], st, 'rc=%d %s' % (r.returncode, _viol(out))))
        finally:
            shutil.rmtree(tmp, ignore_errors=True)
    return results


def _undecided():
    """(refactoring, property) pairs for which analysis-broken is the documented outcome: sa/selftest/benign/UNDECIDED.txt"""
    out = set()
    p = os.path.join(HERE, 'benign', 'UNDECIDED.txt')
    if os.path.exists(p):
        for ln in open(p):
            ln = ln.split('#')[0].split()
            if len(ln) >= 2:
                out.add((ln[0], ln[1]))
    return out


def _viol(out):
    ls = [l.strip() for l in out.splitlines() if l.startswith('  R') or l.startswith('ANALYSIS-BROKEN')]
    # only lines following a VIOLATION
    v = []
    lines = out.splitlines()
    for i, l in enumerate(lines):
        if l.startswith('VIOLATION') and i + 1 < len(lines):
            v.append(lines[i + 1].strip()[:110])
        if l.startswith('ANALYSIS-BROKEN'):
            v.append(l[:140])
    return ' | '.join(v[:3])


if __name__ == '__main__':
    pid = sys.argv[1]
    only = sys.argv[2] if len(sys.argv) > 2 else None
    res = run_battery(pid, only)
    bad = [r for r in res if r[1] in ('MISSED', 'FALSE-ALARM')]
    sys.exit(1 if bad else 0)
