#!/usr/bin/env python3
"""Seeded property-breaking changes written by independent sub-agents.

  seeded.py verify <PID> <name> <srcdir> [--demo-arg bin|src]
        confirm a candidate in a scratch worktree (outside /repo and /verif): patch applies to main, project builds,
        the 288 tests pass, the demonstration fails with the change and passes without it; on success copy it to
        /verif/seeded/<name>/ with meta.json.  The worktree and its build are removed afterwards.
  seeded.py check <name>|all [PIDS...]
        apply /verif/seeded/<name>/patch.diff to /repo (git apply), run the checks (the property it breaks, or the given
        ones), undo (git checkout -- .), and record which checks reported it.
"""
import json
import os
import shutil
import subprocess
import sys
import time

VERIF = os.path.dirname(os.path.dirname(os.path.dirname(os.path.abspath(__file__))))
SEEDED = os.path.join(VERIF, 'seeded')
REPO = '/repo'


def sh(cmd, cwd=None, timeout=3600, env=None):
    r = subprocess.run(cmd, shell=True, cwd=cwd, capture_output=True, text=True, timeout=timeout, env=env)
    return r.returncode, (r.stdout + r.stderr)


def verify(pid, name, src, demo_arg='bin'):
    wt = '/tmp/sv-' + name
    sh('git -C %s worktree remove --force %s' % (REPO, wt))
    rc, out = sh('git -C %s worktree add --detach %s main' % (REPO, wt))
    res = {'property': pid, 'name': name, 'steps': {}}
    try:
        rc, out = sh('git -C %s apply %s' % (wt, os.path.join(src, 'patch.diff')))
        res['steps']['apply'] = rc == 0
        if rc != 0:
            res['error'] = out[-500:]
            return res
        rc, out = sh('cmake -G Ninja -S %s -B %s/_b -DCMAKE_BUILD_TYPE=Release >/dev/null && ninja -C %s/_b -j12 2>&1 | tail -3' % (wt, wt, wt))
        res['steps']['build'] = rc == 0 and os.path.exists(wt + '/_b/bin/bloch')
        rc, out = sh('%s/_b/bin/bloch_tests 2>&1 | tail -1' % wt)
        res['steps']['tests'] = '288 tests passed, 0 failed' in out
        res['tests_tail'] = out.strip()[-100:]
        demo = os.path.join(src, 'demo.sh')
        scratch = '/tmp/sv-demo-' + name
        shutil.rmtree(scratch, ignore_errors=True)
        shutil.copytree(src, scratch)
        env = dict(os.environ, BLOCH_NO_UPDATE_CHECK='1')
        if os.path.exists(demo):
            a_with = (wt + '/_b/bin/bloch') if demo_arg == 'bin' else wt
            a_without = REPO + '/_build/bin/bloch'
            if demo_arg != 'bin':
                a_without = wt + '-clean'
                sh('git -C %s worktree remove --force %s' % (REPO, a_without))
                sh('git -C %s worktree add --detach %s main' % (REPO, a_without))
                if demo_arg == 'srcb':
                    # the demonstration links against / runs the build of the worktree it is given: build the clean one too
                    sh('cmake -G Ninja -S %s -B %s/_b -DCMAKE_BUILD_TYPE=Release >/dev/null && ninja -C %s/_b -j12 2>&1 | tail -3' % (a_without, a_without, a_without))
            shell = 'bash' if 'bash' in open(demo).readline() else 'sh'
            rc1, o1 = sh('%s ./demo.sh %s' % (shell, a_with), cwd=scratch, env=env, timeout=1800)
            rc2, o2 = sh('%s ./demo.sh %s' % (shell, a_without), cwd=scratch, env=env, timeout=1800)
            res['demo_with_change'] = {'rc': rc1, 'tail': o1[-600:]}
            res['demo_without_change'] = {'rc': rc2, 'tail': o2[-600:]}
            res['steps']['demo_fails_with'] = rc1 != 0
            res['steps']['demo_passes_without'] = rc2 == 0
        else:
            res['steps']['demo_fails_with'] = None
        shutil.rmtree(scratch, ignore_errors=True)
        if demo_arg != 'bin':
            sh('git -C %s worktree remove --force %s' % (REPO, wt + '-clean'))
            shutil.rmtree(wt + '-clean', ignore_errors=True)
    finally:
        sh('git -C %s worktree remove --force %s' % (REPO, wt))
        shutil.rmtree(wt, ignore_errors=True)
    ok = all(v for v in res['steps'].values())
    res['confirmed'] = ok
    if ok:
        dst = os.path.join(SEEDED, name)
        shutil.rmtree(dst, ignore_errors=True)
        shutil.copytree(src, dst)
        for junk in os.listdir(dst):
            if junk.endswith('.qasm'):
                os.remove(os.path.join(dst, junk))
        notes = open(os.path.join(src, 'notes.md')).read() if os.path.exists(os.path.join(src, 'notes.md')) else ''
        meta = {'property': pid, 'name': name, 'needs_to_manifest': _needs(notes),
                'confirmed_by': 'seeded.py verify: scratch worktree of main + patch; cmake/ninja build; bloch_tests (288 passed); demo.sh with the patched '
                                'binary (fails) and with the unpatched binary (passes)',
                'verification': res, 'date': time.strftime('%Y-%m-%d')}
        json.dump(meta, open(os.path.join(dst, 'meta.json'), 'w'), indent=1)
    return res


def _needs(notes):
    out = []
    take = False
    for l in notes.splitlines():
        if 'need' in l.lower() and ('manifest' in l.lower() or l.lower().startswith('#') or 'needs' in l.lower()):
            take = True
        if take:
            out.append(l)
            if len(out) > 6:
                break
    return '\n'.join(out)[:800]


def check(name, pids=None):
    d = os.path.join(SEEDED, name)
    meta = json.load(open(os.path.join(d, 'meta.json')))
    pids = pids or [meta['property']]
    rc, out = sh('git -C %s status --porcelain --untracked-files=no' % REPO)
    if out.strip():
        raise SystemExit('/repo has uncommitted tracked changes; refusing to apply a seeded patch')
    rc, out = sh('git -C %s apply %s' % (REPO, os.path.join(d, 'patch.diff')))
    if rc != 0:
        return {'name': name, 'error': 'patch does not apply: ' + out[-300:]}
    results = {}
    try:
        for pid in pids:
            env = dict(os.environ, BLOCHSA_EVIDENCE_DIR='/tmp/seeded-ev')
            r = subprocess.run([os.path.join(VERIF, 'check'), pid, '--tier', 'quick'], capture_output=True, text=True, env=env)
            lines = r.stdout.splitlines()
            viol = [lines[i + 1].strip() for i, l in enumerate(lines) if l.startswith('VIOLATION') and i + 1 < len(lines)]
            results[pid] = {'rc': r.returncode, 'violations': viol[:6], 'broken': [l for l in lines if l.startswith('ANALYSIS-BROKEN')]}
    finally:
        sh('git -C %s checkout -- .' % REPO)
        shutil.rmtree('/tmp/seeded-ev', ignore_errors=True)
    meta['detected_by'] = {p: r for p, r in results.items()}
    meta['detected'] = any(r['rc'] == 1 for r in results.values())
    json.dump(meta, open(os.path.join(d, 'meta.json'), 'w'), indent=1)
    return {'name': name, 'results': results}


def pcheck_one(name):
    """like check(), but on a scratch copy of /repo's sources (so that many can run at once and /repo is never touched)"""
    import tempfile
    d = os.path.join(SEEDED, name)
    meta = json.load(open(os.path.join(d, 'meta.json')))
    pid = meta['property']
    t = tempfile.mkdtemp(prefix='blochsa-seed-')
    try:
        sh('cp -r %s/src %s/docs %s/CMakeLists.txt %s/' % (REPO, REPO, REPO, t))
        rc, out = sh('patch -p1 -s < %s' % os.path.join(d, 'patch.diff'), cwd=t)
        if rc != 0:
            return {'name': name, 'error': 'patch does not apply: ' + out[-300:]}
        env = dict(os.environ, BLOCH_REPO=t, BLOCHSA_EVIDENCE_DIR=os.path.join(t, 'ev'))
        r = subprocess.run([os.path.join(VERIF, 'check'), pid, '--tier', 'quick'], capture_output=True, text=True, env=env)
        lines = r.stdout.splitlines()
        viol = [lines[i + 1].strip() for i, l in enumerate(lines) if l.startswith('VIOLATION') and i + 1 < len(lines)]
        res = {pid: {'rc': r.returncode, 'violations': viol[:6], 'broken': [l for l in lines if l.startswith('ANALYSIS-BROKEN')]}}
    finally:
        shutil.rmtree(t, ignore_errors=True)
    meta['detected_by'] = res
    meta['detected'] = any(x['rc'] == 1 for x in res.values())
    json.dump(meta, open(os.path.join(d, 'meta.json'), 'w'), indent=1)
    return {'name': name, 'results': res}


if __name__ == '__main__':
    cmd = sys.argv[1]
    if cmd == 'pcheck':
        from concurrent.futures import ThreadPoolExecutor
        names = sorted(n for n in os.listdir(SEEDED) if os.path.isdir(os.path.join(SEEDED, n))) if sys.argv[2:] in ([], ['all']) else sys.argv[2:]
        bad = 0
        with ThreadPoolExecutor(max_workers=int(os.environ.get('JOBS', '8'))) as ex:
            for r in ex.map(pcheck_one, names):
                rs = r.get('results', {})
                ok = any(x['rc'] == 1 for x in rs.values())
                if not ok:
                    bad += 1
                print('%-8s %s %s' % (r['name'], 'detected' if ok else 'NOT DETECTED', r.get('error') or ' | '.join((x['violations'] or x['broken'] or ['rc=%d' % x['rc']])[0][:110] for x in rs.values())), flush=True)
        print('not detected: %d of %d' % (bad, len(names)))
        sys.exit(1 if bad else 0)
    if cmd == 'verify':
        demo_arg = 'bin'
        args = sys.argv[2:]
        if '--demo-arg' in args:
            i = args.index('--demo-arg')
            demo_arg = args[i + 1]
            args = args[:i] + args[i + 2:]
        r = verify(args[0], args[1], args[2], demo_arg)
        print(json.dumps({k: v for k, v in r.items() if k != 'verification'}, indent=1)[:3000])
        sys.exit(0 if r.get('confirmed') else 1)
    if cmd == 'check':
        names = sorted(n for n in os.listdir(SEEDED) if os.path.isdir(os.path.join(SEEDED, n))) if sys.argv[2] == 'all' else [sys.argv[2]]
        for n in names:
            if not os.path.exists(os.path.join(SEEDED, n, 'meta.json')):
                continue
            r = check(n, sys.argv[3:] or None)
            print(n, json.dumps(r.get('results', r))[:600])
