#!/usr/bin/env python3
"""rename_privates.py <record suffix> <relfile>...  — behaviour-preserving stress refactoring: rename every private data member and
private method of one class (name → name<suffix>) in the given files (its header and source).  Names that are also used by another
record, a free function, an enumerator or a global are left alone.  Writes a unified diff to stdout; compile it with rename_check.sh."""
import os
import re
import subprocess
import sys
import tempfile

sys.path.insert(0, os.path.join(os.path.dirname(os.path.abspath(__file__)), '..'))
os.environ['BLOCHSA_NO_CANON'] = '1'
from blochsa.program import Program     # noqa: E402


def main():
    recname = sys.argv[1]
    files = sys.argv[2:]
    suffix = 'Pv'
    prog = Program()
    rec = prog.record(recname)
    others = set()
    for r in prog.facts.records.values():
        if r is rec:
            continue
        others.add(r['name'].split('::')[-1])
        for fl in r.get('fields', []):
            others.add(fl['name'])
        for m in r.get('methods', []):
            others.add(m['name'])
    for f in prog.functions:
        if f.cls != rec['name']:
            others.add(f.short)
        for n in ([p.get('name') for p in f.params]):
            if n:
                others.add(n)
    for (nm, fl, ln) in prog.facts.globals:
        others.add(nm.split('::')[-1])
    for e in prog.facts.enums.values():
        for c in e.get('constants', e.get('values', [])):
            others.add((c.get('name') if isinstance(c, dict) else str(c)).split('::')[-1])
    # local variable names anywhere in the class's methods must not collide either
    from blochsa import sx as SX
    for f in prog.functions:
        if f.body:
            for n in SX.walk(f.body):
                if n['k'] == 'var' and n.get('name'):
                    others.add(n['name'])
    names = set()
    for fl in rec.get('fields', []):
        if fl.get('access', 2) == 2 or fl['name'].startswith('m_'):
            names.add(fl['name'])
    for m in rec.get('methods', []):
        if m.get('access') == 2 and m['name'] != rec['name'].split('::')[-1] and not m['name'].startswith(('operator', '~')):
            names.add(m['name'])
    names = {n for n in names if n not in others}
    pat = re.compile(r'\b(' + '|'.join(sorted(map(re.escape, names), key=len, reverse=True)) + r')\b')
    out = []
    total = 0
    for rel in files:
        path = os.path.join(prog.repo, rel)
        lines = open(path).read().split('\n')
        for i, line in enumerate(lines):
            parts = re.split(r'("(?:[^"\\]|\\.)*"|\'(?:[^\'\\]|\\.)*\'|//.*$)', line)
            for j in range(0, len(parts), 2):
                parts[j], k = pat.subn(lambda m: m.group(1) + suffix, parts[j])
                total += k
            lines[i] = ''.join(parts)
        with tempfile.NamedTemporaryFile('w', delete=False) as t:
            t.write('\n'.join(lines))
        d = subprocess.run(['diff', '-u', '--label', 'a/' + rel, '--label', 'b/' + rel, path, t.name], capture_output=True, text=True)
        os.unlink(t.name)
        out.append(d.stdout)
    sys.stdout.write(''.join(out))
    sys.stderr.write('%s: %d names, %d occurrences\n' % (recname, len(names), total))


if __name__ == '__main__':
    main()
