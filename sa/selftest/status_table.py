#!/usr/bin/env python3
"""Prints the rule/obligation columns of DESIGN.md §0.1 from the evidence files of the last run (development aid)."""
import json
import os
import re
V = os.path.dirname(os.path.dirname(os.path.dirname(os.path.abspath(__file__))))
for i in range(1, 21):
    pid = 'C%02d' % i
    e = json.load(open(os.path.join(V, 'evidence', pid + '.json')))
    c = e['coverage']
    rules = sorted(c.get('per_rule', {}), key=lambda r: [int(x) if x.isdigit() else x for x in re.split(r'(\d+)', r)])
    known = c.get('known_findings', 0)
    if isinstance(known, list):
        known = len(known)
    print('| %s | %s (%d%s) |' % (pid, ', '.join(rules), c.get('obligations', 0), (', %d known' % known) if known else ''))
