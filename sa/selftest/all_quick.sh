#!/bin/sh
# run every registered quick check on the current tree; print one line per property with its exit status
cd "$(dirname "$0")/../.."
fail=0
for p in $(python3 -c "import json; print(' '.join(c['property_id'] for c in json.load(open('MANIFEST.json'))['checks']))"); do
  out=$(./check $p 2>&1); rc=$?
  echo "$p rc=$rc $(echo "$out" | head -1 | cut -c1-90)"
  [ $rc -ne 0 ] && { fail=1; echo "$out" | grep -E "VIOLATION|BROKEN|INCOMPLETE" | head -5; }
done
exit $fail
