"""debug helpers: load the program of $BLOCH_REPO and pretty-print (normalised) statement trees"""
import sys, os
sys.path.insert(0, os.path.join(os.path.dirname(os.path.abspath(__file__)), '..'))
from blochsa import sx as SX
from blochsa.program import Program


def load():
    return Program()


def ps(s, ind=0, out=print):
    p = '  ' * ind
    if isinstance(s, list):
        for x in s:
            ps(x, ind, out)
        return
    if not isinstance(s, dict):
        out(p + repr(s))
        return
    k = s.get('k')
    if k in ('block', 'inlineblock'):
        out(p + ('{' if k == 'block' else 'inline {'))
        ps(s.get('body') or [], ind + 1, out)
        out(p + '}')
    elif k == 'if':
        out(p + 'if (%s)' % SX.show(s.get('c')))
        ps(s.get('t'), ind + 1, out)
        if s.get('e'):
            out(p + 'else')
            ps(s.get('e'), ind + 1, out)
    elif k in ('for', 'while', 'do', 'forrange', 'switch', 'case', 'default'):
        hd = {'for': lambda: 'for (%s; %s; %s)' % (SX.show(s.get('init')) if s.get('init') else '', SX.show(s.get('c')) if s.get('c') else '', SX.show(s.get('inc')) if s.get('inc') else ''),
              'while': lambda: 'while (%s)' % SX.show(s.get('c')), 'do': lambda: 'do … while (%s)' % SX.show(s.get('c')),
              'forrange': lambda: 'for (%s : %s)' % (s['var'].get('name'), SX.show(s.get('range'))), 'switch': lambda: 'switch (%s)' % SX.show(s.get('c')),
              'case': lambda: 'case %s:' % SX.show(s.get('v')), 'default': lambda: 'default:'}[k]()
        out(p + hd)
        ps(s.get('body') or s.get('s'), ind + 1, out)
    elif k == 'try':
        out(p + 'try')
        ps(s.get('body'), ind + 1, out)
        for h in s.get('handlers', []):
            out(p + 'catch (%s)' % (h.get('type') or '...'))
            ps(h.get('body'), ind + 1, out)
    elif k == 'decls':
        for d in s['d']:
            out(p + '%s %s%s;' % (d.get('type'), d.get('name'), (' = ' + SX.show(d['init'])) if SX.is_node(d.get('init')) else ''))
    elif k == 'return':
        out(p + 'return %s;' % (SX.show(s['e']) if SX.is_node(s.get('e')) else ''))
    elif k == 'ireturn':
        out(p + 'ireturn;')
    elif k == 'expr':
        out(p + SX.show(s.get('e')) + ';')
    else:
        out(p + SX.show(s))
