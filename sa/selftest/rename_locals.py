#!/usr/bin/env python3
"""rename_locals.py <relfile> [suffix]  — behaviour-preserving stress refactoring: rename every local variable and parameter of every
function defined in <relfile> (name → name<suffix>), leaving alone any name that is also the name of a field, function, method,
enumerator or global anywhere in the program (so that `.name`, `name(…)` and `Type::name` are never touched by accident).
Writes the unified diff to stdout.  The result must still compile: sa/selftest/rename_check.sh verifies that in a scratch worktree."""
import os
import re
import subprocess
import sys
import tempfile

sys.path.insert(0, os.path.join(os.path.dirname(os.path.abspath(__file__)), '..'))
from blochsa import sx as SX            # noqa: E402
from blochsa.program import Program     # noqa: E402


def main():
    rel = sys.argv[1]
    suffix = sys.argv[2] if len(sys.argv) > 2 else 'Rn'
    prog = Program()
    repo = prog.repo
    path = os.path.join(repo, rel)
    taken = set()
    for f in prog.functions:
        taken.add(f.short)
    for r in prog.facts.records.values():
        taken.add(r['name'].split('::')[-1])
        for fl in r.get('fields', []):
            taken.add(fl['name'])
        for m in r.get('methods', []):
            taken.add((m.get('name') if isinstance(m, dict) else str(m)).split('::')[-1])
    for (nm, fl, ln) in prog.facts.globals:
        taken.add(nm.split('::')[-1])
    for e in prog.facts.enums.values():
        taken.add(e['name'].split('::')[-1])
        for c in e.get('constants', e.get('values', [])):
            taken.add((c.get('name') if isinstance(c, dict) else str(c)).split('::')[-1])
    text = open(path).read().split('\n')
    taken |= set(re.findall(r'#define\s+(\w+)', '\n'.join(text)))
    fns = [f for f in prog.functions if f.file == path and f.kind != 'lambda' and f.body]
    nren = 0
    for f in sorted(fns, key=lambda x: x.ln):
        names = set()
        for p in f.params:
            if p.get('name'):
                names.add(p['name'])
        for n in SX.walk(f.body):
            if n['k'] == 'var' and n.get('name') and not n.get('bindings'):
                names.add(n['name'])
            if n['k'] == 'forrange' and SX.is_node(n.get('var')) and n['var'].get('name'):
                names.add(n['var']['name'])
            if n['k'] == 'lambda':
                for p in n.get('params', []):
                    if p.get('name'):
                        names.add(p['name'])
        names = {n for n in names if n not in taken and re.match(r'^[A-Za-z_]\w*$', n) and len(n) > 0 and n not in ('this',)}
        if not names:
            continue
        lo, hi = f.ln - 1, f.endln
        # the signature may start a line or two above the body's first line; include from the declarator line
        pat = re.compile(r'(?<![\w.>:])(?<!->)\b(' + '|'.join(sorted(map(re.escape, names), key=len, reverse=True)) + r')\b(?!\s*::)')
        for i in range(lo, min(hi, len(text))):
            line = text[i]
            # do not touch string literals and comments
            parts = re.split(r'("(?:[^"\\]|\\.)*"|\'(?:[^\'\\]|\\.)*\'|//.*$)', line)
            for j in range(0, len(parts), 2):
                parts[j], k = pat.subn(lambda m: m.group(1) + suffix, parts[j])
                nren += k
            text[i] = ''.join(parts)
    with tempfile.NamedTemporaryFile('w', suffix='.cpp', delete=False) as t:
        t.write('\n'.join(text))
    d = subprocess.run(['diff', '-u', '--label', 'a/' + rel, '--label', 'b/' + rel, path, t.name], capture_output=True, text=True)
    os.unlink(t.name)
    sys.stdout.write(d.stdout)
    sys.stderr.write('%s: %d occurrences renamed in %d functions\n' % (rel, nren, len(fns)))


if __name__ == '__main__':
    main()
