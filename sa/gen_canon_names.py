#!/usr/bin/env python3
"""Regenerates sa/blochsa/canon_names.json: the names the rule modules use for members and functions of the analysed classes, with
the type / signature of each, in declaration order.  It is a *resolution aid*, not a rule: when a name the rules address is no longer
in the tree and exactly one new name with the same type / signature has appeared in the same class (or file), the fact store presents
the renamed entity under its canonical name (see Facts._canonicalise), so that a pure rename is analysed like the original instead
of ending in analysis-broken.  Run after anchors change:  python3 sa/gen_canon_names.py"""
import json
import os
import sys

HERE = os.path.dirname(os.path.abspath(__file__))
sys.path.insert(0, HERE)
os.environ['BLOCHSA_NO_CANON'] = '1'
from blochsa.facts import Facts    # noqa: E402


def _fields_mentioned(body, rname, fields):
    """sorted names of the record's own data members a method body mentions: a second fingerprint for rename resolution (a new method is
    taken for a renamed old one only if it works on the same members)"""
    out = set()

    def rec(n):
        if isinstance(n, list):
            for x in n:
                rec(x)
        elif isinstance(n, dict):
            if n.get('k') == 'member' and isinstance(n.get('q'), str) and n['q'].startswith(rname + '::') and n.get('name') in fields:
                out.add(n['name'])
            for v in n.values():
                if isinstance(v, (dict, list)):
                    rec(v)
    rec(body)
    return sorted(out)


def main():
    F = Facts()
    out = {'records': {}, 'files': {}}
    for name, r in sorted(F.records.items()):
        if not r.get('file', '').startswith(F.repo) or '/third_party/' in r.get('file', ''):
            continue
        meths = [f for f in F.functions if f.cls == name and f.kind in ('method', 'ctor', 'dtor')]
        meths.sort(key=lambda f: (f.file, f.ln))
        out['records'][name] = {
            'fields': [[x['name'], x['type']] for x in r.get('fields', [])],
            'methods': [[f.short, f.sig, f.ret, bool(f.d.get('const')), bool(f.d.get('static')), f.kind, _fields_mentioned(f.d.get('body'), name, {x['name'] for x in r.get('fields', [])})]
                        for f in meths if f.kind == 'method'],
        }
    byfile = {}
    for f in F.functions:
        if f.cls is None and f.kind == 'function' and f.file.startswith(F.repo) and '/third_party/' not in f.file:
            byfile.setdefault(os.path.relpath(f.file, F.repo), []).append(f)
    for rel, fs in sorted(byfile.items()):
        fs.sort(key=lambda f: f.ln)
        out['files'][rel] = [[f.name, f.sig, f.ret] for f in fs]
    p = os.path.join(HERE, 'blochsa', 'canon_names.json')
    json.dump(out, open(p, 'w'), indent=0, sort_keys=True)
    print('wrote %s: %d records, %d files' % (p, len(out['records']), len(out['files'])))


if __name__ == '__main__':
    main()
