#!/usr/bin/env python3
"""Regenerates /verif/MANIFEST.json from the table below (kept in one place so it stays valid)."""
import json
import os

VERIF = os.path.dirname(os.path.dirname(os.path.abspath(__file__)))
TB = "Trusted: clang 14 parser/type resolution, the sx extractor (sa/extract/bx.cc), the CFG builder and kernels in sa/blochsa. "

CHECKS = {
    'C06': dict(
        text="Static path analysis over every evaluator→simulator call site and both measured-flag state machines: must-precede / "
             "must-follow pairing with identical operand expressions, wrapper summaries by fixpoint, flag-writer whitelist by role. "
             "Covers all CFG paths and all access paths (they converge on these sites); no execution.",
        note=TB + "Decides the structural necessary conditions (pairing, ordering, flag writers, located Runtime error), not the wording of diagnostics.",
        tech="static analysis: CFG dominance/post-dominance pairing (K-PAIR) + who-writes typestate over the type-resolved AST"),
    'C12': dict(
        text="Enumerated crash classes decided on all paths/call chains reachable from execute and the evaluator destructor: exception "
             "escape of value-dependent throwing library calls (K-TRY along caller chains), signed division guards (zero and -1), "
             "vector-element address stored while the vector can still grow, teardown order (Object-owning members emptied after the "
             "join), no exception escaping the shared_ptr deleter or the destructor. Each is a necessary condition for the absence of "
             "one crash class; absence of every crash is not claimed.",
        note=TB + "Not decided: stack exhaustion, allocation failure, signed overflow in + - *, float→int conversion of out-of-range "
             "values, null/bounds guards of every subscript (R12.6 of the design is not armed).",
        tech="static analysis: exception-escape analysis over the call graph, guard dominance, container-pointer invalidation and teardown-order rules"),
}

CHECKS['C09'] = dict(
    text="Frame-boundary discipline of the runtime scope stack decided structurally for every by-name walk and every frame-entry "
         "function: walks are bounded by the frame-base member; every function that binds `this`/parameters into a fresh scope moves "
         "the base to that scope (RAII guard or save/assign/restore) before anything is evaluated; nothing else writes the marker. "
         "Covers all callers/callees at once because the rule is about the only code that can consult caller scopes.",
    note=TB + "Decides the necessary structural condition (no path on which a caller's scopes are searched); it does not execute "
         "alpha-renamed programs. The analyser side (names bound to locals, then fields) is taken as documented.",
    tech="static analysis: structural loop-bound matching + RAII guard recognition + dominance in frame-entry functions + who-writes")

CHECKS['C11'] = dict(
    text="Schedule-free static rules: root completeness by type (every Object-owning member is a marking root over its full range; "
         "marking follows every Object reference), conservative-root step of the collector (traced-reference count over exactly the "
         "root set, compared with use_count, dominating the sweep), timer-thread effect set restricted to atomics/mutex/condvar, "
         "stop+notify+join ordering in the destructor and before the final collection. Holds for every schedule because the rules "
         "quantify over 'a collection may happen at any call site'.",
    note=TB + "Assumes std::shared_ptr::use_count is exact on the interpreter thread (the timer thread never touches Objects — checked "
         "by R11.3). Does not decide memory-model questions beyond 'only atomics are shared'.",
    tech="static analysis: type-driven root completeness, structural recognition of the conservative-root design, thread effect-set (who-touches) analysis, CFG ordering")

CHECKS['C10'] = dict(
    text="Order-independence decided structurally: analyser phase discipline (every program-wide table a visit reads is filled for all "
         "declarations before the first accept), runtime class layout order (base-first by post-order walk or recursive populate, never "
         "the declaration list), and no user-code-running loop over a hash container / the declaration list / an unsorted snapshot "
         "(phase-flag-guarded call edges are pruned). These are the only places a permutation of top-level declarations can influence.",
    note=TB + "Decides necessary conditions over all permutations at once; the module loader's merge order is covered under C19.",
    tech="static analysis: phase-discipline dominance in analyse(), structural recognition of the base-first ordering idiom, call-graph reachability from loop bodies with guard pruning")

CHECKS['C13'] = dict(
    text="Totality of the front end by static argument over all inputs: exception-escape analysis from tokenize/parse/load/analyse; the "
         "classical termination proof of a recursive-descent parser and scanner (must-consume-or-throw summaries by least fixpoint, "
         "progress on every cyclic path of every loop, acyclic first-call graph, remaining loops range-for/counted/hierarchy-walk after "
         "the cycle check); look-behind/look-ahead and subscript bounds by dominance; cursor-restoring backtracking; reset completeness "
         "of analyser and loader; diagnostic category of every throw; signed-division guards of the constant folder.",
    note=TB + "Not decided: recursion depth (stack), substr with computed positions (needs value ranges), time bounds beyond termination, "
         "balanced scope/flag restoration in analyser visitors (R13.6 of the design is not armed).",
    tech="static analysis: forward must-dataflow (consumed / not-at-end / loop-condition-false facts) with interprocedural summaries, SCC check of the first-call graph, guard dominance for subscripts, exception-escape analysis")

CHECKS['C20'] = dict(
    text="Version ordering, label, 'already latest', notice decision and install gate decided for all version pairs by exact abstract "
         "evaluation of the extracted functions over validity² × component orderings³ (precondition — components only compared "
         "pairwise — checked syntactically); exception escape of the numeric conversion; dominance of the environment-switch early "
         "return and persistence of the 72 h stamp; checksum line selected by equality and mismatch aborting before extraction.",
    note=TB + "K-ABS interprets the sx trees of compareSemVer/changeLabel/hasLatest/maybePrintNotice (no repo code is compiled or run). "
         "Not decided: parseSemVer as a string function, network/filesystem/clock behaviour, behaviour when checksums.txt has no entry.",
    tech="static analysis: finite abstract evaluation (exhaustive over a quotient domain) of extracted syntax trees + guard dominance + exception-escape analysis")

CHECKS['C19'] = dict(
    text="Loader typestate and ordering rules decided on all CFG paths of loadModule/load and both resolvers: canonicalise → cycle test "
         "(Semantic throw) → cache test → stack push → parse → (recursive load; package comparison that can only throw on mismatch)* → "
         "cache insert and load-order push strictly after the import loop → pop; merge in load order; identical documented root order "
         "in both resolvers with first hit; wildcard listings filtered and sorted; main-count guards.",
    note=TB + "Not decided: which concrete file wins in a concrete directory tree (symlinks, canonicalisation), i.e. filesystem behaviour.",
    tech="static analysis: typestate ordering by must-precede/must-follow on the CFG, sibling agreement of the two resolvers' extracted root sequences")

CHECKS['C18'] = dict(
    text="Every channel by which one shot could influence the next is closed structurally: fresh evaluator local per loop iteration and "
         "single-use guard in execute; no mutable static storage (frozen list {rng}); nothing reachable from execute mutates the shared "
         "syntax tree (one frozen exception whose guard and analyser premise are checked as path rules); analysis runs once before the "
         "loop; no static data members in the runtime records.",
    note=TB + "The RNG is deliberately excluded (draws are a parameter of the property). Equality of a shot with a fresh parse-analyse-run "
         "is argued from the absence of carried state, not by comparing executions.",
    tech="static analysis: scope/lifetime of the evaluator object, static-storage whitelist, AST write/mutating-call reachability from execute (who-writes), path rule for the analyser premise")

CHECKS['C01'] = dict(
    text="For every angle, register size, index pair and state: symbolic folding (sympy, θ symbolic) of the seven gate matrices proves "
         "unitarity and equality to the qelib1 references up to global phase; symbolic per-iteration execution of the 2×2 update with "
         "read-after-write semantics proves the linear map on the (bit clear, bit set) pair; the loop nests are matched against the "
         "strided-block decompositions (bounds, strides, shifts compared as normalised terms, cx under both operand orderings) whose "
         "index-set lemma is documented mathematics; the evaluator's dispatch table is compared with the built-in table and the simulator "
         "gate set, operand by operand.",
    note=TB + "sympy is trusted for closed-form simplification. The decomposition lemma (the loop nest enumerates each index with the "
         "required bit pattern exactly once) is carried as documented mathematics; its premises are what is checked. Floating-point "
         "rounding is not decided. Loop shapes outside the recognised decompositions yield exit 2, not a verdict.",
    tech="static analysis: symbolic constant folding of extracted expression trees (K-SYM), normalised term comparison of index arithmetic (K-SX), table agreement (K-TABLE)")

CHECKS['C02'] = dict(
    text="From the source of measure and its three evaluator sites, for every size/index/state: p1 accumulated as Σ|amp|² over exactly the "
         "bit-set indices; one uniform [0,1) draw from the process RNG with outcome = (r < p1); per-pair collapse transformer extracted by "
         "symbolic case evaluation equals amplitude/√p_outcome on the kept branch and 0 elsewhere; the returned bit is the collapse "
         "outcome and is what the evaluator stores, returns and records.",
    note=TB + "sympy trusted for simplification. Not decided: empirical frequencies (quality of mt19937/random_device), floating-point error.",
    tech="static analysis: symbolic per-pair transformer extraction by cases (K-ABS over {bit, outcome} × K-SYM), def-use of the returned bit at the evaluator sites")
CHECKS['C04'] = dict(
    text="Necessary and jointly sufficient structural conditions for a statistics-preserving statevector reset, decided from reset's source: "
         "subspace weights over the full range, outcome 1 exactly with the Born probability p1/(p0+p1) from one uniform draw and never an "
         "empty branch (truth table over the sign atoms, comparison checked algebraically), per-outcome pair transformer = collapse + "
         "renormalise + move to the bit-clear cell, bit-set cells zero on exit, and a single implementation reached from all three "
         "evaluator paths.",
    note=TB + "sympy trusted. The statistics themselves (averaging over the draw) are argued from these conditions, not sampled.",
    tech="static analysis: symbolic per-pair transformer extraction (K-ABS × K-SYM), boolean truth table of the outcome formula, call-site coverage")

CHECKS['C03'] = dict(
    text="Inductive invariants decided from the source for every history: allocation algebra (2·size, index-for-index copy, zero second "
         "half, single count increment, initial [1]); norm preservation of each operation (unitary matrices by K-SYM, measure/reset scale "
         "the kept branch by 1/√p_kept with p_kept accumulated under the keep guard); division safety of every floating-point division "
         "in the simulator (constant, dominating positivity guard, or the checked premise set of measure); qubit-index ownership "
         "(who-may-call / who-writes on allocator, free list, release); and the no-foreign-qubit-in-fields typestate over every write "
         "into object field storage. Three write sites genuinely violate the last rule (reproduced; listed as known findings).",
    note=TB + "sympy trusted. Not decided: norm within tolerance over long histories (floating point). Known findings: qubit aliasing through "
         "object fields (member assignment, bare-name field assignment, field initialiser) — see known_findings.txt.",
    tech="static analysis: symbolic folding of the allocation/renormalisation algebra, guard dominance for divisors, who-may-call and who-writes ownership rules, typestate over field-write sites")

CHECKS['C05'] = dict(
    text="Well-formedness and completeness of the emitted listing for every program: each simulator operation logs exactly one statement on "
         "every normal path (logging on) after operand checks and the state update; the logged text, folded as a string template, equals "
         "the OpenQASM 2.0 statement of the method's own mnemonic over its own parameters in order; getQasm folds to header + qreg/creg "
         "sized by the qubit count + log in order; range tests precede logging; cx rejects identical operands; the CLI streams one "
         "variable to file and stdout and reads the listing from the evaluator whose logging it switched on.",
    note=TB + "Oracle: OpenQASM 2.0 statement grammar and docs/reference/qasm-mapping.md. Equality of the replayed state is not decided on its "
         "own: it follows from these rules together with C01/C02/C04; six-decimal angle text is taken as specified.",
    tech="static analysis: exactly-once path counting (K-COUNT) on the CFG, string-template folding of extracted expressions (K-SX), guard dominance, def-use of the CLI listing variable")

CHECKS['C17'] = dict(
    text="Accounting decided from the source for every program and configuration: both tracked-outcome recorders are evaluated abstractly from "
         "their syntax trees over entry kinds × element classes × register lengths 0–3 (uniform range-for loops, checked) — each tracked "
         "qubit/qubit[] entry of a closing scope is counted exactly once under the right key with the right outcome string, nothing else "
         "is counted, the scope is popped, and the recorders agree; every opened scope is closed on all normal paths; the CLI sums every "
         "shot's counts inside the shot loop; shots and echo policy tables are evaluated exhaustively from the extracted statements; the "
         "printed probability divides by the variable's own total.",
    note=TB + "K-ABS interprets the sx trees of endScope, recordTrackedValue and the CLI policy statements (no repo code is compiled or run). "
         "The echo columns `none`/unrecognised strings are not armed (property statement and docs/tooling/cli.md differ). Per-shot outcome "
         "strings depend on the draws and are not decided.",
    tech="static analysis: finite abstract evaluation of extracted syntax trees over a quotient domain (K-ABS), scope pairing by post-dominance, def-use of the probability denominator")

CHECKS['C15'] = dict(
    text="Cursor accounting of the scanner decided on all paths for every input: token text = consumed characters (literal spellings compared "
         "with the dispatch/match characters; source spans compared as normalised position terms), a forward dataflow classifies the "
         "character consumed at every site (non-newline / newline / unknown) and any site that may consume a newline must be followed by "
         "line+1 and column:=1 before the next consumption, scanners that can cross a line report the position captured before their first "
         "consumption, the end-minus-length column formula is confined to newline-free scanners, and the primitive steps move position "
         "and column together.",
    note=TB + "The premise 'a token never starts with a newline' is itself checked (tokenize runs skipWhitespace immediately before scanToken; "
         "skipWhitespace only stops at end of input or at a non-space). Tabs count one column, as in the lexer's own convention.",
    tech="static analysis: forward must-dataflow over a three-point character lattice, path counting of consumed characters vs. literal length, normalised term comparison of span arguments")

CHECKS['C14'] = dict(
    text="The table-shaped part of the grammar decided exhaustively: binding powers, prefix power, loop-exit comparison and recursion arguments "
         "extracted from the Pratt parser; all 256 ordered pairs of binary operators plus prefix/binary, prefix/postfix and binary/postfix "
         "interplay compared with the precedence chain parsed from docs/grammar.md (independent of the numeric values chosen); grammar "
         "operators ↔ lexer spellings ↔ parser bindings; parser-tested tokens producible; lexer keywords consumed; one primitive-type "
         "token set at every type-start test; statement-keyword dispatch.",
    note=TB + "Oracle: docs/grammar.md. Not decided: the round-trip itself (tree equality after render/parse) for statement and class-member "
         "shapes; the annotated-member backtracking is decided under C13 (R13.4).",
    tech="static analysis: table extraction from switch/constant definitions and exhaustive comparison with the documented precedence chain (K-TABLE), sibling agreement of token sets")

CHECKS['C16'] = dict(
    text="'Enforced everywhere' decided as a finite obligation matrix (12 rules × the analyser functions that can perform the offending act, "
         "54 cells): each cell needs a Semantic throw controlled by the rule's predicate, in the visitor, its closures or the rule's own "
         "helper; sibling visitors share cells. The type-compatibility relation is decided exactly: isAssignableType / conversionCost / "
         "matchesPrimitive are evaluated abstractly from their syntax trees over 14 expected × 16 actual types (+64 primitive pairs) and "
         "compared with the documented relation; and no compatibility site may skip the comparison on the Unknown primitive tag of an "
         "inferred value type (class/array values carry it).",
    note=TB + "K-ABS interprets the helper functions' sx trees with a 3-class hierarchy model (no repo code is run). 'And only there' (absence "
         "of false rejections) outside the enumerated domain is not decided; predicates other than type compatibility are checked for "
         "presence, not for correctness.",
    tech="static analysis: obligation matrix over AST-visitor methods (guarded-throw presence by CFG reachability from predicate tests), finite abstract evaluation of the type-compatibility helpers (K-ABS)")

CHECKS['C07'] = dict(
    text="Control skeleton of the classical evaluator only: handler exhaustiveness (every concrete Statement/Expression class of the AST "
         "has a dynamic_cast branch in exec / eval / the parser's expression cloner); return unwinding (every statement-executing loop "
         "tests the return flag after each statement; call, callMethod, runConstructorChain and destroyObject save, clear and restore "
         "the flag on all normal paths); every computed subscript of a value array is dominated by the `i<0 || i>=size` test on the same "
         "container (or is a loop induction variable bounded by that container's size) and language-level `/`/`%` by their zero tests; "
         "`/` yields a Float-tagged value on every path; numeric routing of the operator cascade (double arithmetic only under the "
         "has-a-float-operand guard, integer arithmetic only under its negation, result tags under matching guards); and the result "
         "type of every documented (operator, left type, right type) combination of scalar operands, decided exactly by abstract "
         "evaluation of the cascade's syntax tree over type tags (quotient validity checked: values steer control only through "
         "comparisons with literals). All CFG paths of those functions.",
    note=TB + "NOT decided: operator result *values* beyond one representative per type class, numeric formatting, casts, evaluation order and "
         "for-loop update ordering — that is a differential property against a reference interpreter over runtime values, out of reach "
         "of a static rule. The clauses above are necessary conditions (breaking one changes behaviour), not the whole property.",
    tech="static analysis: class-hierarchy exhaustiveness of dynamic_cast dispatch, CFG dominance of guards over subscripts/divisions, save/clear/restore typestate of the return flag")

CHECKS['C08'] = dict(
    text="Structural necessary conditions of the documented object model on all CFG paths of the anchored functions: construction order "
         "(recursive base call → own field initialisers → body; consumed super statement skipped; own fields only, in layout order; `new` "
         "starts the chain on the stamped class); destruction order (obj->cls upwards, own class context, qubit release last); dispatch "
         "(virtual re-dispatch through receiver->cls->vtable[signature] under no further condition, never for class-reference receivers; "
         "every virtual/override method registered in both table builders after the base-vtable copy; method body in its declaring "
         "class's context); overloads (both resolvers walk the whole hierarchy, unique-minimum selection with tie detection at all 5 "
         "sites, analyser and runtime cost tables equal each other and the documented costs on 14×15 type pairs by abstract evaluation "
         "of their syntax trees, declared slots and activation results carry the declared class as static stamp, stamped nulls costed by "
         "their stamp); statics (storage reached only through the owner found with the field, never copied from a base); phase "
         "discipline (function table complete before any evaluation).",
    note=TB + "NOT decided: equality of observable output with a reference model over all programs (differential property); generic "
         "specialisation identity beyond C18. Two genuine defects found by these rules were repaired (b0b69bc, 887b4eb).",
    tech="static analysis: CFG must-precede/must-follow ordering, guard-set exactness over enclosing conditions, loop-exit dependence analysis, sibling agreement, finite abstract evaluation (K-ABS) of the two cost functions")

# ---- clauses added after the first build (second seeded round, mutation campaign) ----------------------------------------
_ADD = {
    'C01': " The pair update of the 2x2 applicator is unconditional (no branch, skip or early exit inside the sweep); loop-shape deviations (start, direction) are reported, not given up on.",
    'C03': " Each qubit slot of a destroyed object is released exactly once (one sweep over the object's fields).",
    'C05': " Angle operands may go through a formatting helper only if it prints fixed notation with at least six decimals.",
    'C06': " The simulator's and the evaluator's allocation functions are evaluated abstractly over flag-vector / free-list states (handed-out index is unmeasured, last measurement forgotten); the simulator guard refuses only when the flag is set; bounds excuses are polarity-aware.",
    'C09': " Every switch of the lexical class context is followed by its own frame boundary before user code runs (per loop iteration), and context members (class context, static/constructor/destructor mode) are saved and restored by every activation.",
    'C12': " Contradiction rule for nullable syntax-tree links: a link null-tested anywhere in the program is tested before every dereference in the evaluator.",
    'C14': " Assignment is right-recursive as in the grammar; member modifiers are accepted in any order; the declaration look-ahead is evaluated abstractly on 16 statement-start token patterns against the grammar.",
    'C17': " Every simulator reset goes with forgetting the last measurement; the (annotated, N) shots pair is annotated=true whatever N; every declarator node of a multi-declaration receives the tracked flag.",
    'C19': " A resolved import target is loaded before its package is compared; the comparison may live in a helper or closure.",
    'C20': " parseSemVer is evaluated abstractly on 28 version spellings (prefix, missing components, suffixes, huge numbers, garbage) against the documented reading.",
}
for _k, _v in _ADD.items():
    CHECKS[_k]['text'] = CHECKS[_k]['text'] + _v
CHECKS['C08']['text'] += (" `this` is stamped with the class installed as context; both overload resolvers are evaluated abstractly on 18 model hierarchies "
                          "(levels, overrides, widening, class distance, null, ties) against the documented resolution.")
CHECKS['C07']['text'] += (" Also: every scope opened is closed on every normal path; activations clear the return-value register; explicit casts between int/long/float/bit and "
                          "unary/postfix operators are evaluated abstractly against the documented results.")

CHECKS['C08']['text'] += " Generic specialisation binds the template's own parameters positionally, replacing outer bindings of the same name (R08.8)."
CHECKS['C10']['text'] += " The name→declaration table the base-first walk consults is filled for every class declaration (generic templates included)."
CHECKS['C13']['text'] += " A cursor restore inside a loop uses a position saved in the same iteration; members written element-wise are per-run state and must be reset."
CHECKS['C06']['text'] += " The evaluator's allocation function is evaluated abstractly over free-list states (incl. two free indices: an index handed out leaves the list)."
CHECKS['C05']['text'] += " Angle texts produced by helper functions are evaluated from their syntax trees on sample angles (value preserved to six decimals)."
CHECKS['C17']['text'] += " The CLI's shot/echo policy is found as a data-flow slice from its sinks (shot-loop bound, run-mode branch, setEcho arguments) — no variable names are used."
for _p in ('C01', 'C02', 'C03', 'C04', 'C05', 'C17'):
    CHECKS[_p]['note'] += " Helper functions of the analysed kernels are inlined by K-NORM (meaning-preserving: inline, nrvo, sroa, copy propagation) before the rules read them."

# round 6 of the seeded changes and the two defects repaired then
CHECKS['C04']['text'] += " Index reuse hands out the free-list element it removes (read back(), pop, reset; exclusive with fresh allocation)."
CHECKS['C05']['text'] += " Texts chosen by a condition are kept as alternatives in the folded listing template (never equal to the fixed documented header)."
CHECKS['C06']['text'] += " A recycled index is handed out only after sim.reset(index) on every path (both copies of the measured flag clear)."
CHECKS['C08']['text'] += (" Every store into an existing typed slot keeps or re-establishes the slot's static-class stamp; base-first layout through generic templates "
                          "(C10 R10.2) and the emptied return-value slot (no returned object pinned past its call) are obligations here too.")
CHECKS['C10']['text'] += " Table entries filled in place (through a reference to the slot, or field by field) are read like assigned entries."
CHECKS['C11']['text'] += " A container whose every appended element had its fields cleared immediately before is storage only (premise checked), not a marking root."
CHECKS['C12']['text'] += (" Base-first layout (C10 R10.2) so that field offsets stay inside the object; every non-owning alias of a dying object is a named local whose "
                          "use_count() is examined and recorded in a flag, and every delete of an Object is on the flag-clear side of a test of that flag.")
CHECKS['C13']['text'] += " Each vector subscript of the analyser is dominated by a range test, a loop bound on an equally long vector, or a size test (29 sites)."
CHECKS['C16']['text'] += " Every visitor of a statement kind with sub-statements raises the constructor nesting counter before visiting any child (R16.E)."
CHECKS['C17']['text'] += (" Every builder of a runtime field description copies the same attributes (tracked flag); the return-value slot is emptied when an activation "
                          "hands its result over (an owner returned from a function ends inside the run).")
CHECKS['C18']['text'] += " In the simulator every write guarded by the per-shot logging switch goes to the log only; the switch is set by the constructor only."
CHECKS['C19']['text'] += " The search-path preference is exactly: name parts non-empty and first part == \"bloch\" (conjunct-wise); first hit decided path-sensitively."

CHECKS['C02']['text'] += " Sweep schemes recognised exactly: flat, block-wise, half-wise, and pair enumeration by bit deposit (k split around 2^q − 1, checked)."
CHECKS['C07']['text'] += " Static storage is filled with typed defaults of the declared kind (R07.10)."
CHECKS['C08']['text'] += (" Typed defaults per declared kind; the runtime signature label is injective over all 18 parameter kinds (evaluated through its switch and the "
                          "labelling function it delegates to); no statement stores a default-constructed Value into a declared slot (destroy leaves a null reference that keeps the stamp); "
                          "result-less activations (constructor bodies) empty the return slot.")
CHECKS['C10']['text'] += " The step from a class to its base in the layout walk does not depend on whether the base is written with type arguments."
CHECKS['C11']['text'] += (" R11.5: the sweep never decides when an object it does not reclaim is destroyed — unreachable objects excluded from the sweep by a class flag are collected in a set, "
                          "closed under 'refers to a member' by a fixpoint over every kind of object reference (skipped only by the end-of-run collection), and marked with all they reach before the selection.")
CHECKS['C13']['text'] += " Type-parameter bounds are resolved in the scope of the class's own parameters."
CHECKS['C14']['text'] += (" Declaration look-ahead evaluated abstractly on >100 statement-start token patterns: every non-type token kind inside `<…>` must yield 'expression', "
                          "every type token kind (incl. qualified names, arrays, nested lists) must yield 'declaration'.")
CHECKS['C15']['text'] += " Every move of the lexer cursor goes through the line/column-tracking advance (no raw position increments)."
CHECKS['C16']['text'] += (" R16.F sibling agreement: every constructor-argument check instantiates the generic parameter list before costing (one known finding: super(...) "
                          "against a generic base).")
CHECKS['C17']['text'] += " Result-less activations (constructor bodies) empty the return slot too."
CHECKS['C18']['text'] += " The evaluator's copy of the switch guards no state change of evaluator or simulator either."

CHECKS['C03']['text'] += " The free list is a multiset of released indices: the allocator removes exactly the element it hands out (pop of the element read, or swap-and-pop of the position read)."
CHECKS['C08']['text'] += " Every builder of runtime classes copies the same members from the base."
CHECKS['C11']['text'] += (" The kept set is seeded with every candidate, reachable or not, whose class chain has a destructor body or qubit/tracked fields (closure over the base chain; the mark bit "
                          "may not be tested).")
CHECKS['C12']['text'] += (" R12.12/R12.13: every std::vector subscript of the evaluator (161 sites) is proven in range: loop-counter subscripts and value-array subscripts (C07's R07.4, run here too), "
                          "the built-in argument vector (R12.6), and 41 others by bound tests, grow-to-fit, validating callees, validating earlier loops, the name→offset maps (premise checked at every "
                          "writer) and object storage sized at creation.")
CHECKS['C14']['text'] += " R14.7: the declarators parked by `qubit a, b, c;` are flushed into the same list right after the first was appended, at every flush site."
CHECKS['C16']['text'] += " R16.G: every visitor of a declaration with a body sets each member visit(ReturnStatement) decides from."
CHECKS['C17']['text'] += (" Each measurement is recorded under the measured qubit's own index (C02's R02.5, run here); the collector's closure over kept objects is skipped once the run is over, so the "
                          "end-of-run collection releases their referrers inside the run.")
CHECKS['C20']['text'] += " Between reading a listed file name and comparing it with the asset name only a leading '*' and a leading \"./\" may be removed (fixed-length erase under an exact prefix test)."

CHECKS['C03']['text'] += " No destructor body is reachable after a release of the object's qubit fields."
CHECKS['C07']['text'] += (" R07.11: an int bound to a slot declared long is widened at every binding site (one widening function, called by every class-stamping function and before every store "
                          "in assign). Casts are evaluated with 32-bit narrowing modelled.")
CHECKS['C11']['text'] += " Seeding and fixpoint are read by phase (running / end of run); neither may test the mark bit in the running phase."
CHECKS['C14']['text'] += " R14.8: parseStatement evaluated abstractly on 19 statement starts: declarations (final passed on), the stray-final error, assignment, call and every keyword reach their production."
CHECKS['C16']['text'] += " numericPromotion evaluated on all pairs (float before long before int before bit)."
CHECKS['C17']['text'] += " The probability divisor is written by its accumulation only."
CHECKS['C18']['text'] += " The per-shot presentation switches (echo, warn-at-exit) guard output only."

CHECKS['C01']['text'] += " copysign/fabs in a gate's coefficients are evaluated symbolically."
CHECKS['C02']['text'] += " The simulator draws from exactly one random engine; a register's recorded outcome has one character per element, in element order, from that element's own last measurement."
CHECKS['C03']['text'] += " A sweep that stops short of the end of the state vector is reported."
CHECKS['C04']['text'] += " Every write of the amplitude vector in reset belongs to one of the two recognised sweeps."
CHECKS['C05']['text'] += " The evaluator's simulator is replaced whole only before anything of the run can have been logged (no call that reaches a simulator operation precedes it; program code cannot re-enter)."
CHECKS['C07']['text'] += (" The operator table also decides by value: longs a double cannot hold (2^53+1 vs 2^53, 2^53+3) for + - % and the comparisons, and a zero right operand of / and % over all "
                          "operand-kind pairs (runtime error) — whatever shape the cascade has.")
CHECKS['C08']['text'] += " Each destructor body of the chain starts with the has-return flag cleared."
CHECKS['C13']['text'] += " Local error-building closures are followed (throw sites, and subscripts by a closure parameter judged at every call of the closure)."
CHECKS['C17']['text'] += " A builder that copies a base's instance fields copies its has-tracked-fields flag; per-shot counts are added under (variable, outcome) exactly."
CHECKS['C19']['text'] += " The module key resolves the path through the file system (lexical only after an error); load() empties stack, cache and order before the first module."
CHECKS['C20']['text'] += " The binary-mode marker is removed before the \"./\" prefix is looked for."
CHECKS['C07']['text'] += (" R07.12: on no path through an evaluator handler is the same child link evaluated by two different calls (a constant element and a loop over all "
                          "elements included). R07.13: the analyser's constant folder may return an integer quotient for `/` only when the division is exact (one known finding).")
CHECKS['C09']['text'] += " R09.3: every scope opened is closed on every normal path of the same function."
CHECKS['C10']['text'] += " A record stored per declaration into an analyser table is built inside the loop that stores it."
CHECKS['C01']['text'] += " No gate keeps its matrix in a static local initialised from the call's arguments."
CHECKS['C03']['text'] += " Distinct qubit fields get distinct slots: a class copies its base's layout only after the base was populated (C10 R10.2, run here)."
CHECKS['C07']['text'] += " Every binding site (declaration, parameter, return, typed store) passes its value through a stamping, hence widening, function (C08 R08.4, run here)."
CHECKS['C10']['text'] += " Every visitor of a declaration with a body sets the per-callable members itself (C16 R16.G, run here)."
CHECKS['C14']['text'] += " Each declarator node of a multi-declaration receives every attribute of the declaration, finished at the time of the copy."
CHECKS['C17']['text'] += " An attribute copied to a further declarator is not written on the first one afterwards."
CHECKS['C18']['text'] += " No function-local static is initialised from an argument or a local (it would keep the first call's value across shots)."

NOT_YET = "check not yet built in this round (framework under construction; see DESIGN.md §4 for the planned static rules)"


def main():
    props = [json.loads(l) for l in open(os.path.join(VERIF, 'properties.jsonl'))]
    checks = []
    for pid in sorted(CHECKS):
        c = CHECKS[pid]
        checks.append({
            'property_id': pid,
            'quick_cmd': './check %s --tier quick' % pid,
            'thorough_cmd': './check %s --tier thorough' % pid,
            'evidence_file': 'evidence/%s.json' % pid,
            'replay_cmd_template': 'cat {path}',
            'engine': 'blochsa',
            'level_claimed': {'category': 'other', 'text': c['text'], 'design_ref': 'DESIGN.md §4 ' + pid},
            'level_note': c['note'],
            'technique': c['tech'],
        })
    na = [{'property_id': p['id'], 'reason': NA.get(p['id'], NOT_YET)} for p in props if p['id'] not in CHECKS]
    m = {
        'version': 1,
        'setup_cmd': './setup.sh',
        'hooks': {
            'guard': 'BLOCH_VERIF',
            'enable': 'none needed: the checks parse /repo/src with clang libTooling; nothing is compiled in or executed',
            'baseline_off_cmd': 'cmake -G Ninja -S /repo -B /repo/_build >/dev/null && cmake --build /repo/_build >/dev/null && ctest --test-dir /repo/_build -j8 --timeout 900',
            'source_commits': [],
            'add_only': True,
        },
        'engines': [{'name': 'blochsa', 'path': '/verif/sa', 'serves_properties': sorted(CHECKS),
                     'kind_free_text': 'custom static analyser: clang-14 libTooling fact extractor (sa/extract/bx.cc) + Python CFG/dominance/'
                                       'call-graph/abstract-evaluation kernels and per-property rule tables'}],
        'checks': checks,
        'not_applicable': na,
        'notes': 'All checks are static analyses of /repo\'s current working tree (BLOCH_REPO overrides the path for self-tests on scratch '
                 'copies). Exit 0 pass (KNOWN-FINDING lines allowed), 1 VIOLATION, 2 analysis broken. --tier thorough additionally runs the '
                 'checker self-validation battery (mutants must be reported, behaviour-preserving edits must stay silent) on scratch copies.',
    }
    json.dump(m, open(os.path.join(VERIF, 'MANIFEST.json'), 'w'), indent=1)
    print('MANIFEST.json: %d checks, %d not_applicable' % (len(checks), len(na)))


NA = {}

if __name__ == '__main__':
    main()
