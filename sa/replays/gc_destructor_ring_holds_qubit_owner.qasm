OPENQASM 2.0;
include "qelib1.inc";
qreg q[1];
creg c[1];
reset q[0];
