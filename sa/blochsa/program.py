"""Program model on top of the fact store: lambdas as functions, per-function CFGs, the resolved
call graph (virtual calls fan out to overriders), always-throws summaries."""
import os
from . import sx as SX
from .facts import Facts, Function, AnalysisBroken
from .cfg import CFG


class Program:
    def __init__(self, repo=None):
        self.facts = Facts(repo)
        self.repo = self.facts.repo
        self.functions = list(self.facts.functions)
        self._cfg = {}
        self._callees = {}
        self._callers = None
        self.noreturn = frozenset()
        self.inlined_new = {}
        self._index()
        # new helper functions are inlined into their callers before lambdas are collected (the rewritten bodies hold new nodes)
        if not os.environ.get('BLOCHSA_NO_GLOBAL_NORM'):
            self._unroll_tables()
            self._beta_closures()
            self._inline_new_functions()
        self._add_lambdas()
        self._index()
        self._cfg = {}
        self._callees = {}
        self._callers = None
        self._normalised = {}
        self.noreturn = self._compute_noreturn()

    def _index(self):
        self.by_key = {}
        self.by_name = {}
        for f in self.functions:
            self.by_key.setdefault(f.key, []).append(f)
            self.by_name.setdefault(f.name, []).append(f)
        self._overriders = {}
        for f in self.functions:
            for b in f.d.get('overrides', []) if hasattr(f, 'd') else []:
                self._overriders.setdefault(b + f.sig, []).append(f)

    def _beta_closures(self):
        """calls of pure single-expression local closures are replaced by the expression (K-NORM beta_pure_closures)"""
        from .knorm import beta_pure_closures
        self.beta_closures = []
        for f in self.functions:
            if f.kind == 'lambda' or not f.body or '/third_party/' in f.file:
                continue
            nb = beta_pure_closures(self, f)
            if nb is not None:
                f.body = nb
                f.d = dict(f.d, body=nb)
                self.beta_closures.append(f.name)

    # ---- dispatch tables of member pointers -----------------------------------------------------------
    def _unroll_tables(self):
        """loops over constant tables of member pointers are replaced by the if-chain they stand for (K-NORM, unroll_memptr_tables);
        nothing on a tree without such tables"""
        from .knorm import unroll_memptr_tables
        self.unrolled_tables = []
        for f in self.functions:
            if f.kind == 'lambda' or not f.body or '/third_party/' in f.file:
                continue
            nb = unroll_memptr_tables(self, f)
            if nb is not None:
                f.body = nb
                f.d = dict(f.d, body=nb)
                self.unrolled_tables.append(f.name)

    def _inline_new_functions(self):
        """Functions that are not in the canonical table (sa/blochsa/canon_names.json: every function of the tree the rule anchors were
        confirmed on) are *new helpers* — typically steps a maintainer extracted from a long function.  They are inlined (K-NORM,
        meaning-preserving) into their callers wherever the call stands in a statement, initialiser, assignment or return position,
        so that a rule written over the long function still sees its steps.  The helper itself stays in the program (rules that
        sweep all functions read it too).  On a tree without new functions this does nothing."""
        import json as _json
        p = os.path.join(os.path.dirname(os.path.abspath(__file__)), 'canon_names.json')
        if not os.path.exists(p):
            return
        T = _json.load(open(p))
        known_m = {(r, m[0]) for r, t in T.get('records', {}).items() for m in t['methods']}
        known_f = {(rel, x[0]) for rel, fl in T.get('files', {}).items() for x in fl}
        known_files = set(T.get('files', {}))
        new = []
        for f in self.functions:
            if f.kind not in ('method', 'function') or not f.body or '/third_party/' in f.file or not f.file.startswith(self.repo):
                continue
            if f.cls:
                if f.cls in T.get('records', {}) and (f.cls, f.short) not in known_m:
                    new.append(f)
            else:
                rel = os.path.relpath(f.file, self.repo)
                if (rel in known_files or any(r_.endswith('.cpp') and os.path.dirname(r_) == os.path.dirname(rel) for r_ in known_files)) and (rel, f.name) not in known_f \
                        and not rel.endswith('.hpp'):
                    new.append(f)
        # local closures that are handed a closure (a literal, or another local closure by name) are helpers of the same kind, written
        # inside the function: expanded under the same policy even when no new function exists
        def higher_order(f):
            clos = {n['id'] for n in SX.walk(f.body) if n.get('k') == 'var' and SX.is_node(n.get('init')) and SX.strip(n['init']).get('k') == 'lambda'}
            if not clos:
                return False
            for n in SX.walk(f.body):
                if n.get('k') == 'opcall' and n.get('op') == '()' and n.get('args') and SX.is_node(SX.strip(n['args'][0])) and SX.strip(n['args'][0]).get('id') in clos:
                    for a in n['args'][1:]:
                        a = SX.strip(a)
                        if SX.is_node(a) and (a.get('k') == 'lambda' or (a.get('k') == 'ref' and a.get('id') in clos)):
                            return True
            return False
        ho = [f for f in self.functions if f.kind != 'lambda' and f.body and '/third_party/' not in f.file and f.file.startswith(self.repo) and higher_order(f)]
        if not new and not ho:
            return
        from .knorm import normalise, beta_pure_functions
        only = {f.key for f in new}
        self._new_keys = only
        if new:
            # new one-expression predicates/accessors read as the expression they return, wherever they are called
            for f in list(self.functions):
                if f.body and '/third_party/' not in f.file:
                    nb = beta_pure_functions(self, f, new)
                    if nb is not None:
                        f.body = nb
                        f.d = dict(f.d, body=nb)
                        # a local closure that only called such a predicate is now a pure one-expression closure itself
                        from .knorm import beta_pure_closures
                        nb2 = beta_pure_closures(self, f) if f.kind != 'lambda' else None
                        if nb2 is not None:
                            f.body = nb2
                            f.d = dict(f.d, body=nb2)
                            self.beta_closures.append(f.name)
        for f in (list(self.functions) if new else ho):
            if f.kind == 'lambda' or not f.body or '/third_party/' in f.file:
                continue
            f2 = normalise(self, f, depth=4, only=only)
            if f2 is not f:
                self.inlined_new[f.name] = getattr(f2, 'normalised', {})
                f.body = f2.body
                f.d = dict(f.d, body=f2.body)
        # a new helper whose every call was inlined is covered where it was inlined (with the callers' context in view): it is not
        # analysed a second time on its own, where e.g. a position it receives as a parameter could not be traced to the node
        called = set()
        for f in self.functions:
            if f.body:
                for n in SX.walk(f.body):
                    if n.get('k') in ('call', 'mcall') and n.get('callee'):
                        called.add(n['callee'])
        gone = [f for f in new if f.name not in called]
        if gone:
            gk = {id(f) for f in gone}
            self.functions = [f for f in self.functions if id(f) not in gk]
            self.covered_new = sorted(f.name for f in gone)

    # ---- lambdas ----------------------------------------------------------------------------
    def _add_lambdas(self):
        new = []
        for f in list(self.functions):
            self._lambdas_of(f, new)
        self.functions.extend(new)

    def _lambdas_of(self, f, out):
        # direct lambdas only (nested ones belong to the lambda)
        def direct(n, top):
            for c in SX.children(n):
                if c.get('k') == 'lambda':
                    yield c
                else:
                    yield from direct(c, False)
        for lam in direct(f.body, True) if f.body else []:
            d = {'name': '%s::<lambda@%d:%d>' % (f.name, lam.get('ln', 0), lam.get('col', 0)), 'file': f.file, 'ln': lam.get('ln', 0),
                 'endln': (lam['body'] or {}).get('endln', lam.get('ln', 0)), 'sig': '()', 'kind': 'lambda', 'params': lam['params'],
                 'body': lam['body'], 'ret': '', 'cls': f.cls}
            lf = Function(d, self.repo)
            lf.parent = f
            lf.d = d
            lf.node = lam
            f.lambdas.append(lf)
            out.append(lf)
            self._lambdas_of(lf, out)
        # ctor initialisers may hold lambdas too (rare); ignored

    # ---- lookup -----------------------------------------------------------------------------
    def fn(self, qname, sig=None, required=True):
        c = [f for f in self.functions if f.kind != 'lambda' and (f.name == qname or f.name.endswith('::' + qname))]
        if sig is not None:
            c = [f for f in c if sig in f.sig]
        if len(c) == 1:
            return c[0]
        if not c:
            if required:
                raise AnalysisBroken('anchor function %s%s not found' % (qname, ' ' + sig if sig else ''))
            return None
        raise AnalysisBroken('anchor function %s%s is ambiguous (%d candidates)' % (qname, ' ' + sig if sig else '', len(c)))

    def fns(self, qname):
        return [f for f in self.functions if f.kind != 'lambda' and (f.name == qname or f.name.endswith('::' + qname))]

    def methods_of(self, cls_qname):
        return [f for f in self.functions if f.cls == cls_qname and f.kind != 'lambda']

    def record(self, qname, required=True):
        return self.facts.record(qname, required)

    def in_file(self, suffix, with_lambdas=True):
        return [f for f in self.functions if f.file.endswith(suffix) and (with_lambdas or f.kind != 'lambda')]

    def rel(self, path):
        return os.path.relpath(path, self.repo)

    # ---- CFG --------------------------------------------------------------------------------
    def cfg(self, f):
        g = self._cfg.get(id(f))
        if g is None:
            g = CFG(f, self.noreturn)
            self._cfg[id(f)] = g
        return g

    def _compute_noreturn(self):
        """Least fixpoint: functions with a body none of whose paths reaches the normal exit."""
        nr = set()
        changed = True
        rounds = 0
        cand = [f for f in self.functions if f.body and f.kind in ('function', 'method')]
        # quick prefilter: only functions that contain a throw or a call to a known noreturn
        while changed and rounds < 5:
            changed = False
            rounds += 1
            for f in cand:
                if f.key in nr:
                    continue
                has = False
                for n in SX.walk(f.body, into_lambdas=False):
                    if n['k'] == 'throw' or (n['k'] in ('call', 'mcall') and ((n.get('callee') or '') + n.get('sig', '')) in nr):
                        has = True
                        break
                if not has:
                    continue
                g = CFG(f, frozenset(nr))
                r = g.reachable([g.entry])
                if g.exit.id not in r:
                    nr.add(f.key)
                    changed = True
        return frozenset(nr)

    # ---- call graph -------------------------------------------------------------------------
    def resolve(self, call):
        """Functions (with bodies in the analysed tree) a call-like node may invoke."""
        k = call.get('k')
        if k == 'new':
            return []
        name = SX.callee(call)
        if not name:
            return []
        key = name + call.get('sig', '')
        out = list(self.by_key.get(key, []))
        if not call.get('inroot'):
            return out
        if not out:
            out = [f for f in self.by_name.get(name, []) if f.kind != 'lambda']
            if len(out) > 1:
                out = [f for f in out if f.sig == call.get('sig')] or out
        if call.get('virtual') or True:
            out = out + self._overriders.get(key, [])
            # transitive overriders
            seen = {id(f) for f in out}
            work = list(out)
            while work:
                f = work.pop()
                for o in self._overriders.get(f.key, []):
                    if id(o) not in seen:
                        seen.add(id(o))
                        out.append(o)
                        work.append(o)
        return out

    def closure_target(self, call, within):
        """the local closure of function `within` that `call` (an `operator()` application on a closure variable) invokes, or None"""
        import re
        if not (SX.is_node(call) and call.get('k') == 'opcall' and call.get('op') == '()'):
            return None
        m = re.search(r'lambda at [^)]*:(\d+):(\d+)\)', call.get('at', '') or '')
        if not m:
            return None
        ln, col = int(m.group(1)), int(m.group(2))
        for lf in within.lambdas:
            if lf.node.get('ln') == ln and lf.node.get('col') == col:
                return lf
        return None

    def closure_calls(self, lam):
        """([call nodes of the local closure `lam` in its defining function], every mention of the closure variable is such a call)"""
        par = lam.parent
        if par is None or not par.body:
            return [], False
        calls = [n for n in SX.walk(par.body, into_lambdas=False) if self.closure_target(n, par) is lam]
        var = [n for n in SX.walk(par.body, into_lambdas=False) if n.get('k') == 'var' and SX.strip(n.get('init')) is lam.node]
        if len(var) != 1:
            return calls, False
        heads = {id(SX.strip(c['args'][0])) for c in calls}
        refs = [n for n in SX.walk(par.body) if n.get('k') == 'ref' and n.get('id') == var[0].get('id')]
        return calls, all(id(r) in heads for r in refs)

    def callees(self, f):
        """[(call_node, [Function...])] for every call-like node in f (not descending into lambdas),
        plus an edge to each lambda defined in f."""
        c = self._callees.get(id(f))
        if c is not None:
            return c
        c = []
        if f.body:
            for n in SX.walk(f.body, into_lambdas=False):
                if n['k'] in SX.CALL_KINDS or (n['k'] == 'index' and 'callee' in n):
                    c.append((n, self.resolve(n)))
            for init in f.d.get('inits', []) if hasattr(f, 'd') else []:
                for n in SX.walk(init.get('init')):
                    if n['k'] in SX.CALL_KINDS:
                        c.append((n, self.resolve(n)))
        for lf in f.lambdas:
            c.append((lf.node, [lf]))
        self._callees[id(f)] = c
        return c

    def callers(self, f):
        if self._callers is None:
            self._callers = {}
            for g in self.functions:
                for n, fs in self.callees(g):
                    for t in fs:
                        self._callers.setdefault(id(t), []).append((g, n))
        return self._callers.get(id(f), [])

    def reach(self, roots, stop=lambda f: False):
        """Functions reachable from roots through the call graph (roots included)."""
        seen = {}
        work = list(roots)
        for r in roots:
            seen[id(r)] = r
        while work:
            f = work.pop()
            if stop(f):
                continue
            for n, fs in self.callees(f):
                for t in fs:
                    if id(t) not in seen:
                        seen[id(t)] = t
                        work.append(t)
        return list(seen.values())

    def call_path(self, src, dst_pred, stop=lambda f: False):
        """Shortest call chain [f0, f1, ...] from src to a function satisfying dst_pred, or None."""
        from collections import deque
        prev = {id(src): None}
        byid = {id(src): src}
        dq = deque([src])
        while dq:
            f = dq.popleft()
            if dst_pred(f) and f is not src:
                path = [f]
                while prev[id(path[-1])] is not None:
                    path.append(prev[id(path[-1])])
                return list(reversed(path))
            if stop(f):
                continue
            for n, fs in self.callees(f):
                for t in fs:
                    if id(t) not in prev:
                        prev[id(t)] = f
                        byid[id(t)] = t
                        dq.append(t)
        return None
