"""K-SYM: closed-form folding of extracted floating/complex expressions with sympy (tooling venv).
Used only for constant/closed-form algebra in symbolic parameters; never for path search; never runs repo code."""
import sympy as sp
from . import sx as SX

INT_TYPES = ('int', 'long', 'unsigned long', 'unsigned int', 'long long', 'size_t', 'short', 'char', 'bool')


class Unfoldable(Exception):
    pass


def to_sympy(e, env, reads=None):
    """env: var id → sympy expr; reads: callable(base_text, index_expr) for container element reads."""
    e = SX.strip(e)
    if not SX.is_node(e):
        raise Unfoldable('empty')
    k = e['k']
    if k == 'int':
        return sp.Integer(int(e['v']))
    if k == 'float':
        return sp.nsimplify(e['v'], rational=True)
    if k == 'bool':
        return sp.Integer(1 if e['v'] else 0)
    if k == 'ref':
        if e.get('id') in env:
            return env[e['id']]
        raise Unfoldable('unbound ' + e['name'])
    if k == 'cast':
        v = to_sympy(e['e'], env, reads)
        if e['type'] in INT_TYPES and not v.is_integer:
            return sp.floor(v) if v.is_nonnegative else sp.sign(v) * sp.floor(sp.Abs(v))
        return v
    if k == 'un':
        v = to_sympy(e['e'], env, reads)
        if e['op'] == '-':
            return -v
        if e['op'] == '+':
            return v
        raise Unfoldable('unary ' + e['op'])
    if k == 'bin':
        a, b = to_sympy(e['l'], env, reads), to_sympy(e['r'], env, reads)
        o = e['op']
        if o == '+':
            return a + b
        if o == '-':
            return a - b
        if o == '*':
            return a * b
        if o == '/':
            if e.get('t') in INT_TYPES:
                # C++ integer division truncates: 1/2 is 0, not one half
                q = a / b
                return sp.floor(q) if (q.is_nonnegative or q.is_nonnegative is None and q.is_number and q >= 0) else -sp.floor(-q)
            return a / b
        raise Unfoldable('binary ' + o)
    if k == 'opcall' and len(e['args']) == 2 and e['op'] in ('+', '-', '*', '/'):
        a, b = to_sympy(e['args'][0], env, reads), to_sympy(e['args'][1], env, reads)
        return {'+': a + b, '-': a - b, '*': a * b, '/': a / b}[e['op']]
    if k == 'opcall' and len(e['args']) == 1 and e['op'] == '-':
        return -to_sympy(e['args'][0], env, reads)
    if k == 'call':
        f = e.get('callee', '')
        a = [to_sympy(x, env, reads) for x in SX.real_args(e)]
        tbl = {'std::sqrt': sp.sqrt, 'std::cos': sp.cos, 'std::sin': sp.sin, 'std::exp': sp.exp, 'sqrt': sp.sqrt, 'cos': sp.cos, 'sin': sp.sin, 'exp': sp.exp,
               'std::conj': sp.conjugate, 'std::abs': sp.Abs}
        if f in tbl and len(a) == 1:
            return tbl[f](a[0])
        if f == 'std::norm' and len(a) == 1:
            return sp.Abs(a[0]) ** 2
        if f.split('::')[-1] in ('copysign', 'copysignf') and len(a) == 2:
            return sp.Abs(a[0]) * sp.sign(a[1])      # magnitude of the first, sign of the second
        if f.split('::')[-1] in ('fabs',) and len(a) == 1:
            return sp.Abs(a[0])
        raise Unfoldable('call ' + f)
    if k == 'construct' and 'complex' in e['type']:
        a = [to_sympy(x, env, reads) for x in SX.real_args(e)]
        if len(a) == 2:
            return a[0] + sp.I * a[1]
        if len(a) == 1:
            return a[0]
        if not a:
            return sp.Integer(0)
    if k == 'construct' and len(SX.real_args(e)) == 1:
        return to_sympy(SX.real_args(e)[0], env, reads)
    if k == 'initlist' and len(e['items']) == 1:
        return to_sympy(e['items'][0], env, reads)
    if k == 'index' and reads is not None:
        return reads(e)
    raise Unfoldable('%s: %s' % (k, SX.show(e)[:60]))


def matrix_from_initlist(init, env):
    items = init['items'] if init['k'] == 'initlist' else None
    if items is None and init['k'] == 'construct':
        items = SX.real_args(init)
    if items is None or len(items) != 4:
        raise Unfoldable('gate matrix initialiser must have 4 entries')
    vals = [to_sympy(x, env) for x in items]
    return sp.Matrix(2, 2, vals)


def is_zero(x):
    x = sp.simplify(x)
    if x == 0:
        return True
    x = sp.simplify(sp.expand_complex(sp.expand(x.rewrite(sp.cos))))
    return x == 0


def unitary(M):
    D = M * M.H - sp.eye(2)
    return all(is_zero(D[i, j]) for i in range(2) for j in range(2))


def equal_up_to_phase(M, U):
    """M·U† is a scalar of modulus one times the identity"""
    W = M * U.H
    return is_zero(W[0, 1]) and is_zero(W[1, 0]) and is_zero(W[0, 0] - W[1, 1]) and is_zero(W[0, 0] * sp.conjugate(W[0, 0]) - 1)


def references(t):
    I = sp.I
    return {
        'h': sp.Matrix([[1, 1], [1, -1]]) / sp.sqrt(2),
        'x': sp.Matrix([[0, 1], [1, 0]]),
        'y': sp.Matrix([[0, -I], [I, 0]]),
        'z': sp.Matrix([[1, 0], [0, -1]]),
        'rx': sp.Matrix([[sp.cos(t / 2), -I * sp.sin(t / 2)], [-I * sp.sin(t / 2), sp.cos(t / 2)]]),
        'ry': sp.Matrix([[sp.cos(t / 2), -sp.sin(t / 2)], [sp.sin(t / 2), sp.cos(t / 2)]]),
        'rz': sp.Matrix([[sp.exp(-I * t / 2), 0], [0, sp.exp(I * t / 2)]]),
    }
