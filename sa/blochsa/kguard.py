"""K-GUARD: scope guards (RAII) as virtual assignments.

A record with a constructor that stores references/saved copies and writes through them, and a destructor that writes the
saved copies back, is a scoped `save; set; …; restore` — the hand-written form many evaluator functions use for the return
flag, the class context and the frame base.  Rules that check the save/set/restore discipline ask this kernel for the
*effects* of every guard declared in a function:

    Guards(prog).effects(f)  →  [ {'decl': <sx var node>, 'member': 'm_hasReturn', 'value': <sx expr over f's scope>,
                                   'restored': True|False} … ]

`member` is a member of the object f runs on (reached as `member`, `this->member` or through `*this` passed by reference),
`value` the expression the constructor assigns to it with the constructor's parameters replaced by the actual arguments,
`restored` whether the destructor assigns the value saved by the constructor back to the same location (which C++ then does
on every exit of the enclosing block, normal or exceptional).  Delegating constructors are followed.  Anything the kernel
does not understand yields no effect (the calling rule then sees no save/set/restore and fails as before)."""
from . import sx as SX


def _peel(e):
    e = SX.strip(e)
    while SX.is_node(e) and e.get('k') == 'cast':
        e = SX.strip(e['e'])
    return e


class Guards:
    def __init__(self, prog):
        self.p = prog
        self.recs = {}
        for name, rec in prog.facts.records.items():
            ctors = [f for f in prog.methods_of(name) if f.kind == 'ctor' and (f.d.get('inits') or f.body)]
            dtors = [f for f in prog.methods_of(name) if f.kind == 'dtor' and f.body]
            if not ctors or len(dtors) != 1:
                continue
            self.recs[name] = (rec, ctors, dtors[0])
        # composite guards: no destructor of their own, but fields that are guards (each restores what it was constructed over)
        self.comp = {}
        for name, rec in prog.facts.records.items():
            if name in self.recs:
                continue
            ctors = [f for f in prog.methods_of(name) if f.kind == 'ctor' and (f.d.get('inits') or f.body)]
            if ctors and not [f for f in prog.methods_of(name) if f.kind == 'dtor' and f.body] and \
                    any(self.base_name(f_.get('type')) in self.recs and not (f_.get('type') or '').rstrip().endswith(('&', '*')) for f_ in rec.get('fields', [])):
                self.comp[name] = (rec, ctors)
        self._sum = {}
        self._inner = {}

    @staticmethod
    def base_name(t):
        """record name of a (possibly instantiated) class type: template arguments and cv/ref decoration removed"""
        t = (t or '').replace('const ', '').strip().rstrip('&').strip()
        depth, out = 0, []
        for ch in t:
            if ch == '<':
                depth += 1
            elif ch == '>':
                depth -= 1
            elif depth == 0:
                out.append(ch)
        return ''.join(out).strip()

    # ---- constructor / destructor summaries -------------------------------------------------------------------
    def _loc(self, e, c, alias):
        """location denoted by an lvalue inside constructor/destructor c: (param index, [members]) or None"""
        e = _peel(e)
        path = []
        while SX.is_node(e) and e.get('k') == 'member':
            b = _peel(e.get('base'))
            if SX.is_node(b) and b.get('k') == 'this':
                # a field of the guard itself: only reference fields denote an outside location
                if e['name'] in alias:
                    idx, pre = alias[e['name']]
                    return (idx, pre + list(reversed(path)))
                return None
            path.append(e['name'])
            e = b
        if SX.is_node(e) and e.get('k') == 'ref' and e.get('kind') == 'param':
            idx = [i for i, p_ in enumerate(c.params) if p_['id'] == e.get('id')]
            if idx:
                return (idx[0], list(reversed(path)))
        return None

    def summary(self, ctor, depth=0):
        """(sets [(loc, value sx)], saved {field: loc}, alias {field: loc}) of a constructor"""
        key = ctor.key
        if key in self._sum:
            return self._sum[key]
        sets, saved, alias = [], {}, {}
        rec = self.p.facts.records.get(ctor.cls or '', None)
        ftypes = {f_['name']: f_['type'] for f_ in (rec or {}).get('fields', [])}
        for i in ctor.d.get('inits') or []:
            init = i.get('init')
            if not i.get('member'):
                # delegating constructor: Guard(a, b, c) : Guard(a, b, c, d, e) {}
                if SX.is_node(init) and depth < 3:
                    args = SX.real_args(init) if init.get('k') in ('construct', 'call') else init.get('args', [])
                    tgt = [c2 for c2 in self.p.methods_of(ctor.cls) if c2.kind == 'ctor' and c2 is not ctor and len(c2.params) == len(args)]
                    if len(tgt) == 1:
                        s2, sv2, al2 = self.summary(tgt[0], depth + 1)
                        sub = {p_['id']: a_ for p_, a_ in zip(tgt[0].params, args)}

                        def remap(loc):
                            a_ = _peel(sub.get(tgt[0].params[loc[0]]['id']))
                            l2 = self._loc(a_, ctor, {})
                            return (l2[0], l2[1] + loc[1]) if l2 else None
                        for loc, val in s2:
                            l2 = remap(loc)
                            if l2:
                                sets.append((l2, _subst(val, sub)))
                        for fld, loc in sv2.items():
                            l2 = remap(loc)
                            if l2:
                                saved[fld] = l2
                        for fld, loc in al2.items():
                            l2 = remap(loc)
                            if l2:
                                alias[fld] = l2
                continue
            if SX.is_node(init) and init.get('k') == 'unk' and init.get('cls') == 'ParenListExpr':
                # a member initialiser inside a class template is kept as written (`m_saved(slot)`): read the one parameter it names
                nm_ = (init.get('src') or '').strip()
                nm_ = nm_[1:-1].strip() if nm_.startswith('(') and nm_.endswith(')') else nm_
                prm_ = [q_ for q_ in ctor.params if q_.get('name') == nm_]
                if prm_:
                    init = {'k': 'ref', 'kind': 'param', 'id': prm_[0]['id'], 'name': nm_}
            inner_t = self.base_name(ftypes.get(i['member'], ''))
            ft_ = ftypes.get(i['member'], '').rstrip()
            if inner_t in self.recs and SX.is_node(init) and not ft_.endswith('&') and not ft_.endswith('*'):
                # a member that is itself a guard: it saves (and its destructor restores) what it is constructed over
                ia = SX.real_args(init) if init.get('k') in ('construct', 'call') else ([init] if init.get('k') not in ('initlist',) else init.get('items', []))
                irec, ictors, idtor = self.recs[inner_t]
                ics = [c2 for c2 in ictors if len(c2.params) == len(ia)]
                if len(ics) == 1 and ia:
                    s2, sv2, al2 = self.summary(ics[0], depth + 1)
                    rest2 = self.restores(ics[0], idtor)
                    for (pi, path) in rest2:
                        if pi < len(ia):
                            l2 = self._loc(ia[pi], ctor, alias)
                            if l2:
                                self._inner.setdefault(key, set()).add((l2[0], tuple(l2[1] + list(path))))
                continue
            loc = self._loc(init, ctor, alias)
            if loc is None:
                continue
            if ftypes.get(i['member'], '').rstrip().endswith('&'):
                alias[i['member']] = loc
            else:
                saved[i['member']] = loc
        if ctor.body:
            for n in SX.walk(ctor.body, into_lambdas=False):
                w = SX.write_target(n)
                if not w or w[2] != '=':
                    continue
                loc = self._loc(w[0], ctor, alias)
                if loc is not None:
                    sets.append((loc, w[1]))
                else:
                    l = _peel(w[0])
                    if SX.is_node(l) and l.get('k') == 'member' and SX.is_node(_peel(l.get('base'))) and _peel(l['base']).get('k') == 'this':
                        src = self._loc(w[1], ctor, alias)
                        if src is not None:
                            saved[l['name']] = src
        self._sum[key] = (sets, saved, alias)
        return self._sum[key]

    def restores(self, ctor, dtor):
        sets, saved, alias = self.summary(ctor)
        out = set(self._inner.get(ctor.key, ()))
        if dtor is None:
            return out
        for n in SX.walk(dtor.body, into_lambdas=False):
            w = SX.write_target(n)
            if not w or w[2] != '=':
                continue
            loc = self._loc(w[0], dtor, alias)
            r = _peel(w[1])
            while SX.is_node(r) and r.get('k') == 'call' and (SX.callee(r) or '').startswith('std::move') and SX.real_args(r):
                r = _peel(SX.real_args(r)[0])
            if loc is not None and SX.is_node(r) and r.get('k') == 'member' and SX.is_node(_peel(r.get('base'))) and _peel(r['base']).get('k') == 'this' \
                    and saved.get(r['name']) == loc:
                out.add((loc[0], tuple(loc[1])))
        return out

    # ---- effects in a function ----------------------------------------------------------------------------------
    def effects(self, f):
        out = []
        if not f.body:
            return out
        for v in SX.walk(f.body, into_lambdas=False):
            if v['k'] != 'var' or not SX.is_node(v.get('init')):
                continue
            init = SX.strip(v['init'])
            tname = self.base_name(init.get('type')) if init.get('k') == 'construct' else None
            if tname is None or (tname not in self.recs and tname not in self.comp):
                continue
            if tname in self.recs:
                rec, ctors, dtor = self.recs[tname]
            else:
                (rec, ctors), dtor = self.comp[tname], None
            args = init.get('args', [])
            cs = [c for c in ctors if (c.name == init.get('ctor') and (init.get('sig') is None or c.sig == init.get('sig')))]
            if len(cs) != 1:
                cs = [c for c in ctors if len(c.params) == len(SX.real_args(init))]
            if len(cs) != 1:
                continue
            c = cs[0]
            sets, saved, alias = self.summary(c)
            rest = self.restores(c, dtor)
            sub = {p_['id']: a_ for p_, a_ in zip(c.params, args)}
            for loc, val in sets:
                if loc[0] >= len(args):
                    continue
                a = _peel(args[loc[0]])
                member = None
                if SX.is_node(a) and a.get('k') == 'un' and a.get('op') == '*' and SX.is_node(_peel(a.get('e'))) and _peel(a['e']).get('k') == 'this' and len(loc[1]) == 1:
                    member = loc[1][0]
                elif SX.is_node(a) and a.get('k') == 'this' and len(loc[1]) == 1:
                    member = loc[1][0]
                elif SX.is_this_member(a) and not loc[1]:
                    member = a['name']
                if member is None:
                    continue
                out.append({'decl': v, 'member': member, 'value': _subst(val, sub), 'restored': (loc[0], tuple(loc[1])) in rest})
        return out


def _subst(e, sub):
    """copy of e with references to the given parameter ids replaced"""
    if not SX.is_node(e):
        return e
    if e.get('k') == 'ref' and e.get('id') in sub:
        return sub[e['id']]
    out = {}
    for k, v in e.items():
        if isinstance(v, dict) and 'k' in v:
            out[k] = _subst(v, sub)
        elif isinstance(v, list):
            out[k] = [_subst(x, sub) if isinstance(x, dict) and 'k' in x else x for x in v]
        else:
            out[k] = v
    return out


_CACHE = {}


def virtual_writes(prog, f, g):
    """[(cfg node of the guard declaration, member name, value sx, restored)] for the guards declared in f"""
    G = _CACHE.get(id(prog))
    if G is None:
        G = _CACHE[id(prog)] = Guards(prog)
    out = []
    for e in G.effects(f):
        node = [n for n in g.nodes if n.kind == 'decl' and n.e is e['decl']]
        if node:
            out.append((node[0], e['member'], e['value'], e['restored']))
    return out
