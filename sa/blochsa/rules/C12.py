"""C12 — running an accepted program never crashes the interpreter (enumerated crash classes)."""
from .. import sx as SX
from ..facts import AnalysisBroken
from ..roles import Roles
from ..ktry import Escape, parent_map, handlers_cover
from ..kdiv import division_sites, check_site

EXPLANATION = (
    "Enumerated crash classes decided statically over everything reachable from RuntimeEvaluator::execute and the evaluator's "
    "destructor: (R12.1) exception escape — every value-dependent throwing library call (std::sto*, at(), std::get, "
    "optional::value, substr(pos)) is enclosed, in its function or along every caller chain, by a try that converts the "
    "exception; (R12.2) every integer / and % with a non-constant divisor is dominated by a zero test and has the divisor -1 "
    "examined on every path; (R12.3) no address of a std::vector element is stored into longer-lived state while that vector "
    "can still grow; (R12.4) the evaluator destructor, after joining the timer thread, empties every member that owns Objects "
    "while all members are alive; (R12.5) the shared_ptr<Object> deleter and the evaluator destructor let no exception escape. "
    "Each rule is a necessary condition for the absence of one crash class; absence of all crashes is not claimed.")

GROW = ('push_back', 'emplace_back', 'insert', 'emplace', 'resize', 'reserve', 'assign')


def _rule_dying_alias(prog, chk, R):
    """R12.11 — inside a user destructor `this` is a *non-owning* alias of the dying object (a shared_ptr built from the raw pointer
    with an empty deleter).  A destructor can store it (`Registry.last = this;`); the object is freed when the deleter returns, and
    the stored alias dangles (heap-use-after-free on the next `Registry.last.x`).  Required shape, wherever such an alias is made:
      (a) the alias is a named local, and that local is what gets bound (no second, untracked alias);
      (b) its use_count() is examined after the destructor activations, and the result reaches a flag of the object;
      (c) every `delete` of an Object in the evaluator is on the flag-clear side of a test of that flag (a still-referenced object
          is parked, not freed)."""
    chk.rule('R12.11', "a dying object's `this` alias that a destructor stored keeps the storage alive (no dangling alias)")
    evs = [x for x in R.ev_methods() if x.body]
    lam_fns = [l for x in evs for l in getattr(x, 'lambdas', [])]

    def is_noop_alias(e):
        e = SX.strip(e)
        if not (SX.is_node(e) and e.get('k') == 'construct' and 'shared_ptr<bloch::runtime::Object>' in (e.get('type') or '').replace('std::', '')):
            return False
        a = SX.real_args(e)
        if len(a) != 2:
            return False
        lam = SX.strip(a[1])
        if not (SX.is_node(lam) and lam.get('k') == 'lambda'):
            return False
        body = lam.get('body')
        return SX.is_node(body) and body.get('k') == 'block' and not body.get('body')
    n_alias = 0
    flags = set()
    for f in evs:
        aliases = [n for n in SX.walk(f.body, into_lambdas=False) if is_noop_alias(n)]
        if not aliases:
            continue
        for a in aliases:
            n_alias += 1
            decl = [v for v in SX.walk(f.body, into_lambdas=False) if v['k'] == 'var' and SX.is_node(v.get('init')) and SX.strip(v['init']) is a]
            ok_a = len(decl) == 1
            ok_b = False
            if ok_a:
                vid = decl[0]['id']
                # use_count() of the alias, anywhere in the function (incl. local records bound to it by reference)
                bound = {vid}
                for v in SX.walk(f.body, into_lambdas=True):
                    if v['k'] == 'var' and SX.is_node(v.get('init')) and any(y.get('k') == 'ref' and y.get('id') == vid for y in SX.walk(v['init'])):
                        bound.add(v['id'])
                counts = [n for n in SX.walk(f.body, into_lambdas=True) if n['k'] == 'mcall' and SX.short(n.get('callee', '')) == 'use_count' and
                          any(y.get('k') == 'ref' and y.get('id') == vid for y in SX.walk(n.get('obj')))]
                # … and in member functions of local records constructed from it (scope-exit helpers)
                for rn, rec in prog.facts.records.items():
                    # (a record local to some function of the evaluator's source file: after K-NORM inlined an extracted helper, the
                    # record's lines need not lie inside the function the alias is now seen in)
                    if f.name in rn or (((rec.get('file') or '').endswith('runtime_evaluator.cpp') and '::' not in rn) or
                                        (rec.get('file') == f.file and f.ln <= rec.get('ln', 0) <= f.d.get('endln', f.ln))):
                        for mth in prog.methods_of(rn):
                            if mth.body:
                                for n in SX.walk(mth.body):
                                    if n['k'] == 'mcall' and SX.short(n.get('callee', '')) == 'use_count':
                                        counts.append(n)
                                    w = SX.write_target(n)
                                    if w and any(y.get('k') == 'mcall' and SX.short(y.get('callee', '')) == 'use_count' for y in SX.walk(w[1] or {})):
                                        l0 = SX.strip(w[0])
                                        if SX.is_node(l0) and l0.get('k') == 'member':
                                            flags.add(l0['name'])
                for n in SX.walk(f.body, into_lambdas=True):
                    w = SX.write_target(n)
                    if w and SX.is_node(SX.strip(w[0])) and SX.strip(w[0]).get('k') == 'member' and 'Object' in (SX.strip(SX.strip(w[0]).get('base')).get('t') or ''):
                        if any(y.get('k') == 'mcall' and SX.short(y.get('callee', '')) == 'use_count' for y in SX.walk(w[1] or {})):
                            flags.add(SX.strip(w[0])['name'])
                # … on every way out of the destructor activations, exceptional ones included (a destructor body that fails after it
                # stored `this` leaves the alias in the scopes it abandons): the recording sits in the destructor of a local object
                # declared before the activations run, or in a catch-all handler as well as on the normal path
                unwind = False
                for rn, rec in prog.facts.records.items():
                    if '::' in rn or not (rec.get('file') or '').endswith('runtime_evaluator.cpp'):
                        continue
                    for mth in prog.methods_of(rn):
                        if mth.kind == 'dtor' and mth.body and any(n_.get('k') == 'mcall' and SX.short(n_.get('callee', '')) == 'use_count' for n_ in SX.walk(mth.body)):
                            insts = [v for v in SX.walk(f.body, into_lambdas=False) if v['k'] == 'var' and (v.get('type') or '').replace('const ', '').strip() == rn]
                            unwind = unwind or bool(insts)
                if not unwind:
                    for t_ in SX.walk(f.body, into_lambdas=False):
                        if t_['k'] == 'try':
                            for h_ in t_.get('handlers', []):
                                if not h_.get('type') or h_.get('type') == '...':
                                    if any((lambda w_: w_ and SX.is_node(SX.strip(w_[0])) and SX.strip(w_[0]).get('k') == 'member' and SX.strip(w_[0]).get('name') in flags)(SX.write_target(n_))
                                           for n_ in SX.walk(h_.get('body'))):
                                        unwind = True
                ok_b = bool(counts) and bool(flags) and unwind
            chk.ob('R12.11', f, a.get('ln', f.ln), ok_a and ok_b,
                   'the non-owning alias of the dying object is a named local whose use_count() is examined after the destructors and recorded in a flag of the object '
                   '(named local: %s; examined and recorded on every exit, unwinding included: %s) — otherwise a destructor that stores `this` leaves a dangling reference' % (ok_a, ok_b), key='alias:%s' % f.short)
    chk.count('non-owning aliases of dying objects', n_alias, 1)
    # (c) deletes
    n_del = 0
    for f in evs + lam_fns:
        g = prog.cfg(f)
        for d in g.nodes:
            if not (SX.is_node(d.e) and d.kind not in ('edge', 'cond', 'decl', 'loophead', 'lambda') and d.e.get('k') != 'lambda' and
                    any(x.get('k') == 'delete' for x in ([d.e] if d.e.get('k') == 'delete' else SX.walk(d.e, into_lambdas=False)))):
                continue
            dl = d.e if d.e.get('k') == 'delete' else next(x for x in SX.walk(d.e, into_lambdas=False) if x.get('k') == 'delete')
            tgt = SX.strip(dl.get('e'))
            if not (SX.is_node(tgt) and 'Object' in (tgt.get('t') or '')):
                continue
            n_del += 1
            ok = any((not pol) and any(y.get('k') == 'member' and y.get('name') in flags for y in SX.walk(ce)) for ce, pol, ed in g.guards(d))
            chk.ob('R12.11', f, d.ln or f.ln, ok, 'an Object is deleted only when its still-referenced flag (%s) is clear' % sorted(flags), key='delete-guard:%s' % f.short.split('@')[0])
    chk.count('deletes of Objects in the evaluator', n_del, 1)


def _rule_layout_order(prog, chk):
    """R12.10 — an object's field vector is sized from its class's layout, and the initialisers of every class of the chain write
    at the offsets that class recorded: the layout of a base must be complete before a derived class copies it, or the object is
    allocated with too few slots and the base's initialisers write past the end.  The rule is C10's R10.2 (base populated before
    derived whatever the declaration order, also through a generic template in the middle of the chain)."""
    from .C03 import _Sub
    from . import C10 as _c10
    chk.rule('R12.10', 'object slots: a class copies its base layout only after the base was populated (C10 R10.2), so field offsets stay inside the object')
    sub = _Sub(chk)
    _c10.run(prog, sub)
    n = 0
    for rule, fn, site, ok, detail, key in sub.obs:
        if rule == 'R10.2':
            n += 1
            chk.ob('R12.10', fn, site, ok, 'layout order: ' + detail, key='layout:' + str(key))
    chk.count('layout-order obligations (C10 R10.2)', n, 1)


def run(prog, chk):
    R = Roles(prog)
    chk.rule('R12.1', 'value-dependent throwing library call is converted to a BlochError before it reaches the CLI')
    chk.rule('R12.2', 'integer / and %: divisor tested against zero (dominating) and against -1 (examined on every path)')
    chk.rule('R12.3', 'address of a std::vector element must not outlive a later growth of that vector')
    chk.rule('R12.4', 'evaluator destructor empties every Object-owning member after the join, before member destruction')
    chk.rule('R12.5', 'deleter lambda / destructor: every call that can throw is inside try{}catch(...)')
    chk.rule('R12.6', 'built-in dispatch subscripts args[k]: arity guaranteed (size guard, or analyser reserves gate names and checks arity)')
    chk.rule('R12.7', 'Object-owning containers are never shrunk in place where a deleter can re-enter (detach the element first)')
    chk.rule('R12.12', 'a vector subscripted by a loop counter is in range: bounded by its own size, an equal-length vector, or the size it was given')
    chk._loop_sub_ids = _rule_loop_subscripts(prog, chk, R)
    chk.rule('R12.8', 'a slot that may hold the last reference to an object is overwritten only after its old value was moved out')
    ev = R.ev
    execute = R.ev_method('execute')
    dtor = [f for f in R.ev_methods() if f.kind == 'dtor']
    if len(dtor) != 1:
        raise AnalysisBroken('evaluator destructor not found')
    dtor = dtor[0]

    # ---- R12.1 ----------------------------------------------------------------------------
    esc = Escape(prog, [execute])
    n1 = 0
    for f, n, types in esc.sites():
        n1 += 1
        if SX.short(SX.callee(n)) == 'substr' and _substr_guarded(prog, f, n):
            chk.ob('R12.1', f, n.get('ln', f.ln), True, '%s: position is a literal below a dominating size() bound' % SX.show(n)[:70],
                   key='%s:%s' % (SX.short(SX.callee(n)), _arg0(n)))
            continue
        ok, why = esc.protected(f, n, types)
        chk.ob('R12.1', f, n.get('ln', f.ln), ok,
               '%s can raise %s; %s' % (SX.show(n)[:70], '/'.join(t.split('::')[-1] for t in types),
                                        ('protected: ' + why) if ok else ('escapes via ' + ' <- '.join(SX.short(x) for x in why))),
               key='%s:%s' % (SX.short(SX.callee(n)), _arg0(n)))
    chk.count('value-dependent throwing call sites reachable from execute', n1, 3)

    # ---- R12.2 ----------------------------------------------------------------------------
    n2 = 0
    for f in esc.reach.values():
        if not f.body:
            continue
        sites = list(division_sites(f))
        if not sites:
            continue
        g = prog.cfg(f)
        for i, n in enumerate(sites):
            res = check_site(g, n)
            if res is None:
                raise AnalysisBroken('division site not located in CFG of ' + f.name)
            zero, m1, text = res
            n2 += 1
            chk.ob('R12.2', f, n.get('ln', f.ln), zero, 'integer %s by %s needs a dominating zero test' % (n['op'], text), key='zero:%s%s#%d' % (n['op'], text, i))
            chk.ob('R12.2', f, n.get('ln', f.ln), m1, 'integer %s by %s: divisor -1 must be examined on every path (MIN %s -1 traps)' % (n['op'], text, n['op']),
                   key='minus1:%s%s#%d' % (n['op'], text, i))
    chk.count('integer division sites reachable from execute', n2, 1)

    # ---- R12.3 ----------------------------------------------------------------------------
    n3 = 0
    for f in esc.reach.values():
        if not f.body:
            continue
        stores = []
        # one level of local pointer flow: T* p = &vec.back(); ... longer_lived = p;
        ptr_locals = {}
        for n in SX.walk(f.body, into_lambdas=False):
            if n['k'] == 'var' and n.get('init') is not None:
                src = _addr_of_vector_elem(n['init'])
                if src is not None:
                    ptr_locals[n['id']] = src
        for n in SX.walk(f.body, into_lambdas=False):
            w = SX.write_target(n)
            if not w or w[1] is None:
                continue
            rhs = SX.strip(w[1])
            src = _addr_of_vector_elem(rhs)
            if src is None and SX.is_node(rhs) and rhs['k'] == 'ref' and rhs.get('id') in ptr_locals:
                src = ptr_locals[rhs['id']]
            if src is None:
                continue
            if SX.is_node(w[0]) and w[0]['k'] == 'ref' and w[0].get('kind') == 'var' and not w[0].get('global'):
                continue   # plain local pointer variable
            stores.append((n, src))
        if not stores:
            continue
        g = prog.cfg(f)
        for n, (vec, vt) in stores:
            n3 += 1
            node = _node_of(g, n)
            vtext = SX.show(vec)
            grows = [c for c in g.calls(lambda e: e['k'] == 'mcall' and SX.short(e['callee']) in GROW and e.get('ot', '').replace('const ', '') == vt
                                        and SX.show(e['obj']) == vtext)]
            later = []
            if node is not None:
                r = g.reachable([node])
                later = [c for c in grows if c.id in r]
            chk.ob('R12.3', f, n.get('ln', f.ln), not later,
                   'address of an element of %s (%s) is stored in %s while %s can still grow at line(s) %s' % (
                       vtext, vt.split('<')[0], SX.show(SX.write_target(n)[0])[:50], vtext, sorted({c.ln for c in later})),
                   key='store:%s<-&%s' % (_field_key(SX.write_target(n)[0]), vtext))
    chk.extra['vector_element_address_stores'] = n3
    # positive control for the zero-count rule: the matcher must recognise the construct in the selftest snippet
    _selftest_r123(chk)

    # ---- R12.4 ----------------------------------------------------------------------------
    owners = _object_owning_members(prog, R)
    chk.count('Object-owning evaluator members', len(owners), 3)
    g = prog.cfg(dtor)
    joins = [c for c in g.calls(lambda e: e['k'] == 'mcall' and SX.short(e['callee']) == 'join' and 'thread' in e['callee'])]
    chk.ob('R12.4', dtor, dtor.ln, bool(joins), 'destructor joins the timer thread', key='join')
    for m, how in owners:
        rel = _releases(g, m, how, prog, R)
        ok = bool(rel) and g.must_follow(g.entry, rel) and (not joins or all(_after_any(g, joins, r) for r in rel))
        chk.ob('R12.4', dtor, dtor.ln, ok,
               'member %s owns Objects (%s): it must be emptied in the destructor body, after the join, on every path' % (m, how), key='release:' + m)

    # ---- R12.5 ----------------------------------------------------------------------------
    _rule_builtin_args(prog, chk, R)
    _rule_nullable_links(prog, chk, R)
    _rule_inplace_shrink(prog, chk, R, owners, dtor)
    _rule_slot_overwrite(prog, chk, R)
    _rule_layout_order(prog, chk)
    _rule_dying_alias(prog, chk, R)
    dels = _deleter_lambdas(prog, R)
    chk.count('shared_ptr<Object> deleter lambdas', len(dels), 1)
    throwing = _may_throw_set(prog)
    for lf in dels:
        _no_escape(prog, chk, lf, throwing, 'deleter')
    _no_escape(prog, chk, dtor, throwing, 'destructor')


def _substr_guarded(prog, f, n):
    from ..kdiv import cmp_with_const, int_const
    a = SX.real_args(n)
    c = int_const(a[0]) if a else None
    if c is None:
        return False
    g = prog.cfg(f)
    node = _node_of(g, n)
    if node is None:
        return False
    size_text = SX.show(n['obj']) + '.size()'
    for ce, pol, _ in g.guards(node):
        r = cmp_with_const(ce, size_text)
        if r and pol and ((r[0] == '>=' and r[1] >= c) or (r[0] == '>' and r[1] >= c - 1) or (r[0] == '==' and r[1] >= c)):
            return True
        if r and not pol and ((r[0] == '<' and r[1] >= c) or (r[0] == '<=' and r[1] >= c - 1)):
            return True
    return False


def _rule_builtin_args(prog, chk, R):
    ev = R.ev_method('eval')
    g = prog.cfg(ev)
    subs = []
    for n in SX.walk(ev.body, into_lambdas=True):
        if n['k'] == 'index' and SX.is_node(n['base']) and n['base'].get('k') == 'ref' and n['base'].get('t', '').startswith('std::vector<bloch::runtime::Value'):
            subs.append(n)
    # only those in the built-in gate branch: guarded by a lookup in the builtInGates table
    def in_builtin(node):
        return any('builtInGates' in SX.show(ce) for ce, pol, _ in g.guards(node))

    def node_incl_lambdas(n):
        x = _node_of(g, n)
        if x is not None:
            return x
        for cn in g.nodes:
            if cn.kind in ('assign', 'call', 'decl') and SX.is_node(cn.e) and any(y is n for y in SX.walk(cn.e, into_lambdas=True)):
                return cn
        return None
    sites = []
    for n in subs:
        node = node_incl_lambdas(n)
        if node is not None and in_builtin(node):
            sites.append((n, node))
    chk.count('subscripts of the argument vector in the built-in dispatch', len(sites), 1)
    # premises on the analyser side
    analyse = prog.fn('SemanticAnalyser::analyse')
    ga = prog.cfg(analyse)
    reserved = False
    for t in ga.nodes:
        if t.kind != 'throw':
            continue
        for ce, pol, _ in ga.guards(t):
            if pol and SX.is_node(ce) and ce['k'] in ('mcall', 'call'):
                for f in prog.resolve(ce):
                    if f.body and any(x['k'] == 'ref' and x.get('global') and x['name'].endswith('builtInGates') for x in SX.walk(f.body)):
                        loops = [lp for lp in SX.walk(analyse.body, into_lambdas=False) if lp['k'] in ('forrange', 'for') and SX.loop_range(lp) is not None and any(y is ce for y in SX.walk(lp['body']))]
                        if any('functions' in SX.show(SX.loop_range(lp)) for lp in loops):
                            reserved = True
            if pol and any(x['k'] == 'ref' and x.get('global') and x['name'].endswith('builtInGates') for x in SX.walk(ce)):
                reserved = True
    arity = False
    for f in prog.methods_of('bloch::compiler::SemanticAnalyser'):
        if f.short != 'visit' or not f.body or 'CallExpression' not in f.sig:
            continue
        gv = prog.cfg(f)
        for t in gv.nodes:
            if t.kind == 'throw' and 'argument(s)' in SX.show(t.e):
                if any('size()' in SX.show(ce) and ('ParamCount' in SX.show(ce) or 'expected' in SX.show(ce).lower() or 'param' in SX.show(ce).lower()) for ce, pol, _ in gv.guards(t)):
                    arity = True
    for n, node in sites:
        ki = SX.strip(n['i'])
        k = ki['v'] if SX.is_node(ki) and ki.get('k') == 'int' else None
        sized = False
        if k is not None:
            for ce, pol, _ in g.guards(node):
                from ..kdiv import cmp_with_const
                r = cmp_with_const(ce, SX.show(n['base']) + '.size()')
                if r and pol and ((r[0] == '>' and r[1] >= k) or (r[0] == '>=' and r[1] >= k + 1) or (r[0] == '==' and r[1] >= k + 1)):
                    sized = True
        ok = sized or (reserved and arity)
        chk.ob('R12.6', ev, n.get('ln', ev.ln), ok,
               'args[%s] in the built-in gate dispatch: %s' % (k if k is not None else SX.show(ki)[:20], 'size guard' if sized else ('analyser reserves gate names (%s) and checks call arity (%s)' % (reserved, arity))),
               key='builtin-arg:%s' % (k if k is not None else 'var'), nontrivial=False)
    chk.ob('R12.6', analyse, analyse.ln, reserved or all(False for _ in []) and False or reserved,
           'the predeclaration loop must reject a user function whose name is a built-in gate (the evaluator dispatches gates by name before user functions)',
           key='gate-names-reserved')
    chk.ob('R12.6', analyse, analyse.ln, arity, 'calls are checked against the callee\'s parameter count', key='call-arity-checked')
    chk.rule('R12.13', 'every other vector subscript of the evaluator is in range where it is evaluated (bound test, grow-to-fit, validating callee, name→offset map, object storage)')
    _rule_other_subscripts(prog, chk, R, set(chk._loop_sub_ids) | {id(n_) for n_, _ in sites})


def _rule_nullable_links(prog, chk, R):
    """Contradiction rule (Engler): an owning link of the syntax tree that the evaluator tests for null somewhere (so it believes
    it can be null: bodies of abstract methods, defaulted constructors, empty destructors …) is tested before EVERY
    dereference.  Links never tested anywhere are outside the rule (the parser guarantees them)."""
    chk.rule('R12.9', 'a syntax-tree link that is null-tested somewhere in the evaluator is null-tested before every dereference')
    evfns = [f for f in prog.functions if f.body and f.file.endswith('runtime_evaluator.cpp')]

    def link(e):
        e = SX.strip(e)
        if SX.is_node(e) and e.get('k') == 'member' and 'unique_ptr' in (e.get('t') or '') and (e.get('q') or '').startswith('bloch::compiler::'):
            return e
        return None
    # the belief "this link can be null" may be stated anywhere in the program (the analyser tests method bodies to recognise
    # abstract methods; the evaluator tests constructor bodies …)
    tested = set()
    for f in prog.functions:
        if not f.body:
            continue
        for n in SX.walk(f.body, into_lambdas=False):
            if n['k'] == 'mcall' and SX.short(n.get('callee', '')) == 'operator bool' and link(n.get('obj')):
                tested.add(link(n['obj'])['q'])
            cp = SX.cmp_parts(n) if n['k'] in ('bin', 'opcall') else None
            if cp and cp[0] in ('==', '!=') and any(SX.is_node(SX.strip(x)) and SX.strip(x).get('k') == 'nullptr' for x in cp[1:]):
                for x in cp[1:]:
                    if link(x):
                        tested.add(link(x)['q'])
    nd = 0
    for f in evfns:
        g = None
        for n in SX.walk(f.body, into_lambdas=False):
            if not (n['k'] == 'opcall' and n.get('op') in ('->', '*') and n.get('args') and link(n['args'][0])):
                continue
            m = link(n['args'][0])
            if m['q'] not in tested:
                continue
            nd += 1
            g = g or prog.cfg(f)
            node = _node_of(g, n)
            txt = SX.show(m)
            ok = False
            if node is not None:
                for ce, pol, _ in g.guards(node):
                    c = SX.strip(ce)
                    if SX.is_node(c) and c.get('k') == 'mcall' and SX.short(c.get('callee', '')) == 'operator bool' and SX.show(SX.strip(c.get('obj'))) == txt and pol:
                        ok = True
                    if SX.is_node(c) and c.get('k') == 'un' and c.get('op') == '!' and txt in SX.show(c) and not pol:
                        ok = True
            chk.ob('R12.9', f, n.get('ln', f.ln), ok,
                   '%s is dereferenced; the evaluator tests this link for null elsewhere (%s can be null: abstract method, defaulted constructor …), so the dereference needs the '
                   'dominating test too' % (txt, m['q'].split('::')[-2] + '::' + m['q'].split('::')[-1]), key='link:%s:%s' % (f.short, m['q'].split('::')[-2]))
    chk.count('dereferences of nullable syntax-tree links', nd, 1)     # (a contradiction rule: bodies handed to a helper as raw pointers leave fewer direct dereferences)


def _rule_inplace_shrink(prog, chk, R, owners, dtor):
    execute = R.ev_method('execute')
    names = {m for m, _ in owners}
    evfns = [f for f in R.ev_methods() if f.body] + [x for x in prog.functions if x.kind == 'lambda' and x.cls == R.ev['name'] and x.body]
    n = 0
    for f in evfns:
        sites = [c for c in SX.walk(f.body, into_lambdas=False) if c['k'] == 'mcall' and SX.short(c['callee']) in ('pop_back', 'resize', 'erase', 'clear', 'shrink_to_fit')
                 and SX.is_this_member(SX.strip(c.get('obj'))) and SX.strip(c['obj'])['name'] in names and 'vector' in c.get('ot', '')]
        if not sites:
            continue
        g = prog.cfg(f)
        for c in sites:
            n += 1
            m = SX.strip(c['obj'])['name']
            node = _node_of(g, c)
            op = SX.short(c['callee'])
            ok = False
            why = ''
            if op == 'pop_back':
                det = [d for d in g.nodes if d.kind == 'decl' and SX.is_node(d.e.get('init')) and d.e['init'].get('k') == 'call' and d.e['init'].get('callee') == 'std::move'
                       and any(x['k'] == 'mcall' and SX.short(x['callee']) == 'back' and SX.is_this_member(SX.strip(x.get('obj')), m) for x in SX.walk(d.e['init']))]
                ok = bool(det) and node is not None and any(g.dominates(d, node) and not _loophead_between(g, d, node) for d in det)
                why = 'the element must first be moved into a local (its deleters may push/pop the same container)'
            else:
                if f is dtor:
                    flags = [w for w, l, r, o in g.writes() if SX.is_node(r) and r['k'] == 'bool' and r['v'] and SX.is_this_member(SX.strip(l)) and _deleter_tests(prog, R, SX.strip(l)['name'])]
                    ok = bool(flags) and node is not None and g.must_precede(flags, node)
                    why = 'only after the teardown flag that silences the deleter is set'
                elif f is execute:
                    act = [x for x in g.calls(lambda e: e['k'] == 'mcall' and e['callee'].startswith(R.ev['name'] + '::') and SX.short(e['callee']) in
                                             ('call', 'exec', 'eval', 'buildClassTable', 'initStaticFields'))]
                    ok = node is not None and not any(node.id in g.reachable([a]) for a in act)
                    why = 'only before anything has run (fresh, single-use evaluator)'
                else:
                    why = 'in-place %s destroys elements while their deleters can re-enter the container' % op
            chk.ob('R12.7', f, c.get('ln', f.ln), ok, '%s.%s(): %s' % (m, op, why), key='shrink:%s:%s.%s' % (f.short, m, op))
    chk.count('shrinking operations on Object-owning containers', n, 3)


def _loophead_between(g, d, node):
    return False


def _deleter_tests(prog, R, flag):
    for lf in _deleter_lambdas(prog, R):
        if any(x['k'] == 'member' and x['name'] == flag for x in SX.walk(lf.body)):
            return True
    return False


# (no exceptions: the one site that used to be excused here — default-constructor binding, "the slot still holds its default value" —
#  was a genuine defect: field initialisers run before the binding.  Fixed in /repo; see known_findings.txt)
SLOT_EXCEPTIONS = {}


def _rule_slot_overwrite(prog, chk, R):
    evfns = [f for f in prog.functions if f.body and f.file.endswith('runtime_evaluator.cpp')]
    helpers = set()
    candidates = []
    for f in evfns:
        if f.kind == 'lambda':
            continue
        refs = [p for p in f.params if p['type'].endswith('Value &') and not p['type'].startswith('const')]
        if not refs:
            continue
        g = prog.cfg(f)
        for p in refs:
            moves = [d for d in g.nodes if d.kind == 'decl' and SX.is_node(d.e.get('init')) and d.e['init'].get('k') == 'call' and d.e['init'].get('callee') == 'std::move'
                     and any(x['k'] == 'ref' and x.get('id') == p['id'] for x in SX.walk(d.e['init']))]
            stores = [n for n, l, r, o in g.writes() if o == '=' and SX.is_node(SX.strip(l)) and SX.strip(l).get('id') == p['id']]
            if moves and stores and all(g.must_precede(moves, s) for s in stores):
                helpers.add(f.key)
            elif stores:
                # a store-through-reference helper that is handed object slots must move the old value out first
                pidx = [i for i, q in enumerate(f.params) if q['id'] == p['id']][0]
                slot_callers = []
                for cf, call in prog.callers(f):
                    a = SX.real_args(call)
                    if pidx < len(a):
                        l = SX.strip(a[pidx])
                        if SX.is_node(l) and l.get('k') == 'index':
                            root, names = SX.member_chain(l)
                            if names and names[-1] in ('fields', 'staticStorage'):
                                slot_callers.append(cf.short)
                if slot_callers:
                    candidates.append(f)
                    chk.ob('R12.8', f, f.ln, False,
                           '%s overwrites the slot it is given (object fields / static storage, from %s) without first moving the old value out: releasing the last '
                           'reference runs a destructor that can read the half-written slot' % (f.short, sorted(set(slot_callers))[:3]), key='slot-helper:' + f.short)
    n = 0
    for f in evfns:
        if f.key in helpers:
            continue
        for x in SX.walk(f.body, into_lambdas=False):
            w = SX.write_target(x)
            if not w or w[2] != '=' or w[1] is None:
                continue
            l = SX.strip(w[0])
            if not (SX.is_node(l) and l['k'] == 'index'):
                continue
            root, names = SX.member_chain(l)
            cont = names[-1] if names else None
            if cont not in ('fields', 'staticStorage'):
                continue
            r = SX.strip(w[1])
            lvalue_src = SX.is_node(r) and r['k'] in ('ref', 'member', 'index') or (SX.is_node(r) and r['k'] == 'opcall' and r['op'] in ('*', '->'))
            if not lvalue_src:
                continue   # assigning a temporary move-assigns: the old value is released after the slot holds the new one
            n += 1
            exc = SLOT_EXCEPTIONS.get((f.short, cont))
            chk.ob('R12.8', f, x.get('ln', f.ln), bool(exc),
                   '%s = %s copy-assigns over a slot that may hold the last reference to an object (its destructor would run while the slot is half-written)%s' % (
                       SX.show(l)[:50], SX.show(r)[:20], ('; exception: ' + exc) if exc else '; use the move-out-first helper'), key='slot:%s:%s' % (f.short, cont))
    calls = sum(1 for f in evfns for x in SX.walk(f.body, into_lambdas=False) if x['k'] == 'call' and (x.get('callee', '') + x.get('sig', '')) in helpers)
    chk.extra['slot_store_helper_calls'] = calls
    chk.count('slot store helpers', len(helpers) + len(candidates), 1)


def _arg0(n):
    a = SX.real_args(n)
    if n['k'] == 'mcall':
        return SX.show(n.get('obj'))[:40]
    return SX.show(a[0])[:40] if a else ''


def _addr_of_vector_elem(e):
    """e is &V.back() / &V.front() / &V[i] / &V.at(i) / &*V.begin() with V a std::vector → (V expr, type)"""
    e = SX.strip(e)
    if not (SX.is_node(e) and e['k'] == 'un' and e['op'] == '&'):
        return None
    x = e['e']
    if SX.is_node(x) and x['k'] == 'mcall' and SX.short(x['callee']) in ('back', 'front', 'at'):
        t = x.get('ot', '').replace('const ', '')
        if t.startswith('std::vector<'):
            return x['obj'], t
    if SX.is_node(x) and x['k'] == 'index' and x.get('bt', '').replace('const ', '').startswith('std::vector<'):
        return x['base'], x['bt'].replace('const ', '')
    return None


def _is_local_lvalue(l):
    root, names = SX.member_chain(l)
    # a plain local variable (not a reference, not reached through a pointer)
    return SX.is_node(root) and root['k'] == 'ref' and root.get('kind') == 'var' and not names and l['k'] == 'ref' \
        and '*' not in root.get('t', '')[-1:] and False


def _field_key(l):
    root, names = SX.member_chain(l)
    return '.'.join(names) or SX.show(l)[:30]


def _node_of(g, n):
    for cn in g.nodes:
        if cn.e is n:
            return cn
    for cn in g.nodes:
        if cn.kind in ('assign', 'call', 'decl') and SX.is_node(cn.e) and any(x is n for x in SX.walk(cn.e, into_lambdas=False)):
            return cn
    return None


def _selftest_r123(chk):
    pos = {'k': 'un', 'op': '&', 'e': {'k': 'mcall', 'callee': 'std::vector<int>::back', 'ot': 'std::vector<int>', 'obj': {'k': 'ref', 'name': 'v', 'kind': 'var'}, 'args': []}}
    if _addr_of_vector_elem(pos) is None:
        raise AnalysisBroken('R12.3 matcher does not recognise its positive control')


def _type_owns_objects(prog, t, seen=None, depth=0):
    """Type string t transitively contains std::shared_ptr<…Object> by value (through containers and records)."""
    seen = seen or set()
    if 'weak_ptr' in t and 'shared_ptr' not in t:
        return False
    if 'std::shared_ptr<bloch::runtime::Object>' in t:
        return True
    if depth > 6:
        return False
    import re
    toks = set(re.findall(r'[A-Za-z_][\w:]*', t))
    for name, r in prog.facts.records.items():
        if name in toks and name not in seen:
            # by value or through an owning smart pointer / container
            seen2 = seen | {name}
            if t.replace('const ', '').strip().endswith(name + ' *'):
                continue
            for fld in r['fields']:
                if fld['static']:
                    continue
                if _type_owns_objects(prog, fld['type'], seen2, depth + 1):
                    return True
    return False


def _object_owning_members(prog, R):
    out = []
    for fld in R.ev['fields']:
        if fld['static']:
            continue
        t = fld['type']
        if 'weak_ptr' in t:
            continue
        if _type_owns_objects(prog, t):
            out.append((fld['name'], t.replace('bloch::runtime::', '')[:90]))
    return out


def _releases(g, member, how, prog, R):
    """CFG nodes of the destructor that empty `member`: assignment of an empty value, clear()/reset(),
    or a range-for over it whose body empties the Object-owning sub-members of each element."""
    out = []
    for cn in g.nodes:
        e = cn.e
        if not SX.is_node(e):
            continue
        w = SX.write_target(e) if cn.kind in ('assign', 'call') else None
        if w and SX.is_this_member(SX.strip(w[0]), member):
            out.append(cn)
        if cn.kind == 'call' and e['k'] == 'mcall' and SX.short(e['callee']) in ('clear', 'reset') and SX.is_this_member(e.get('obj'), member):
            out.append(cn)
        if cn.kind == 'call' and e['k'] == 'mcall' and SX.short(e['callee']) in ('clear', 'reset'):
            # element-wise release inside a range-for over the member
            for lh in g.nodes:
                if lh.kind == 'rangeinit' and SX.is_this_member(SX.strip(lh.e['range']), member):
                    body_ids = g.reachable([lh])
                    if cn.id in body_ids:
                        root, names = SX.member_chain(e.get('obj'))
                        if SX.is_node(root) and root['k'] == 'ref' and root.get('id') in _loop_var_ids(lh.e):
                            out.append(lh)
    return out


def _loop_var_ids(fr):
    v = fr['var']
    ids = {v['id']}
    for b in v.get('bindings', []):
        ids.add(b['id'])
    return ids


def _after_any(g, joins, node):
    # node is not reachable from entry without passing a join … unless the join itself is conditional (joinable test):
    # require that every join call precedes node on the paths where the join happens, i.e. node is not reachable from entry
    # avoiding the join *conds*; approximate with: node reachable from some join, and no path from node back to a join.
    r = g.reachable([node])
    return not any(j.id in r for j in joins)


def _deleter_lambdas(prog, R):
    out = []
    for f in R.ev_methods() + [x for x in prog.functions if x.kind == 'lambda' and x.cls == R.ev['name']]:
        if not f.body:
            continue
        for n in SX.walk(f.body, into_lambdas=False):
            if n['k'] == 'construct' and 'shared_ptr<bloch::runtime::Object>' in n['type'] and len(SX.real_args(n)) == 2:
                d = SX.real_args(n)[1]
                lam = None
                if SX.is_node(d) and d['k'] == 'lambda':
                    lam = d
                elif SX.is_node(d) and d['k'] == 'ref':
                    for lf in f.lambdas:
                        par = parent_map(f.body).get(id(lf.node))
                        if par is not None and par.get('k') == 'var' and par['id'] == d.get('id'):
                            lam = lf.node
                if lam is None:
                    raise AnalysisBroken('deleter of shared_ptr<Object> at %s:%s is not a lambda' % (f.rel, n.get('ln')))
                for lf in f.lambdas:
                    if lf.node is lam:
                        out.append(lf)
    return out


def _may_throw_set(prog):
    """Functions (ids) from which a `throw` is reachable in the call graph."""
    direct = set()
    for f in prog.functions:
        if f.body and any(n['k'] == 'throw' for n in SX.walk(f.body, into_lambdas=False)):
            direct.add(id(f))
    may = set(direct)
    changed = True
    while changed:
        changed = False
        for f in prog.functions:
            if id(f) in may or not f.body:
                continue
            for n, fs in prog.callees(f):
                if n.get('k') == 'lambda':
                    continue
                if any(id(t) in may for t in fs):
                    may.add(id(f))
                    changed = True
                    break
    return may


def _no_escape(prog, chk, f, throwing, what):
    pm = parent_map(f.body)
    cnt = 0
    for n, fs in prog.callees(f):
        if n.get('k') == 'lambda':
            continue
        can = any(id(t) in throwing for t in fs) or (n.get('k') == 'call' and SX.callee(n) == 'std::rethrow_exception')
        if not can:
            continue
        cnt += 1
        # enclosed by try with catch(...)
        cur = n
        ok = False
        while id(cur) in pm:
            par = pm[id(cur)]
            if par.get('k') == 'try' and par['body'] is cur and any(h['type'] == '...' for h in par['handlers']):
                ok = True
                break
            cur = par
        chk.ob('R12.5', f, n.get('ln', f.ln), ok, '%s: call %s can throw and must be inside try{}catch(...)' % (what, SX.show(n)[:60]),
               key='%s:%s' % (what, SX.short(SX.callee(n))))
    for n in SX.walk(f.body, into_lambdas=False):
        if n['k'] == 'throw':
            cur = n
            ok = False
            while id(cur) in pm:
                par = pm[id(cur)]
                if par.get('k') == 'try' and par['body'] is cur and any(h['type'] == '...' for h in par['handlers']):
                    ok = True
                    break
                cur = par
            chk.ob('R12.5', f, n.get('ln', f.ln), ok, '%s: throw must not escape' % what, key='%s:throw' % what)
    chk.extra.setdefault('noexcept_context_throwing_calls', {})[what] = cnt


def _value_array_subscript(x):
    """a computed subscript of one of Value's array members: decided by the value-array rule (C07's R07.4, run here as part of R12.12)"""
    b = SX.strip(x.get('base'))
    i = SX.strip(x.get('i'))
    while SX.is_node(i) and i.get('k') == 'cast':
        i = SX.strip(i['e'])
    return SX.is_node(b) and b.get('k') == 'member' and b.get('name', '').endswith('Array') and 'callee' in x and not (SX.is_node(i) and i.get('k') == 'int')


def _rule_loop_subscripts(prog, chk, R):
    """R12.12 — a std::vector subscripted by the counter of a counted loop is in range: the loop condition (or a test inside the
    body) bounds the counter by that vector's size; or by the size of a vector a dominating test makes equally long; or by the
    very value the vector was resized to before the loop; or by the size of the sibling member it is always resized to
    (checked: every resize of the member has that argument, nothing else changes its length)."""
    from .C13 import _cfg_node_containing, _bound_test, _same_size_fact, _no_write_between, _peel as p13
    evfile = R.ev_method('execute').file
    fns = [f for f in prog.functions if f.body and f.file == evfile]

    def conj(c, pol):
        c = SX.strip(c)
        if pol and SX.is_node(c) and c.get('k') == 'bin' and c['op'] == '&&':
            return conj(c['l'], True) + conj(c['r'], True)
        if not pol and SX.is_node(c) and c.get('k') == 'bin' and c['op'] == '||':
            return conj(c['l'], False) + conj(c['r'], False)
        return [(c, pol)]

    def member_resizes(fld):
        out = []
        other = []
        for f in fns:
            for x in SX.walk(f.body, into_lambdas=False):
                if x.get('k') == 'mcall' and not x.get('constm', True):
                    o = p13(x.get('obj'))
                    if SX.is_node(o) and o.get('k') == 'member' and o.get('name') == fld:
                        sh = SX.short(x['callee'])
                        if sh in ('resize', 'assign'):
                            out.append((f, x, o))
                        elif not (sh == 'clear' and f.kind == 'dtor'):
                            other.append((f, x))
        return out, other
    n = 0
    handled = set()
    for f in fns:
        loops = []
        for s in SX.walk(f.body, into_lambdas=False):
            if s.get('k') == 'for' and s.get('init') and s['init'].get('k') == 'decls' and len(s['init']['d']) == 1 and SX.is_node(s.get('c')):
                loops.append(s)
        if not loops:
            continue
        g = None
        for lp in loops:
            v = lp['init']['d'][0]
            subs = [x for x in SX.walk(lp['body'], into_lambdas=False) if x['k'] == 'index' and (x.get('bt') or '').replace('const ', '').startswith('std::vector<')
                    and SX.is_node(p13(x['i'])) and p13(x['i']).get('k') == 'ref' and p13(x['i']).get('id') == v['id'] and not _value_array_subscript(x)]
            if not subs:
                continue
            g = g or prog.cfg(f)
            for x in subs:
                n += 1
                handled.add(id(x))
                V = SX.show(p13(x['base']))
                node = _cfg_node_containing(g, x)
                if node is None:
                    raise AnalysisBroken('%s: subscript %s not found in the flow graph' % (f.short, SX.show(x)[:40]))
                facts = [(c_, p_, ed) for ce, pol, ed in g.guards(node) for c_, p_ in conj(ce, pol)]
                # the subscript may sit in the right operand of && inside its own condition
                if node.kind == 'cond' or True:
                    def left_conj(e, target):
                        e = SX.strip(e)
                        if SX.is_node(e) and e.get('k') == 'bin' and e['op'] == '&&' and any(y is target for y in SX.walk(e['r'])):
                            return conj(e['l'], True) + left_conj(e['r'], target)
                        if SX.is_node(e) and e.get('k') == 'bin' and e['op'] == '&&' and any(y is target for y in SX.walk(e['l'])):
                            return left_conj(e['l'], target)
                        return []
                    if SX.is_node(node.e):
                        for top in SX.walk(node.e, into_lambdas=False):
                            if top.get('k') == 'bin' and top.get('op') == '&&' and any(y is x for y in SX.walk(top)):
                                facts += [(c_, p_, None) for c_, p_ in left_conj(top, x)]
                                break
                ok, why = False, 'the counter %s is not bounded by %s.size()' % (v['name'], V)
                bounds = []      # (text of W, edge) for every fact  counter < W.size()
                for ce, pol, ed in facts:
                    r_ = _bound_test(ce, pol, v['name'], V)
                    if r_ is not None and r_ >= 0:
                        ok, why = True, 'bounded by its own size'
                        break
                    cp = SX.cmp_parts(ce)
                    if cp:
                        op, l, r = cp
                        if not pol:
                            op = {'==': '!=', '!=': '==', '<': '>=', '>=': '<', '>': '<=', '<=': '>'}[op]
                        if op == '<' and SX.show(p13(l)) == v['name']:
                            bounds.append(p13(r))
                        if op == '>' and SX.show(p13(r)) == v['name']:
                            bounds.append(p13(l))
                if not ok:
                    # a bound held in a local that is the smaller of two lengths (`const size_t n = std::min(a.size(), b.size());`) bounds the
                    # counter by each of them
                    for b in list(bounds):
                        if SX.is_node(b) and b.get('k') == 'ref' and b.get('kind') == 'var':
                            dv = [d_ for d_ in SX.walk(f.body, into_lambdas=False) if d_.get('k') == 'var' and d_.get('id') == b.get('id')]
                            wr = [1 for y_ in SX.walk(f.body) for w_ in [SX.write_target(y_)] if w_ and SX.is_node(SX.strip(w_[0])) and SX.strip(w_[0]).get('id') == b.get('id')]
                            i_ = p13(SX.strip(dv[0].get('init'))) if len(dv) == 1 and not wr and SX.is_node(dv[0].get('init')) else None
                            if SX.is_node(i_) and i_.get('k') == 'call' and (i_.get('callee') or '').split('<')[0] == 'std::min' and len(SX.real_args(i_)) == 2:
                                bounds += [p13(a_) for a_ in SX.real_args(i_)]
                    for b in bounds:
                        if SX.is_node(b) and b.get('k') == 'mcall' and SX.short(b.get('callee', '')) == 'size' and SX.show(p13(b.get('obj'))) == V:
                            ok, why = True, 'bounded by its own size'
                if not ok:
                    for b in bounds:
                        bt = SX.show(b)
                        W = SX.show(p13(b.get('obj'))) if SX.is_node(b) and b.get('k') == 'mcall' and SX.short(b.get('callee', '')) == 'size' else None
                        # (d) a dominating test makes V and W equally long
                        if W and any(_same_size_fact(c2, p2, V, W) for c2, p2, e2 in facts):
                            ok, why = True, 'bounded by %s.size(), and %s.size() == %s.size() holds here' % (W, V, W)
                            break
                        # (c) V was resized to the bound before the loop
                        for cn in g.nodes:
                            if cn.kind == 'call' and SX.is_node(cn.e) and cn.e.get('k') == 'mcall' and SX.short(cn.e.get('callee', '')) in ('resize', 'assign') and \
                                    SX.show(p13(cn.e.get('obj'))) == V and SX.real_args(cn.e) and SX.show(p13(SX.real_args(cn.e)[0])) == bt and g.dominates(cn, node):
                                ok, why = True, 'resized to %s before the loop' % bt
                        if ok:
                            break
                        # (e) sibling members of one record kept equally long
                        vb = p13(x['base'])
                        wb = p13(b.get('obj')) if W else None
                        if SX.is_node(vb) and vb.get('k') == 'member' and SX.is_node(wb) and wb.get('k') == 'member' and SX.show(p13(vb['base'])) == SX.show(p13(wb['base'])):
                            rs, other = member_resizes(vb['name'])
                            good = bool(rs) and not other
                            for rf, rc, ro in rs:
                                a = SX.real_args(rc)
                                a0 = p13(a[0]) if a else None
                                if not (SX.is_node(a0) and a0.get('k') == 'mcall' and SX.short(a0.get('callee', '')) == 'size' and SX.is_node(p13(a0.get('obj'))) and
                                        p13(a0['obj']).get('k') == 'member' and p13(a0['obj'])['name'] == wb['name'] and SX.show(p13(p13(a0['obj'])['base'])) == SX.show(p13(ro['base']))):
                                    good = False
                            if good:
                                ok, why = True, '%s is resized to %s.size() wherever it is sized (%d sites) and its length changes nowhere else' % (vb['name'], wb['name'], len(rs))
                                break
                chk.ob('R12.12', f, x.get('ln', f.ln), ok, 'subscript %s by the loop counter: %s (an index past the end reads or writes outside the vector: the interpreter dies from a signal)' % (
                    SX.show(x)[:40], why), key='loop-subscript:%s:%s' % (f.short, SX.show(x)[:30]))
    chk.count('vector subscripts by a loop counter', n, 20)
    # computed subscripts of the arrays inside a Value (element reads and writes, element-wise operators, array initialisation) have
    # their own, stronger rule — lower bound too, per-kind length functions, helpers decided at their call sites: C07's R07.4, run here
    from .C07 import value_array_subscripts
    value_array_subscripts(prog, chk, R, 'R12.12')
    return handled


def _rule_other_subscripts(prog, chk, R, skip_ids):
    """R12.13 — every other std::vector subscript of the evaluator (not by a loop counter: R12.12; not of the built-in argument
    vector: R12.6) is in range where it is evaluated: a dominating bound test or size test (the analyser's rule, C13 R13.3); a
    bound test in a left operand of `&&` of the same condition; grow-to-fit (`if (i >= v.size()) v.resize(i + 1);` before it);
    validation by a callee that throws unless the index is in range; an index read from the class's name→offset map under
    `it != map.end()`, where every entry of the map is the vector's size at the moment the element is appended; a field offset
    into an object's storage, which is sized to the class's field table when the object is created."""
    from .C13 import subscript_in_range, _cfg_node_containing, _bound_test, _lin, _peel as p13
    from ..kernels import enclosing_stmts
    evfile = R.ev_method('execute').file
    fns = [f for f in prog.functions if f.body and f.file == evfile]

    def conj(c, pol):
        c = SX.strip(c)
        if SX.is_node(c) and c.get('k') == 'un' and c.get('op') == '!':
            return conj(c['e'], not pol)
        if pol and SX.is_node(c) and c.get('k') == 'bin' and c['op'] == '&&':
            return conj(c['l'], True) + conj(c['r'], True)
        if not pol and SX.is_node(c) and c.get('k') == 'bin' and c['op'] == '||':
            return conj(c['l'], False) + conj(c['r'], False)
        return [(c, pol)]

    def left_facts(e, target):
        e = SX.strip(e)
        if SX.is_node(e) and e.get('k') == 'bin' and e['op'] == '&&':
            if any(y is target for y in SX.walk(e['r'])):
                return conj(e['l'], True) + left_facts(e['r'], target)
            if any(y is target for y in SX.walk(e['l'])):
                return left_facts(e['l'], target)
        if SX.is_node(e) and e.get('k') == 'un' and e.get('op') == '!':
            return []
        return []

    def earlier_stmts(f, x):
        """statements that precede the statement holding x in each enclosing block, nearest first"""
        chain = enclosing_stmts(f.body, x)
        if x.get('k') in ('forrange', 'for', 'while', 'if', 'block', 'expr', 'decls') and (not chain or chain[-1] is not x):
            chain = chain + [x]
        out = []
        for d in range(len(chain) - 1, -1, -1):
            blk = chain[d]
            if blk.get('k') != 'block':
                continue
            child = chain[d + 1] if d + 1 < len(chain) else None
            pos = [i for i, s in enumerate(blk['body']) if s is child]
            if pos:
                out.extend(reversed(blk['body'][:pos[0]]))
        return out

    def written(stmts, name):
        for s in stmts:
            for y in SX.walk(s, into_lambdas=False):
                w = SX.write_target(y)
                if w and SX.show(SX.strip(w[0])) == name:
                    return True
        return False

    # premise of the index-map idiom, per (index member M, table member F): every entry M[k] is F.size() at the append
    def map_premise(M, F):
        def norm(t):
            return t.replace('->', '.').replace(' ', '').replace('(*', '').replace(')', '')

        def names_of(f, e):
            """(root text, [member names], condition text) an lvalue stands for: a member access, or a reference local bound to
            `c ? r.A : r.B` (both branches on the same record)"""
            e = p13(e)
            if SX.is_node(e) and e.get('k') == 'member':
                return norm(SX.show(p13(e['base']))), [e['name']], ''
            if SX.is_node(e) and e.get('k') == 'ref':
                d = [v for v in SX.walk(f.body, into_lambdas=False) if v['k'] == 'var' and v['id'] == e.get('id') and v.get('isref')]
                i0 = p13(d[0].get('init')) if d and SX.is_node(d[0].get('init')) else None
                if SX.is_node(i0) and i0.get('k') == 'cond':
                    t_, f_ = p13(i0['t']), p13(i0['f'])
                    if SX.is_node(t_) and SX.is_node(f_) and t_.get('k') == 'member' and f_.get('k') == 'member' and norm(SX.show(p13(t_['base']))) == norm(SX.show(p13(f_['base']))):
                        return norm(SX.show(p13(t_['base']))), [t_['name'], f_['name']], SX.show(i0['c'])
                if SX.is_node(i0) and i0.get('k') == 'member':
                    return norm(SX.show(p13(i0['base']))), [i0['name']], ''
            return None, [], ''
        sites = 0
        for f in fns:
            for blk in SX.walk(f.body, into_lambdas=False):
                if blk.get('k') != 'block':
                    continue
                for i, st in enumerate(blk['body']):
                    e = st.get('e') if st.get('k') == 'expr' else None
                    w = SX.write_target(e) if SX.is_node(e) else None
                    if not w:
                        continue
                    l = SX.strip(w[0])
                    # I[key] = v  with I standing for M (directly or through a paired reference local)
                    if SX.is_node(l) and l.get('k') in ('opcall', 'index'):
                        tgt = p13(l['args'][0]) if l.get('k') == 'opcall' and l.get('args') else p13(l.get('base'))
                        root, inames, icond = names_of(f, tgt)
                        if M not in inames:
                            continue
                        v = SX.show(p13(w[1]))
                        prev = blk['body'][i - 1] if i else None
                        nxt = blk['body'][i + 1] if i + 1 < len(blk['body']) else None
                        pw = SX.write_target(prev.get('e')) if prev and prev.get('k') == 'expr' else None
                        ok1 = False
                        if pw and SX.show(SX.strip(pw[0])) == v:
                            sz = p13(pw[1])
                            if SX.is_node(sz) and sz.get('k') == 'mcall' and SX.short(sz.get('callee', '')) == 'size':
                                r2, tnames, tcond = names_of(f, sz.get('obj'))
                                ok1 = r2 == root and len(tnames) == len(inames) and tcond == icond and tnames[inames.index(M)] == F
                        ne = p13(nxt.get('e')) if nxt and nxt.get('k') == 'expr' else None
                        ok2 = False
                        if SX.is_node(ne) and ne.get('k') == 'mcall' and SX.short(ne.get('callee', '')) in ('push_back', 'emplace_back'):
                            r3, pnames, pcond = names_of(f, ne.get('obj'))
                            ok2 = r3 == root and len(pnames) == len(inames) and pcond == icond and pnames[inames.index(M)] == F
                        if not (ok1 and ok2):
                            return None
                        sites += 1
                    # whole-map copy  X->M = Y->M  needs  X->F = Y->F  next to it
                    if SX.is_node(l) and l.get('k') == 'member' and l.get('name') == M:
                        r = p13(w[1])
                        if not (SX.is_node(r) and r.get('k') == 'member' and r.get('name') == M):
                            return None
                        xl, xr = norm(SX.show(p13(l['base']))), norm(SX.show(p13(r['base'])))
                        paired = False
                        for o in blk['body'][max(0, i - 2):i + 3]:
                            ow = SX.write_target(o.get('e')) if o.get('k') == 'expr' else None
                            if ow and SX.is_node(SX.strip(ow[0])) and SX.strip(ow[0]).get('k') == 'member' and SX.strip(ow[0]).get('name') == F and \
                                    norm(SX.show(p13(SX.strip(ow[0])['base']))) == xl and SX.is_node(p13(ow[1])) and p13(ow[1]).get('name') == F and norm(SX.show(p13(p13(ow[1])['base']))) == xr:
                                paired = True
                        if not paired:
                            return None
                        sites += 1
            # the table never shrinks
            for y in SX.walk(f.body, into_lambdas=False):
                if y.get('k') == 'mcall' and not y.get('constm', True) and SX.short(y.get('callee', '')) in ('pop_back', 'erase', 'clear', 'resize') and \
                        SX.is_node(p13(y.get('obj'))) and p13(y['obj']).get('k') == 'member' and p13(y['obj']).get('name') == F:
                    return None
        return sites or None
    memo = {}
    n = 0
    for f in fns:
        subs = [x for x in SX.walk(f.body, into_lambdas=False) if x['k'] == 'index' and (x.get('bt') or '').replace('const ', '').startswith('std::vector<') and id(x) not in skip_ids
                and not _value_array_subscript(x)]
        if not subs:
            continue
        g = prog.cfg(f)
        for x in subs:
            n += 1
            ok, why = subscript_in_range(f, g, x)
            V = SX.show(p13(x['base']))
            base, off = _lin(x['i'])
            node = _cfg_node_containing(g, x)
            if not ok and base is not None and off == 0 and node is not None:
                # the test was made on an unmodified local copy of the index expression (`int q = v.qubit; if (q < …) … [v.qubit]`)
                for d in SX.walk(f.body, into_lambdas=False):
                    if d['k'] == 'var' and SX.is_node(d.get('init')) and SX.show(p13(d['init'])) == base and not d.get('isref') and \
                            not written([f.body], d['name']):
                        for ce, pol, ed in g.guards(node):
                            for c_, p_ in conj(ce, pol):
                                if _bound_test(c_, p_, d['name'], V) == 0 and not written([f.body], base):
                                    ok, why = True, 'bounded through the local copy %s of %s' % (d['name'], base)
            if not ok and base is not None and node is not None and SX.is_node(node.e):
                # a left operand of && in the same condition
                for top in SX.walk(node.e if node.kind != 'decl' else (node.e.get('init') or {}), into_lambdas=False):
                    if top.get('k') == 'bin' and top.get('op') == '&&' and any(y is x for y in SX.walk(top)):
                        for c_, p_ in left_facts(top, x):
                            r_ = _bound_test(c_, p_, base, V)
                            if r_ is not None and r_ >= off:
                                ok, why = True, 'bounded by the left operand %s of the same condition' % SX.show(c_)[:40]
                        break
            if not ok and base is not None and off == 0:
                before = earlier_stmts(f, x)
                for k_, st in enumerate(before):
                    if written(before[:k_], base):
                        break
                    # grow-to-fit
                    if st.get('k') == 'if' and not st.get('e'):
                        r_ = _bound_test(st['c'], False, base, V)      # condition false ⇒ base < V.size()
                        t = st['t']['body'] if SX.is_node(st.get('t')) and st['t'].get('k') == 'block' else [st.get('t')]
                        te = p13(t[0].get('e')) if len(t) == 1 and SX.is_node(t[0]) and t[0].get('k') == 'expr' else None
                        if r_ == 0 and SX.is_node(te) and te.get('k') == 'mcall' and SX.short(te.get('callee', '')) == 'resize' and SX.show(p13(te.get('obj'))) == V:
                            a0 = SX.real_args(te)[0]
                            b2, o2 = _lin(a0)
                            if b2 == base and o2 >= 1:
                                ok, why = True, 'the vector is grown to %s + %d first when the index is past its end' % (base, o2)
                                break
                    # validated by a callee that throws unless the index is in range
                    e = p13(st.get('e')) if st.get('k') == 'expr' else None
                    if SX.is_node(e) and e.get('k') == 'mcall' and prog.by_name.get(e.get('callee')):
                        args = SX.real_args(e)
                        pos = [i_ for i_, a in enumerate(args) if SX.show(p13(a)) == base]
                        cal = prog.by_name[e['callee']][0]
                        if pos and cal.body and len(cal.params) > pos[0]:
                            pn = cal.params[pos[0]]['name']
                            first = cal.body['body'][0] if cal.body.get('k') == 'block' and cal.body['body'] else None
                            if SX.is_node(first) and first.get('k') == 'if' and any(y['k'] == 'throw' for y in SX.walk(first['t'], into_lambdas=False)) and \
                                    not any(y['k'] in ('return',) for y in SX.walk(first['t'], into_lambdas=False)):
                                for c_, p_ in conj(first['c'], False):
                                    r_ = _bound_test(c_, p_, pn, V)
                                    if r_ == 0:
                                        ok, why = True, '%s throws unless %s is below %s.size()' % (cal.short, base, V)
                        if ok:
                            break
            if not ok and base is not None and off == 0 and node is not None:
                # every element of the range was validated by an earlier full loop that clears a flag on the first failure
                ixr = p13(x['i'])
                l2 = [l for l in SX.walk(f.body, into_lambdas=False) if l.get('k') == 'forrange' and SX.is_node(ixr) and l['var'].get('id') == ixr.get('id')]
                if l2:
                    RT = SX.show(p13(l2[0]['range']))
                    for st in earlier_stmts(f, l2[0]):
                        if st.get('k') == 'forrange' and SX.show(p13(st['range'])) == RT and not any(y['k'] in ('break', 'continue') for y in SX.walk(st['body'], into_lambdas=False)):
                            b1 = st['body']['body'] if st['body'].get('k') == 'block' else [st['body']]
                            if b1 and b1[0].get('k') == 'if':
                                t1 = b1[0]['t']['body'] if SX.is_node(b1[0]['t']) and b1[0]['t'].get('k') == 'block' else [b1[0]['t']]
                                leaves = bool(t1) and SX.is_node(t1[-1]) and t1[-1].get('k') in ('return', 'ireturn', 'throw') or \
                                    (bool(t1) and SX.is_node(t1[-1]) and t1[-1].get('k') == 'expr' and SX.is_node(t1[-1].get('e')) and t1[-1]['e'].get('k') == 'throw')
                                if leaves and any(_bound_test(c2, p2, st['var']['name'], V) == 0 for c2, p2 in conj(b1[0]['c'], False)):
                                    ok, why = True, 'every element of %s was tested against %s.size() by an earlier loop that leaves on the first failure' % (RT, V)
                    for ce, pol, ed in g.guards(node):
                        for c_, p_ in conj(ce, pol):
                            c0 = p13(c_)
                            if not (p_ and SX.is_node(c0) and c0.get('k') == 'ref' and (c0.get('t') or '').replace('const ', '') == 'bool'):
                                continue
                            fd = [d for d in SX.walk(f.body, into_lambdas=False) if d['k'] == 'var' and d['id'] == c0['id']]
                            ini = p13(fd[0].get('init')) if fd and SX.is_node(fd[0].get('init')) else None
                            if SX.is_node(ini) and ini.get('k') == 'call' and (ini.get('callee') or '').split('<')[0] == 'std::all_of' and len(SX.real_args(ini)) == 3 \
                                    and not [1 for y in SX.walk(f.body) for w in [SX.write_target(y)] if w and SX.strip(w[0]).get('id') == c0['id']]:
                                # `const bool all = std::all_of(R.begin(), R.end(), pred);` — pred holds for every element of R
                                a_ = SX.real_args(ini)
                                rng_ok = all(SX.is_node(p13(z)) and p13(z).get('k') == 'mcall' and SX.short(p13(z).get('callee', '')) == nm and SX.show(p13(p13(z).get('obj'))) == RT
                                             for z, nm in ((a_[0], 'begin'), (a_[1], 'end')))
                                pr = p13(a_[2])
                                lam = pr if SX.is_node(pr) and pr.get('k') == 'lambda' else None
                                if lam is None and SX.is_node(pr) and pr.get('k') == 'ref':
                                    pd = [d for d in SX.walk(f.body, into_lambdas=False) if d['k'] == 'var' and d['id'] == pr.get('id') and SX.is_node(d.get('init')) and SX.strip(d['init']).get('k') == 'lambda']
                                    pw = [1 for y in SX.walk(f.body) for w in [SX.write_target(y)] if w and SX.strip(w[0]).get('id') == pr.get('id')]
                                    lam = SX.strip(pd[0]['init']) if len(pd) == 1 and not pw else None
                                st_ = lam['body'].get('body') if lam is not None and SX.is_node(lam.get('body')) and lam['body'].get('k') == 'block' else None
                                if rng_ok and st_ and len(st_) == 1 and st_[0].get('k') == 'return' and len(lam.get('params', [])) == 1 and \
                                        any(_bound_test(c2, p2, lam['params'][0]['name'], V) == 0 for c2, p2 in conj(st_[0]['e'], True)):
                                    ok, why = True, 'every element of %s satisfies the predicate of std::all_of (%s), which tests it against %s.size()' % (RT, c0['name'], V)
                                continue
                            if not fd or not (SX.is_node(p13(fd[0].get('init'))) and p13(fd[0]['init']).get('v') is True):
                                continue
                            clears = []
                            for y in SX.walk(f.body, into_lambdas=False):
                                w = SX.write_target(y)
                                if not (w and SX.strip(w[0]).get('id') == c0['id']):
                                    continue
                                ch = enclosing_stmts(f.body, y)
                                loops_ = [z for z in ch if z.get('k') in ('forrange', 'for', 'while')]
                                ifs_ = [z for z in ch if z.get('k') == 'if']
                                l1 = loops_[-1] if loops_ else None
                                i_ = ifs_[-1] if ifs_ else None
                                good = bool(l1) and bool(i_) and l1.get('k') == 'forrange' and l1 is not l2[0] and SX.show(p13(l1['range'])) == RT and \
                                    p13(w[1]).get('v') is False and any(z is i_ for z in SX.walk(l1['body'], into_lambdas=False)) and \
                                    any(z is y for z in SX.walk(i_['t'], into_lambdas=False)) and \
                                    any(_bound_test(c2, p2, l1['var']['name'], V) == 0 for c2, p2 in conj(i_['c'], False))
                                clears.append(good)
                            other = [y for y in SX.walk(f.body, into_lambdas=False) for w in [SX.write_target(y)] if w and SX.strip(w[0]).get('id') == c0['id']]
                            if clears and all(clears) and len(other) == len(clears):
                                ok, why = True, 'every element of %s was tested against %s.size() by an earlier loop that clears %s on the first failure' % (RT, V, c0['name'])
            if not ok:
                # index read from the class's name→offset map
                ix = p13(x['i'])
                vb = p13(x['base'])
                if SX.is_node(ix) and ix.get('k') == 'member' and ix.get('name') == 'second' and SX.is_node(vb) and vb.get('k') == 'member':
                    it = p13(ix['base'])
                    while SX.is_node(it) and it.get('k') == 'opcall' and it.get('op') in ('->', '*'):
                        it = p13(it['args'][0])
                    decl = [d for d in SX.walk(f.body, into_lambdas=False) if d['k'] == 'var' and SX.is_node(it) and d['id'] == it.get('id')]
                    init = p13(decl[0].get('init')) if decl and SX.is_node(decl[0].get('init')) else None
                    if SX.is_node(init) and init.get('k') == 'mcall' and SX.short(init.get('callee', '')) == 'find':
                        mo = p13(init.get('obj'))
                        if SX.is_node(mo) and mo.get('k') == 'member' and SX.show(p13(mo['base'])) == SX.show(p13(vb['base'])):
                            def not_end(ce, pol):
                                ce = SX.strip(ce)
                                while SX.is_node(ce) and ce.get('k') == 'un' and ce.get('op') == '!':
                                    ce, pol = SX.strip(ce['e']), not pol
                                cp = SX.cmp_parts(ce)
                                if not cp:
                                    return False
                                op = cp[0] if pol else {'==': '!=', '!=': '=='}.get(cp[0])
                                txt = SX.show(ce)
                                return op == '!=' and it.get('name') in txt and '.end()' in txt and mo['name'] in txt
                            guard = any(not_end(ce, pol) for ce, pol, ed in g.guards(node)) if node is not None else False
                            key = (mo['name'], vb['name'])
                            if key not in memo:
                                memo[key] = map_premise(*key)
                            if guard and memo[key]:
                                ok, why = True, 'the index is an entry of %s found under `!= end()`; every entry is %s.size() at the append that follows (%d sites), and the table never shrinks' % (
                                    mo['name'], vb['name'], memo[key])
            if not ok:
                # a field's offset into the storage of an object
                ix = p13(x['i'])
                vb = p13(x['base'])
                if SX.is_node(ix) and ix.get('k') == 'member' and ix.get('name') == 'offset' and SX.is_node(vb) and vb.get('k') == 'member' and vb.get('name') == 'fields' \
                        and 'Object' in (p13(vb['base']).get('t') or ''):
                    sized = [y for f2 in fns for y in SX.walk(f2.body, into_lambdas=True) if y.get('k') == 'mcall' and SX.short(y.get('callee', '')) in ('assign', 'resize') and
                             SX.is_node(p13(y.get('obj'))) and p13(y['obj']).get('k') == 'member' and p13(y['obj'])['name'] == 'fields' and SX.real_args(y) and
                             'instanceFields.size()' in SX.show(SX.real_args(y)[0])]
                    if sized and memo.setdefault(('instanceFieldIndex', 'instanceFields'), map_premise('instanceFieldIndex', 'instanceFields')):
                        ok, why = True, 'object storage is sized to the class\'s field table at creation (%d site) and a field\'s offset is its position in that table (base tables copied first: R12.10)' % len(sized)
            chk.ob('R12.13', f, x.get('ln', f.ln), ok, 'subscript %s: %s (an index past the end reads or writes outside the vector: the interpreter dies from a signal)' % (
                SX.show(x)[:40], why), key='subscript:%s:%s' % (f.short, SX.show(x)[:30]))
    chk.count('other vector subscripts of the evaluator', n, 25)
