"""C05 — the emitted OpenQASM 2.0 replays to the same quantum state as the simulation."""
from .. import sx as SX
from ..facts import AnalysisBroken
from ..roles import Roles

EXPLANATION = (
    "Well-formedness and completeness of the emitted listing decided from the source: (R05.1) every public state-changing operation of "
    "the simulator appends exactly one line to the operation log on every normal path when logging is on and none otherwise, after the "
    "operand checks and the state update; nothing outside the simulator writes the log; (R05.2) the appended text, folded as a string "
    "template, is exactly the OpenQASM 2.0 statement of the method's own mnemonic over its own parameters in declaration order "
    "(`<g> q[{q}];`, `r?({t}) q[{q}];`, `cx q[{control}],q[{target}];`, `reset q[{q}];`, `measure q[{q}] -> c[{q}];`); (R05.3) getQasm "
    "folds to header, one qreg and one creg sized by the qubit count, then the log in container order; (R05.4) each operation reaches "
    "the 0 ≤ q < count test before it logs; (R05.5) cx is dominated by a guard rejecting identical operands; (R05.6) the CLI streams the "
    "same variable to the .qasm file and to stdout in both branches, and in multi-shot mode the evaluator whose listing is read is the "
    "one constructed with logging on. Equality of the replayed state follows from C01/C02/C04 together with these and is not decided "
    "separately.")

OPEN = 'OPENQASM 2.0;\ninclude "qelib1.inc";\n'


def fold_string(e, resolve=None):
    """String-valued expression → list of parts: literal text (str) or ('num', <text of the converted expression>)."""
    e = SX.strip(e)
    if not SX.is_node(e):
        raise ValueError('empty')
    k = e['k']
    if k == 'str':
        return [e['v']]
    if k == 'construct' and 'std::string' in e.get('type', '') or (k == 'construct' and 'basic_string' in e.get('type', '')):
        a = SX.real_args(e)
        if len(a) == 1:
            return fold_string(a[0], resolve)
        if not a:
            return ['']
    if k == 'opcall' and e['op'] == '+' and len(e['args']) == 2:
        return _merge(fold_string(e['args'][0], resolve) + fold_string(e['args'][1], resolve))
    if k == 'call' and e.get('callee') == 'std::to_string':
        return [('num', SX.show(SX.real_args(e)[0]))]
    if k == 'cond':
        # a text chosen by a condition: kept as alternatives (a template with alternatives never equals a fixed expected template)
        return [('alt', '%s ? %s : %s' % (SX.show(e['c'])[:40], _render(fold_string(e['t'], resolve)), _render(fold_string(e['f'], resolve))))]
    if k == 'ref' and resolve is not None:
        r = resolve(e)
        if r is not None:
            return r
    if k == 'call' and PROG is not None:
        # a formatting helper: `return <template over its parameters>` or an ostringstream that prints one parameter
        fs = [f for f in PROG.resolve(e) if f.body]
        if len(fs) == 1 and len(fs[0].params) == len(SX.real_args(e)):
            h = fs[0]
            amap = {p['name']: SX.show(a) for p, a in zip(h.params, SX.real_args(e))}
            st = h.body['body'] if h.body.get('k') == 'block' else [h.body]
            if len(st) == 1 and st[0]['k'] == 'return':
                # string-valued parameters are replaced by the folded argument (a literal, or a template of the caller)
                aparts = {}
                for p_, a_ in zip(h.params, SX.real_args(e)):
                    if 'char' in p_['type'] or 'string' in p_['type']:
                        try:
                            aparts[p_['name']] = fold_string(a_, resolve)
                        except ValueError:
                            pass

                def inner_resolve(r_):
                    return aparts.get(r_.get('name')) if r_.get('kind') == 'param' else None
                inner = fold_string(st[0]['e'], inner_resolve)
                return _merge([(x[0], amap.get(x[1], x[1])) + tuple(x[2:]) if isinstance(x, tuple) else x for x in inner])
            fmt = _stream_format(h)
            if fmt is not None:
                return [('numfmt', amap.get(fmt[0], fmt[0]), fmt[1])]
            tab = _number_text_table(h)
            if tab is not None:
                return [('numfmt', amap.get(tab[0], tab[0]), ('fixed', 6) if not tab[1] else ('text-table', tab[1][:3]))]
    raise ValueError('not a string template: ' + SX.show(e)[:60])


PROG = None


def _stream_format(h):
    """helper of the form  std::ostringstream os; os << [manipulators] << param; return os.str();  →  (param name, format) with
    format = ('fixed'|'scientific'|'general', precision or None)"""
    st = h.body['body'] if h.body.get('k') == 'block' else [h.body]
    streams = [v for s_ in st if s_['k'] == 'decls' for v in s_['d'] if 'ostringstream' in (v.get('type') or '')]
    if len(streams) != 1:
        return None
    rets = [s_ for s_ in st if s_['k'] == 'return']
    if len(rets) != 1 or 'str()' not in SX.show(rets[0].get('e')).replace(' ', ''):
        return None
    mode, prec, data = 'general', None, []
    for s_ in st:
        if s_['k'] != 'expr':
            continue
        for n in SX.walk(s_['e']):
            if n['k'] == 'call' and SX.short(n.get('callee', '')) == 'setprecision':
                a = SX.strip(SX.real_args(n)[0])
                prec = a.get('v') if a.get('k') == 'int' else None
            if n['k'] == 'ref' and n.get('name', '').split('::')[-1] in ('fixed', 'scientific'):
                mode = n['name'].split('::')[-1]
            if n['k'] == 'ref' and n.get('kind') == 'param':
                data.append(n['name'])
    if len(data) != 1:
        return None
    return data[0], (mode, prec)


SAMPLE_ANGLES = (0.0, 1.0, 10.0, 20.0, 100.0, 1200.0, -30.0, 0.5, 1.5, 20.5, 3.141593, -0.000001, 123456.789, 0.1, 1e-7, 100.01)


def _number_text_table(h):
    """helper std::string h(double): evaluated from its syntax tree on sample angles (K-ABS with the usual string operations);
    the text must be a plain decimal real whose value is the angle rounded to six decimals — what std::to_string prints.
    → (parameter name, [mismatches]) or None when the helper has another shape or uses operations outside the interpreter"""
    import re as _re
    from ..kabs import Interp, Unsupported, OutOfRange
    nums = [p for p in h.params if p['type'] in ('double', 'float', 'const double')]
    if len(nums) != 1 or len(h.params) != 1 or 'string' not in (h.ret or ''):
        return None
    bad = []
    for v in SAMPLE_ANGLES:
        try:
            got = Interp(PROG, {}, max_steps=2000).call_fn(h, [v])
        except OutOfRange as ex:
            bad.append('%r → %s' % (v, ex))
            continue
        except Unsupported:
            return None
        want = float('%f' % v)
        if not (isinstance(got, str) and _re.match(r'^-?\d+(\.\d+)?$', got) and abs(float(got) - want) < 5e-7):
            bad.append('%r printed as "%s"' % (v, got))
    return nums[0]['name'], bad


def _merge(parts):
    out = []
    for p in parts:
        if isinstance(p, str) and out and isinstance(out[-1], str):
            out[-1] += p
        else:
            out.append(p)
    return out


def run(prog, chk):
    global PROG
    PROG = prog
    R = Roles(prog)
    chk.rule('R05.1', 'each simulator operation logs exactly one line (logging on) after checks and mutation; only the simulator writes the log')
    chk.rule('R05.2', 'logged text is the OpenQASM 2.0 statement of the method\'s own mnemonic and parameters')
    chk.rule('R05.3', 'getQasm = header + qreg/creg sized by the qubit count + log in order')
    chk.rule('R05.4', 'operand range test precedes logging')
    chk.rule('R05.5', 'cx rejects identical control and target')
    chk.rule('R05.6', 'CLI writes the same text to <file>.qasm and to stdout; the logged evaluator is the one that is read')
    sim = R.sim_classify()
    ops = R.sim_ops_field
    flag = R.sim_log_flag
    cnt = R.sim_count_field
    amp = R.amp_field
    se = R.sim_ensure()
    mutators = list(sim['gates']) + [sim['reset'], sim['measure']]
    chk.count('simulator operations that must log', len(mutators), 10)
    delegates = set()
    for f0 in mutators:
        f = f0
        g = prog.cfg(f)
        apps = [c for c in g.calls(lambda e: e['k'] == 'mcall' and SX.short(e['callee']) in ('emplace_back', 'push_back') and SX.is_this_member(SX.strip(e.get('obj')), ops))]
        deleg = None
        if not apps:
            # the operation may hand both the state update and the logging to one private helper of the simulator
            # (`void h(int q) { applyNamedGate("h", q, hadamardMatrix()); }`): judge the helper, with the call's arguments
            hs = []
            for cn in g.calls(lambda e: e['k'] == 'mcall' and e.get('callee', '').startswith(R.sim['name'] + '::')):
                for t_ in prog.resolve(cn.e):
                    if t_.body and t_ not in mutators and any(x['k'] == 'mcall' and SX.short(x['callee']) in ('emplace_back', 'push_back') and SX.is_this_member(SX.strip(x.get('obj')), ops)
                                                             for x in SX.walk(t_.body, into_lambdas=False)):
                        hs.append((cn, t_))
            if len(hs) == 1 and g.must_follow(g.entry, [hs[0][0]]) and not [n for n in g.nodes if n.id in g.reachable([hs[0][0]]) and n.kind in ('assign', 'call') and _touches_amp(prog, R, n, amp)]:
                deleg = hs[0]
                delegates.add(deleg[1])
                f = deleg[1]
                g = prog.cfg(f)
                apps = [c for c in g.calls(lambda e: e['k'] == 'mcall' and SX.short(e['callee']) in ('emplace_back', 'push_back') and SX.is_this_member(SX.strip(e.get('obj')), ops))]
        # exactly one append, guarded by the log flag only
        one = len(apps) == 1
        guarded = one and any(pol and SX.is_this_member(SX.strip(ce), flag) for ce, pol, _ in g.guards(apps[0]))
        extra_guards = one and [SX.show(ce) for ce, pol, ed in g.guards(apps[0]) if not SX.is_this_member(SX.strip(ce), flag) and not _is_entry_check(g, ed)]
        # with the flag on, every normal path passes the append
        flag_off = [n for n in g.nodes if n.kind == 'edge' and not n.pol and SX.is_this_member(SX.strip(n.e), flag)]
        on_all = one and g.must_follow(g.entry, apps + flag_off)
        chk.ob('R05.1', f, apps[0].ln if apps else f.ln, one and guarded and on_all,
               '%s: exactly one log append (found %d), under the log switch, on every normal path when logging is on%s' % (f0.short, len(apps), (' (through %s)' % f.short) if deleg else ''),
               key='log-once:' + f0.short)
        if not one:
            continue
        # after mutation: no write to the amplitude vector / call of the applicator after the append
        after = g.reachable(apps)
        late = [n for n in g.nodes if n.id in after and n.kind in ('assign', 'call') and _touches_amp(prog, R, n, amp)]
        chk.ob('R05.1', f, apps[0].ln, not late, '%s logs after the state update (no amplitude access after the append)' % f0.short, key='log-after-update:' + f0.short)
        # R05.4 range test before logging
        rng = _range_checks(prog, R, g, f, cnt, se)
        qparams = [p for p in f.params if p['type'] == 'int']
        for p in qparams:
            ok = any(pid == p['id'] and g.must_precede([n], apps[0]) for pid, n in rng)
            chk.ob('R05.4', f, apps[0].ln, ok, '%s: range test of %s (0 ≤ %s < %s) precedes the log append' % (f.short, p['name'], p['name'], cnt), key='range:%s:%s' % (f0.short, p['name']))
        # R05.2 template
        amap = {}
        if deleg:
            for prm, a_ in zip(f.params, SX.real_args(deleg[0].e)):
                a1 = SX.strip(a_)
                amap[prm['name']] = a1['v'] if SX.is_node(a1) and a1.get('k') == 'str' else ('num', SX.show(a1))

        def resolve_param(e_):
            v_ = amap.get(e_.get('name')) if e_.get('kind') == 'param' else None
            return [v_] if isinstance(v_, str) else None
        try:
            parts = fold_string(SX.real_args(apps[0].e)[0], resolve_param if deleg else None)
        except ValueError as e:
            raise AnalysisBroken('%s: logged text is not a foldable string template: %s' % (f.short, e))
        if deleg:
            parts = _merge([(x[0], amap[x[1]][1]) + tuple(x[2:]) if isinstance(x, tuple) and isinstance(amap.get(x[1]), tuple) else x for x in parts])
        f = f0
        want = _template(f, sim)
        # a formatter other than std::to_string is the same placeholder iff it prints fixed notation with at least six decimals
        bad_tab = [x for x in parts if isinstance(x, tuple) and x[0] == 'numfmt' and x[2][0] == 'text-table']
        if bad_tab:
            chk.ob('R05.2', f, apps[0].ln, False, '%s prints its angle through a text helper that does not preserve the value (to six decimals) for: %s' % (f.short, '; '.join(bad_tab[0][2][1])),
                   key='template-format:' + f.short)
        bad_fmt = [x for x in parts if isinstance(x, tuple) and x[0] == 'numfmt' and x[2][0] != 'text-table' and not (x[2][0] == 'fixed' and (x[2][1] or 0) >= 6)]
        if bad_fmt:
            chk.ob('R05.2', f, apps[0].ln, False,
                   '%s prints its angle in %s notation with precision %s; the listing must carry at least the six decimals of std::to_string in fixed notation '
                   '(significant-digit or scientific output loses decimals for large angles and is not an OpenQASM 2.0 real for small ones)' % (f.short, bad_fmt[0][2][0], bad_fmt[0][2][1]),
                   key='template-format:' + f.short)
        parts = [('num', x[1]) if isinstance(x, tuple) and x[0] == 'numfmt' else x for x in parts]
        chk.ob('R05.2', f, apps[0].ln, parts == want, '%s logs %s; OpenQASM statement is %s' % (f.short, _render(parts), _render(want)), key='template:' + f.short)
    # who writes the log
    writers = set()
    for f in prog.functions:
        if not f.body:
            continue
        for n in SX.walk(f.body, into_lambdas=False):
            if n['k'] == 'mcall' and not n.get('constm', True) and SX.is_node(SX.strip(n.get('obj'))) and SX.strip(n['obj']).get('k') == 'member' \
                    and SX.strip(n['obj']).get('q') == R.sim['name'] + '::' + ops:
                writers.add(f)
            w = SX.write_target(n)
            if w and SX.is_node(SX.strip(w[0])) and SX.strip(w[0]).get('k') == 'member' and SX.strip(w[0]).get('q') == R.sim['name'] + '::' + ops:
                writers.add(f)
    bad = [f.short for f in writers if f not in mutators and f not in delegates]
    chk.ob('R05.1', R.sim['name'], 'qasm_simulator', not bad, 'only the logging operations write the log (others: %s)' % bad, key='log-writers')
    # allocate must not log
    ga = prog.cfg(sim['allocate'])
    chk.ob('R05.1', sim['allocate'], sim['allocate'].ln, not any(True for c in ga.calls(lambda e: e['k'] == 'mcall' and SX.is_this_member(SX.strip(e.get('obj')), ops))),
           'allocation emits no statement (qubits are declared by the register size)', key='alloc-silent', nontrivial=False)

    # ---- R05.3 ---------------------------------------------------------------------------------
    gq = sim['qasm']
    env = {}

    def resolve(ref):
        return env.get(ref.get('id'))
    seq = []
    try:
        for s in gq.body['body']:
            if s['k'] == 'decls':
                for v in s['d']:
                    if v['type'].replace('const ', '') == 'std::string' and v.get('init') is not None:
                        env[v['id']] = fold_string(v['init'], resolve)
                    elif v['type'].replace('const ', '') == 'std::string':
                        env[v['id']] = ['']
                        out_id = v['id']
            elif s['k'] == 'expr':
                e = s['e']
                if e['k'] == 'mcall' and SX.short(e['callee']) == 'append':
                    # `out.append(a).append(b)` appends a, then b
                    chain = []
                    while SX.is_node(e) and e.get('k') == 'mcall' and SX.short(e['callee']) == 'append':
                        chain.append(e)
                        e = SX.strip(e.get('obj'))
                    for c_ in reversed(chain):
                        seq.append(('parts', fold_string(SX.real_args(c_)[0], resolve)))
                elif e['k'] == 'opcall' and e['op'] == '+=':
                    seq.append(('parts', fold_string(e['args'][1], resolve)))
            elif s['k'] == 'for' and s.get('init') and s['init'].get('k') == 'decls' and len(s['init']['d']) == 1:
                # iterator loop over the whole log: for (auto it = ops.begin(); it != ops.end(); ++it) out.append(*it);
                iv = s['init']['d'][0]
                i0 = SX.strip(iv.get('init'))
                cp = SX.cmp_parts(s.get('c')) if SX.is_node(s.get('c')) else None
                w = SX.write_target(s['inc']) if SX.is_node(s.get('inc')) else None
                full = SX.is_node(i0) and i0.get('k') == 'mcall' and SX.short(i0['callee']) in ('begin', 'cbegin') and SX.is_this_member(SX.strip(i0.get('obj')), ops) \
                    and cp and cp[0] == '!=' and SX.strip(cp[1]).get('id') == iv['id'] and SX.is_node(SX.strip(cp[2])) and SX.strip(cp[2]).get('k') == 'mcall' \
                    and SX.short(SX.strip(cp[2])['callee']) in ('end', 'cend') and SX.is_this_member(SX.strip(SX.strip(cp[2]).get('obj')), ops) \
                    and w and w[2] == '++' and SX.strip(w[0]).get('id') == iv['id'] \
                    and not any(x['k'] in ('break', 'continue', 'return') for x in SX.walk(s['body']))
                derefs = [n for n in SX.walk(s['body']) if (n['k'] == 'mcall' and SX.short(n['callee']) == 'append' or (n['k'] == 'opcall' and n['op'] == '+=')) and
                          any((y.get('k') == 'un' and y.get('op') == '*' or y.get('k') == 'opcall' and y.get('op') == '*') and
                              any(z.get('k') == 'ref' and z.get('id') == iv['id'] for z in SX.walk(y)) for y in SX.walk(n))]
                if full and derefs:
                    seq.append(('ops',))
            elif s['k'] == 'forrange':
                rng = SX.strip(s['range'])
                vid = s['var']['id']
                appended = [n for n in SX.walk(s['body']) if (n['k'] == 'mcall' and SX.short(n['callee']) == 'append' and SX.strip(SX.real_args(n)[0]).get('id') == vid)
                            or (n['k'] == 'opcall' and n['op'] == '+=' and SX.strip(n['args'][1]).get('id') == vid)]
                if SX.is_this_member(rng, ops) and appended:
                    seq.append(('ops',))
    except ValueError as e:
        raise AnalysisBroken('getQasm not foldable: %s' % e)
    flat = []
    for it in seq:
        if it[0] == 'parts':
            flat = _merge(flat + it[1])
        else:
            flat.append(('ops',))
    want = [OPEN + 'qreg q[', ('num', cnt), '];\ncreg c[', ('num', cnt), '];\n', ('ops',)]
    chk.ob('R05.3', gq, gq.ln, flat == want, 'getQasm assembles %s; expected %s' % (_render(flat), _render(want)), key='getQasm-template')
    rets = [n for n in SX.walk(gq.body, into_lambdas=False) if n['k'] == 'return']
    chk.ob('R05.3', gq, gq.ln, len(rets) == 1 and SX.is_node(SX.strip(rets[0].get('e'))) and SX.strip(rets[0]['e']).get('k') == 'ref', 'getQasm returns the assembled string', key='getQasm-returns',
           nontrivial=False)

    # ---- R05.5 ---------------------------------------------------------------------------------
    cx = [f for f in sim['gates'] if len([p for p in f.params if p['type'] == 'int']) == 2]
    for f in cx:
        g = prog.cfg(f)
        a, b = [p for p in f.params if p['type'] == 'int']
        apps = [c for c in g.calls(lambda e: e['k'] == 'mcall' and SX.is_this_member(SX.strip(e.get('obj')), ops))]
        eq = [n for n in g.nodes if n.kind == 'cond' and (lambda cp: cp and cp[0] in ('==', '!=') and {SX.strip(cp[1]).get('id'), SX.strip(cp[2]).get('id')} == {a['id'], b['id']})(SX.cmp_parts(n.e))]
        ok = False
        for c in eq:
            cp = SX.cmp_parts(c.e)
            same = c.succ[0] if cp[0] == '==' else c.succ[1]
            r = g.reachable([same])
            if g.exit.id not in r and any(g.nodes[i].kind == 'throw' for i in r) and all(g.must_precede([c], x) for x in apps):
                ok = True
        chk.ob('R05.5', f, f.ln, ok, '%s(control, target) must reject control == target before it logs (a two-qubit gate on one qubit is ill-formed OpenQASM)' % f.short, key='distinct:' + f.short)
    # evaluator side: located error
    ev = R.ev_method('eval')
    g = prog.cfg(ev)
    for c in g.calls(lambda e: R.is_sim_call(e, [f.short for f in cx])):
        a0, a1 = [SX.show(x) for x in SX.real_args(c.e)[:2]]
        conds = [n for n in g.nodes if n.kind == 'cond' and (lambda cp: cp and cp[0] in ('==', '!=') and {SX.show(SX.strip(cp[1])), SX.show(SX.strip(cp[2]))} == {a0, a1})(SX.cmp_parts(n.e))]
        ok = bool(conds) and g.must_precede(conds, c)
        chk.ob('R05.5', ev, c.ln, ok, 'the evaluator rejects cx on identical operands with a located error before calling the simulator', key='distinct:evaluator', nontrivial=True)

    # ---- R05.6 ---------------------------------------------------------------------------------
    _cli_rule(prog, chk, R)
    _one_simulator_per_run(prog, chk, R, mutators)
    _named_gates(prog, chk, R)



def _one_simulator_per_run(prog, chk, R, mutators):
    """R05.3 — the log that is read holds every operation of the run: the evaluator's simulator object is replaced whole only where no
    operation of the run can have been logged yet (before the first call that can reach a simulator operation, in a function the
    program's own code cannot re-enter)."""
    simf = R.ev_sim_field
    touch = {id(m): m for m in mutators}
    work = list(mutators)
    while work:
        t = work.pop()
        for c_, _n in prog.callers(t):
            if id(c_) not in touch:
                touch[id(c_)] = c_
                work.append(c_)
    ex, ev = R.ev_method('exec'), R.ev_method('eval')
    inner = {id(x) for x in prog.reach([ex, ev])}
    def first_touch(f, node, depth):
        """a call that can reach a simulator operation and may run before `node` of f in the same run — in f itself, or before the call of
        f in one of its callers (a replacement moved into a `resetRunState()` helper is judged where the helper is called)"""
        g = prog.cfg(f)
        before = g.reachable([node], forward=False)
        early = [c for c in g.nodes if c.id in before and c.kind == 'call' and SX.is_node(c.e) and c.e.get('k') in ('call', 'mcall') and c is not node
                 and any(id(t) in touch for t in prog.resolve(c.e))]
        if early:
            return f, early[0]
        if depth == 0:
            return None
        for cf, cn in prog.callers(f):
            if not cf.body or not cf.name.startswith(R.ev['name'] + '::'):
                continue
            gc_ = prog.cfg(cf)
            at = [x for x in gc_.nodes if x.kind == 'call' and x.e is cn]
            if not at:
                at = [x for x in gc_.nodes if SX.is_node(x.e) and any(y is cn for y in SX.walk(x.e, into_lambdas=False))]
            for a_ in at[:1]:
                r_ = first_touch(cf, a_, depth - 1)
                if r_:
                    return r_
        return None
    n = 0
    for f in prog.functions:
        if not f.body or not f.name.startswith(R.ev['name'] + '::') or f.kind == 'ctor':
            continue
        if not any(SX.is_this_member(m_, simf) for m_ in SX.walk(f.body, into_lambdas=False) if m_.get('k') == 'member'):
            continue
        g = prog.cfg(f)
        for w, l, r, op in g.writes():
            if not SX.is_this_member(SX.strip(l), simf):
                continue
            n += 1
            early = first_touch(f, w, 3)
            chk.ob('R05.3', f, w.ln, id(f) not in inner and not early,
                   'the simulator is replaced whole only before anything of the run can have been logged: %s is not re-entered by program code, and no call before the replacement reaches a '
                   'simulator operation%s' % (f.short, (' (%s line %s does)' % (early[0].short, early[1].ln)) if early else ''), key='fresh-simulator:' + f.short)
    chk.count('whole-simulator replacements', n, 1)


def _is_entry_check(g, edge):
    return False


def _touches_amp(prog, R, n, amp):
    e = n.e
    if not SX.is_node(e):
        return False
    w = SX.write_target(e)
    if w:
        root, names = SX.member_chain(w[0])
        if names[:1] == [amp]:
            return True
    if e.get('k') == 'mcall' and e['callee'].startswith(R.sim['name'] + '::') and SX.short(e['callee']) not in ('ensureQubitActive',):
        for t in prog.resolve(e):
            if R._writes_amp(t):
                return True
    if e.get('k') == 'call' and SX.short(e.get('callee', '')) == 'swap':
        return any(SX.member_chain(a)[1][:1] == [amp] for a in e['args'])
    return False


def _range_checks(prog, R, g, f, cnt, se):
    """[(param id, cfg node)] nodes that establish 0 ≤ p < count for parameter p (own test that throws, or the guard function)"""
    out = []
    for c in g.calls(lambda e: e['k'] == 'mcall'):
        # calls that (transitively, within the simulator) range-check their argument
        for t in prog.resolve(c.e):
            if t.cls == R.sim['name'] and t.body:
                for i, prm in enumerate(t.params):
                    if prm['type'] == 'int' and _fn_range_checks(prog, R, t, prm, cnt, depth=2):
                        a = SX.real_args(c.e)
                        if i < len(a) and SX.is_node(SX.strip(a[i])) and SX.strip(a[i]).get('kind') == 'param':
                            out.append((SX.strip(a[i])['id'], c))
    for p in f.params:
        if p['type'] == 'int':
            n = _own_range_test(g, p, cnt)
            if n is not None:
                out.append((p['id'], n))
    return out


def _own_range_test(g, p, cnt):
    lo = hi = None
    for c in g.nodes:
        if c.kind != 'cond':
            continue
        cp = SX.cmp_parts(c.e)
        if not cp or SX.strip(cp[1]).get('id') != p['id']:
            continue
        rhs = SX.strip(cp[2])
        bad_edge = None
        if cp[0] == '<' and rhs.get('v') == 0:
            bad_edge, which = c.succ[0], 'lo'
        elif cp[0] == '>=' and SX.is_this_member(rhs, cnt):
            bad_edge, which = c.succ[0], 'hi'
        else:
            continue
        r = g.reachable([bad_edge])
        if g.exit.id not in r and any(g.nodes[i].kind == 'throw' for i in r):
            if which == 'lo':
                lo = c
            else:
                hi = c
    return hi if (lo is not None and hi is not None) else None


def _fn_range_checks(prog, R, t, prm, cnt, depth):
    g = prog.cfg(t)
    if _own_range_test(g, prm, cnt) is not None and g.must_follow(g.entry, [_own_range_test(g, prm, cnt)]):
        return True
    if depth <= 0:
        return False
    for c in g.calls(lambda e: e['k'] == 'mcall'):
        for u in prog.resolve(c.e):
            if u.cls == R.sim['name'] and u.body and u is not t:
                for i, q in enumerate(u.params):
                    a = SX.real_args(c.e)
                    if q['type'] == 'int' and i < len(a) and SX.strip(a[i]).get('id') == prm['id'] and _fn_range_checks(prog, R, u, q, cnt, depth - 1) \
                            and g.must_follow(g.entry, [c]):
                        return True
    return False


def _template(f, sim):
    ints = [p['name'] for p in f.params if p['type'] == 'int']
    dbls = [p['name'] for p in f.params if p['type'] == 'double']
    n = f.short
    if f is sim['measure']:
        return ['measure q[', ('num', ints[0]), '] -> c[', ('num', ints[0]), '];\n']
    if f is sim['reset']:
        return ['reset q[', ('num', ints[0]), '];\n']
    if len(ints) == 2:
        return [n + ' q[', ('num', ints[0]), '],q[', ('num', ints[1]), '];\n']
    if dbls:
        return [n + '(', ('num', dbls[0]), ') q[', ('num', ints[0]), '];\n']
    return [n + ' q[', ('num', ints[0]), '];\n']


def _render(parts):
    return ''.join(p.replace('\n', '\\n') if isinstance(p, str) else ('{%s}' % (p[1] if len(p) > 1 else p[0])) for p in parts)


def _cli_rule(prog, chk, R):
    from .C17 import cli_run_function
    f = cli_run_function(prog, 'getQasm')      # with file-local helpers (runMultiShot, writeQasmFile, …) inlined: K-NORM
    g = prog.cfg(f)
    gets = [c for c in g.calls(lambda e: e['k'] == 'mcall' and SX.short(e['callee']) == 'getQasm')]
    chk.count('getQasm call sites in the CLI', len(gets), 2)
    # the variable(s) holding the listing: assigned from, or initialised with, a getQasm() result
    def hkey(e):
        """a local variable, or a field of a local record (`result.qasm` of a `ShotsResult result`)"""
        e = SX.strip(e)
        if SX.is_node(e) and e.get('k') == 'ref' and e.get('id'):
            return e['id']
        if SX.is_node(e) and e.get('k') == 'member' and not e.get('arrow') and SX.is_node(SX.strip(e.get('base'))) and SX.strip(e['base']).get('k') == 'ref' and SX.strip(e['base']).get('id'):
            return (SX.strip(e['base'])['id'], e.get('name'))
        return None
    holders = set()
    for n, l, r, op in g.writes():
        if any(x is c.e for c in gets for x in SX.walk(r)) and hkey(l) is not None:
            holders.add(hkey(l))
    for d in g.nodes:
        if d.kind == 'decl' and SX.is_node(d.e.get('init')) and any(x is c.e for c in gets for x in SX.walk(d.e['init'])):
            holders.add(d.e['id'])
    if not holders or len(holders) > len(gets):
        raise AnalysisBroken('the listing is not held in variables assigned from getQasm() (%d)' % len(holders))
    # stream insertions of those variables
    outs = []
    for c in g.calls(lambda e: e['k'] == 'opcall' and e['op'] == '<<' and len(e['args']) == 2 and hkey(e['args'][1]) in holders):
        sink = SX.strip(c.e['args'][0])
        kind = 'stdout' if SX.show(sink).endswith('cout') else ('file' if 'ofstream' in sink.get('t', '') else 'other')
        outs.append((c, kind, hkey(c.e['args'][1])))
    files = [c for c, k, h in outs if k == 'file']
    stds = [c for c, k, h in outs if k == 'stdout']
    chk.ob('R05.6', f, f.ln, len(files) >= 2 and len(stds) >= 2, 'both CLI branches stream the listing variable to the .qasm file and (under --emit-qasm) to stdout: file=%d stdout=%d' % (len(files), len(stds)),
           key='same-variable')
    # no write to the variable between the file write and the stdout write (and it is the same variable)
    for i, (s, k, hid) in enumerate([o for o in outs if o[1] == 'stdout']):
        wr = [n for n, l, r, op in g.writes() if hkey(l) == hid or (isinstance(hid, tuple) and hkey(l) == hid[0])]
        pre = [x for x, k2, h2 in outs if k2 == 'file' and h2 == hid and g.dominates(x, s)]
        ok = bool(pre) and not any(w.id in g.reachable([pre[-1]], avoid=[s]) and s.id in g.reachable([w]) for w in wr)
        chk.ob('R05.6', f, s.ln, ok, 'stdout receives the same value that was written to the file (same variable, no assignment in between)', key='no-rewrite#%d' % i)
    # multi-shot: the evaluator constructed with logging on is the one that is read
    for c in gets:
        obj = SX.strip(c.e['obj'])
        decl = [d for d in g.nodes if d.kind == 'decl' and d.e.get('id') == obj.get('id')]
        if not decl:
            continue
        init = SX.strip(decl[0].e.get('init'))
        a = SX.real_args(init) if SX.is_node(init) and init.get('k') == 'construct' else []
        if not a:
            chk.ob('R05.6', f, c.ln, True, 'single run: evaluator constructed with default logging', key='logged-evaluator:single', nontrivial=False)
            continue
        ctor_cond = SX.show(a[0])
        gs = [SX.show(ce) for ce, pol, _ in g.guards(c) if pol]
        chk.ob('R05.6', f, c.ln, ctor_cond in gs, 'multi-shot: the listing is read from the evaluator under the same condition `%s` that switched its logging on (guards: %s)' % (ctor_cond, gs[:2]),
               key='logged-evaluator:multi')


def _named_gates(prog, chk, R):
    """The listing names each operation by its mnemonic; replaying it gives the simulator's state only if the state change the
    simulator performed under that name *is* the named gate.  That is property C01's content; its structural rules (matrices,
    pair update, cx index algebra, loop nests) are evaluated here as one obligation of C05, so that a change which makes e.g.
    `cx` skip part of the register — while still logging `cx q[c],q[t];` — is reported for the listing as well."""
    from . import C01 as _C01
    from .C03 import _Sub
    sub = _Sub(chk)
    sub.vacuous = []
    try:
        _C01.run(prog, sub)
    except AnalysisBroken as e:
        # C01's own check reports that it cannot read this form; the listing rules above stand on their own
        chk.note('gate semantics (C01 rules) not evaluated for the listing: %s' % e)
        return
    rel = [o for o in sub.obs if o[0] in ('R01.1', 'R01.2', 'R01.3', 'R01.5')]
    bad = [o for o in rel if not o[3]]
    chk.ob('R05.2', R.sim['name'], 'qasm_simulator', not bad and len(rel) >= 10,
           'the state change logged under each mnemonic is the named gate (C01 rules R01.1–R01.3, R01.5: %d obligations)%s' % (
               len(rel), '' if not bad else '; first failing: %s [%s] %s' % (bad[0][0], bad[0][5], str(bad[0][4])[:160])), key='named-gate-semantics')
