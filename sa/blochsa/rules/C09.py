"""C09 — scoping is lexical: a callee never sees or changes its caller's locals.

The runtime keeps one scope stack for all active calls.  Lexical behaviour therefore needs (a) every
by-name walk of the stack to stop at a frame boundary, and (b) every function that starts a new
activation (binds `this`/parameters into a fresh scope) to move that boundary to its own first scope and
restore the caller's boundary on every exit.  Both are visible in the shape of the code."""
from .. import sx as SX
from ..facts import AnalysisBroken
from ..roles import Roles

EXPLANATION = (
    "Frame-boundary discipline of the runtime scope stack, decided structurally: (R09.1a) every loop that resolves a name by "
    "walking the scope stack (find(name) per scope) is bounded by a frame-base member M (stack.rend() - M); (R09.1b) every "
    "frame-entry function (binds `this` or declared parameters into the newest scope) sets M to the index of the scope it just "
    "pushed — through an RAII guard whose constructor stores and whose destructor restores M, or through an explicit "
    "save/assign/restore on all normal exits — before it evaluates or executes anything; (R09.1c) nothing else writes M. "
    "Without (a) or (b) an unresolved bare name in a callee finds the caller's local before the field the analyser bound it to. "
    "No program is executed; the alpha-renaming quantifier is discharged by the absence of any path on which caller scopes are searched.")


def _env_field(R):
    c = [f['name'] for f in R.ev['fields'] if f['type'].startswith('std::vector<std::unordered_map<std::string') and 'VarEntry' in f['type']]
    if len(c) != 1:
        raise AnalysisBroken('scope stack member not resolved')
    return c[0]


def _mentions_env(e, env):
    return any(SX.is_this_member(x, env) for x in SX.walk(e))


def _guard_records(prog):
    """Records usable as frame guards: one reference field r and one value field s; a constructor that binds r to its
    reference parameter, saves r into s and assigns the new base through r; a destructor that assigns s back through r."""
    out = {}
    for name, rec in prog.facts.records.items():
        refs = [f for f in rec['fields'] if f['type'].endswith('&')]
        if len(refs) != 1:
            continue
        r = refs[0]['name']
        ctors = [f for f in prog.methods_of(name) if f.kind == 'ctor']
        dtors = [f for f in prog.methods_of(name) if f.kind == 'dtor']
        if len(ctors) != 1 or len(dtors) != 1:
            continue
        c, d = ctors[0], dtors[0]
        inits = {i.get('member'): i['init'] for i in c.d.get('inits', [])}
        ref_param = None
        if r in inits and SX.is_node(inits[r]) and inits[r]['k'] == 'ref' and inits[r].get('kind') == 'param':
            ref_param = inits[r]['id']
        saved = [m for m, e in inits.items() if m != r and SX.is_node(e) and e['k'] == 'ref' and e.get('id') == ref_param]
        if ref_param is None or len(saved) != 1:
            continue
        s = saved[0]
        # ctor body: r = <base param>
        base_param = None
        for n in SX.walk(c.body):
            w = SX.write_target(n)
            if w and SX.is_this_member(SX.strip(w[0]), r) and SX.is_node(w[1]) and w[1]['k'] == 'ref' and w[1].get('kind') == 'param':
                base_param = w[1]['id']
        if base_param is None:
            continue
        restores = any((lambda w: w and SX.is_this_member(SX.strip(w[0]), r) and SX.is_this_member(SX.strip(w[1]), s))(SX.write_target(n))
                       for n in SX.walk(d.body))
        if not restores:
            continue
        pidx = [i for i, p in enumerate(c.params) if p['id'] == ref_param][0]
        bidx = [i for i, p in enumerate(c.params) if p['id'] == base_param][0]
        out[name] = (pidx, bidx)
    return out


def run(prog, chk):
    R = Roles(prog)
    env = _env_field(R)
    evfns = [f for f in R.ev_methods() if f.body]
    chk.rule('R09.1a', 'every by-name walk of the scope stack stops at the frame-base marker')
    chk.rule('R09.1b', 'every frame-entry function moves the frame base to its own scope before evaluating anything and restores it on all exits')
    chk.rule('R09.1c', 'the frame-base marker is written only by frame guards / frame entries')
    chk.rule('R09.1d', 'every switch of the lexical class context is followed by its own frame boundary before user code is evaluated')

    # ---- by-name walks ----------------------------------------------------------------------
    walks = []
    for f in evfns:
        for n in SX.walk(f.body, into_lambdas=False):
            if n['k'] in ('for', 'forrange', 'while'):
                hdr = [n.get('init'), n.get('c'), n.get('range')]
                if not any(h is not None and _mentions_env(h, env) for h in hdr):
                    continue
                finds = [x for x in SX.walk(n['body'], into_lambdas=False)
                         if x['k'] == 'mcall' and SX.short(x['callee']) in ('find', 'count', 'at', 'contains')
                         and 'unordered_map<std::string' in x.get('ot', '')]
                if finds:
                    walks.append((f, n, finds))
    chk.count('by-name scope walks', len(walks), 2)
    markers = set()
    for f, loop, finds in walks:
        ok = False
        m = None
        why = 'loop bound does not involve a frame-base member'
        if loop['k'] == 'for' and SX.is_node(loop.get('c')):
            cp = SX.cmp_parts(loop['c'])
            c = {'op': cp[0]} if cp else {}
            # it != env.rend() - M        (reverse walk from the newest scope)
            for b in (cp[1:] if cp else ()):
                b = SX.strip(b) if b is not None else None
                if SX.is_node(b) and b['k'] in ('opcall', 'bin') and b.get('op') == '-':
                    a0, a1 = (b['args'] if b['k'] == 'opcall' else (b['l'], b['r']))
                    a0, a1 = SX.strip(a0), SX.strip(a1)
                    while SX.is_node(a1) and a1['k'] == 'cast':
                        a1 = a1['e']
                    if SX.is_node(a0) and a0['k'] == 'mcall' and SX.short(a0['callee']) == 'rend' and SX.is_this_member(a0['obj'], env) \
                            and SX.is_this_member(a1) and a1['name'] != env:
                        init_ok = any(x['k'] == 'mcall' and SX.short(x['callee']) == 'rbegin' and SX.is_this_member(x['obj'], env)
                                      for x in SX.walk(loop.get('init')))
                        if init_ok and c.get('op') == '!=':
                            ok, m = True, a1['name']
        if loop['k'] == 'forrange':
            why = 'range-for over the whole scope stack'
        chk.ob('R09.1a', f, loop.get('ln', f.ln), ok,
               'name lookup in %s walks %s: %s' % (f.short, env, 'bounded by ' + m if ok else why), key='walk:%s:%s' % (f.short, SX.show(finds[0]['args'][0] if finds[0]['args'] else finds[0])[:20]))
        if m:
            markers.add(m)
    if len(markers) > 1:
        raise AnalysisBroken('several frame-base markers: %s' % sorted(markers))
    if not markers:
        # no walk is bounded: the violations above are the verdict; frame-entry obligations cannot be stated without a marker
        cand = [f['name'] for f in R.ev['fields'] if 'frame' in f['name'].lower()]
        if not cand:
            return
        markers = {cand[0]}
    M = next(iter(markers))

    # ---- frame entries -----------------------------------------------------------------------
    guards = _guard_records(prog)
    begin = [f for f in evfns if f.short == 'beginScope']
    push_fns = {f.key for f in evfns if any(x['k'] == 'mcall' and SX.short(x['callee']) in ('push_back', 'emplace_back') and SX.is_this_member(x.get('obj'), env)
                                           for x in SX.walk(f.body)) and len(f.params) == 0}
    entries = []
    for f in evfns:
        binds = []
        for n in SX.walk(f.body, into_lambdas=False):
            w = SX.write_target(n)
            if not w:
                continue
            l = SX.strip(w[0])
            if SX.is_node(l) and l['k'] == 'index' and SX.is_node(l['base']) and l['base']['k'] == 'mcall' and SX.short(l['base']['callee']) == 'back' \
                    and SX.is_this_member(l['base']['obj'], env):
                key = l['i']
                is_this = SX.is_node(key) and ((key['k'] == 'str' and key['v'] == 'this') or (key['k'] == 'construct' and any(
                    a.get('k') == 'str' and a.get('v') == 'this' for a in key['args'] if SX.is_node(a))))
                is_param = any(x['k'] == 'member' and x['name'] == 'params' for x in SX.walk(key))
                if is_this or is_param:
                    binds.append(n)
        if binds:
            entries.append((f, binds))
    chk.count('frame-entry functions', len(entries), 5)
    for f, binds in entries:
        g = prog.cfg(f)
        bind_nodes = [cn for cn in g.nodes if cn.kind in ('assign', 'call') and any(cn.e is b for b in binds)]
        evals = [cn for cn in g.calls(lambda e: e['k'] == 'mcall' and SX.short(e['callee']) in ('exec', 'eval') and e['callee'].startswith(R.ev['name']))]
        pushes = [cn for cn in g.calls(lambda e: e['k'] == 'mcall' and (e['callee'] + e.get('sig', '')) in push_fns)]
        # a frame set: guard variable constructed with (M, base) or assignment M = base
        sets = []
        for cn in g.nodes:
            if cn.kind == 'decl' and SX.is_node(cn.e.get('init')) and cn.e['init']['k'] == 'construct' and cn.e['init']['type'] in guards:
                pidx, bidx = guards[cn.e['init']['type']]
                a = cn.e['init']['args']
                if pidx < len(a) and SX.is_this_member(SX.strip(a[pidx]), M):
                    sets.append((cn, a[bidx], 'guard'))
            if cn.kind == 'assign' and SX.is_this_member(SX.strip(cn.e['l']), M):
                sets.append((cn, cn.e['r'], 'assign'))
        for b in bind_nodes:
            # the binding's scope push and the frame set must both precede the first evaluation after the binding
            after = g.reachable([b])
            ev_after = [e for e in evals if e.id in after]
            push_before = [p for p in pushes if g.dominates(p, b)]
            mine = [s for s in sets if push_before and g.dominates(push_before[0], s[0]) and
                    (g.dominates(s[0], b) or all(g.must_precede([s[0]], e) for e in ev_after))]
            # (the set may come after the push and before or after the binding, but before anything is evaluated)
            mine = [s for s in mine if all(_not_between(g, push_before[0], s[0], evals) for _ in [0])]
            ok = bool(push_before) and bool(mine)
            detail = 'binding %s in a new scope needs the frame base moved to that scope first' % SX.show(SX.write_target(b.e)[0])[:40]
            if ok:
                s = mine[0]
                val_ok = _is_size_minus(s[1], env, 1)
                rest_ok = True
                if s[2] == 'assign':
                    rest = [cn for cn in g.nodes if cn.kind == 'assign' and SX.is_this_member(SX.strip(cn.e['l']), M) and cn is not s[0]]
                    rest_ok = bool(rest) and g.must_follow(s[0], rest)
                ok = val_ok and rest_ok
                if not val_ok:
                    detail = 'frame base must be the index of the scope just pushed (%s.size() - 1), found %s' % (env, SX.show(s[1])[:40])
                elif not rest_ok:
                    detail = 'frame base assigned without restore on every normal exit'
            chk.ob('R09.1b', f, b.ln, ok, detail, key='entry:%s:%s' % (f.short, _bind_key(b)))
    # ---- other frame sets must be well-formed too (e.g. an empty frame for static initialisers) ----
    for f in evfns:
        g = None
        for n in SX.walk(f.body, into_lambdas=False):
            if n['k'] == 'var' and SX.is_node(n.get('init')) and n['init']['k'] == 'construct' and n['init']['type'] in guards:
                pidx, bidx = guards[n['init']['type']]
                a = n['init']['args']
                if pidx < len(a) and SX.is_this_member(SX.strip(a[pidx]), M):
                    ok = _is_size_minus(a[bidx], env, 1) or _is_size_minus(a[bidx], env, 0)
                    chk.ob('R09.1c', f, n.get('ln', f.ln), ok, 'frame guard base must be %s.size() or %s.size()-1, found %s' % (env, env, SX.show(a[bidx])[:40]),
                           key='guard-base:' + f.short, nontrivial=False)
    # ---- R09.1d: a lexical-context switch needs its own frame boundary before anything is evaluated -----------------
    ctx = [f_['name'] for f_ in R.ev['fields'] if f_['type'].endswith('RuntimeClass *') and 'ctx' in f_['name'].lower()]
    nsw = 0
    if len(ctx) == 1:
        ctx = ctx[0]
        for f in evfns:
            if f.kind == 'lambda':
                continue
            g = prog.cfg(f)
            saved = {d.e['id'] for d in g.nodes if d.kind == 'decl' and SX.is_this_member(SX.strip(d.e.get('init')), ctx)}
            switches = [n for n, l, r, op in g.writes() if SX.is_this_member(SX.strip(l), ctx) and not
                        (SX.is_node(SX.strip(r)) and SX.strip(r).get('k') == 'ref' and SX.strip(r).get('id') in saved) and SX.strip(r).get('k') != 'nullptr']
            from ..kguard import virtual_writes as _vw
            switches += [n for n, m_, v_, rst in _vw(prog, f, g) if m_ == ctx]
            if not switches:
                continue
            evals = [cn for cn in g.calls(lambda e: e['k'] == 'mcall' and SX.short(e['callee']) in ('exec', 'eval') and e['callee'].startswith(R.ev['name']))]
            sets = []
            for cn in g.nodes:
                if cn.kind == 'decl' and SX.is_node(cn.e.get('init')) and cn.e['init']['k'] == 'construct' and cn.e['init']['type'] in guards:
                    pidx, bidx = guards[cn.e['init']['type']]
                    a = cn.e['init']['args']
                    if pidx < len(a) and SX.is_this_member(SX.strip(a[pidx]), M):
                        sets.append(cn)
                if cn.kind == 'assign' and SX.is_this_member(SX.strip(cn.e['l']), M):
                    sets.append(cn)
            for w in switches:
                after = g.reachable([w], avoid=sets)
                leak = [e for e in evals if e.id in after]
                if not [e for e in evals if e.id in g.reachable([w])]:
                    continue
                nsw += 1
                chk.ob('R09.1d', f, w.ln or f.ln, not leak,
                       '%s switches the lexical class context (%s) and then evaluates user code: a frame boundary must be set after the switch and before the evaluation, '
                       'on every path and for every iteration — otherwise the body sees the locals of whoever triggered it (or of the previous level) before its own fields%s' % (
                           f.short, SX.show(w.e)[:50], '' if not leak else '; reaches %s without one' % SX.show(leak[0].e)[:40]), key='ctx-switch:%s' % f.short)
    chk.count('class-context switches followed by evaluation', nsw, 4)

    # ---- R09.3: no scope outlives the statement or call that opened it (C07's R07.3, an obligation of lexical scoping too) ----
    from .C07 import scope_pairing
    scope_pairing(prog, chk, R, 'R09.3')

    # ---- R09.2: interpreter context is restored when an activation ends ----------------------------------------------
    chk.rule('R09.2', 'every activation that changes the lexical context (class context, static/constructor/destructor mode) saves it first and restores it on every normal exit')
    ctx_members = [f_['name'] for f_ in R.ev['fields'] if (f_['type'].endswith('RuntimeClass *') and 'ctx' in f_['name'].lower()) or
                   (f_['type'] == 'bool' and f_['name'].lower().startswith('m_in'))]
    nsr = 0
    from ..kguard import Guards
    guards_all = set(Guards(prog).recs)
    for f in evfns:
        if f.kind == 'lambda' or f.short in ('execute',):
            continue
        g = None
        for M_ in ctx_members:
            ws = [n for n in SX.walk(f.body, into_lambdas=False) if (lambda w: w and SX.is_this_member(SX.strip(w[0]), M_))(SX.write_target(n))]
            if not ws and not any(v['k'] == 'var' and SX.is_node(v.get('init')) and SX.strip(v['init']).get('k') == 'construct' and SX.strip(v['init']).get('type') in guards_all
                                  for v in SX.walk(f.body, into_lambdas=False)):
                continue
            g = g or prog.cfg(f)
            from ..kguard import virtual_writes
            vws = [(n, v_, rst) for n, m_, v_, rst in virtual_writes(prog, f, g) if m_ == M_]
            saves = [d for d in g.nodes if d.kind == 'decl' and SX.is_this_member(SX.strip(d.e.get('init')), M_)]
            saved_ids = {d.e['id'] for d in saves}
            writes = [(n, SX.strip(r)) for n, l, r, op in g.writes() if SX.is_this_member(SX.strip(l), M_)]
            sets = [n for n, r in writes if not (SX.is_node(r) and r.get('k') == 'ref' and r.get('id') in saved_ids)]
            restores = [n for n, r in writes if SX.is_node(r) and r.get('k') == 'ref' and r.get('id') in saved_ids]
            if not sets and vws:
                nsr += 1
                chk.ob('R09.2', f, vws[0][0].ln or f.ln, all(rst for _, _, rst in vws), '%s changes %s under a scope guard whose destructor restores it' % (f.short, M_),
                       key='ctx-restore:%s:%s' % (f.short, M_))
                continue
            if not sets:
                continue
            nsr += 1
            # an RAII guard (reference member bound to M, saved copy, destructor assigns it back) is the same discipline
            raii = [cn for cn in g.nodes if cn.kind == 'decl' and SX.is_node(cn.e.get('init')) and cn.e['init'].get('k') == 'construct' and cn.e['init'].get('type') in guards
                    and guards[cn.e['init']['type']][0] < len(cn.e['init'].get('args', [])) and SX.is_this_member(SX.strip(cn.e['init']['args'][guards[cn.e['init']['type']][0]]), M_)]
            if raii and all(g.must_precede(raii, x) or x in raii for x in sets):
                chk.ob('R09.2', f, sets[0].ln or f.ln, True, '%s changes %s under a scope guard that restores it' % (f.short, M_), key='ctx-restore:%s:%s' % (f.short, M_))
                continue
            ok_save = bool(saves) and all(g.must_precede(saves, x) for x in sets)
            ok_rest = bool(restores) and all(g.must_follow(x, restores) for x in sets)
            chk.ob('R09.2', f, sets[0].ln or f.ln, ok_save and ok_rest,
                   '%s changes %s: saved before the change (%s) and restored on every normal exit (%s) — otherwise the caller continues in the callee\'s lexical context and its bare '
                   'names resolve in the wrong class' % (f.short, M_, ok_save, ok_rest), key='ctx-restore:%s:%s' % (f.short, M_))
    chk.count('context changes with save/restore obligations', nsr, 10)

    # ---- writers of M ------------------------------------------------------------------------
    nW = 0
    for f in prog.functions:
        if not f.body:
            continue
        for n in SX.walk(f.body, into_lambdas=False):
            w = SX.write_target(n)
            if w and SX.is_node(SX.strip(w[0])) and SX.strip(w[0])['k'] == 'member' and SX.strip(w[0])['name'] == M \
                    and SX.strip(w[0]).get('q', '').startswith(R.ev['name']):
                nW += 1
                ok = any(f is e for e, _ in entries)
                chk.ob('R09.1c', f, n.get('ln', f.ln), ok, 'write to %s outside a frame-entry function' % M, key='writer:' + f.short)
            if n['k'] == 'un' and n['op'] == '&' and SX.is_this_member(SX.strip(n['e']), M):
                chk.ob('R09.1c', f, n.get('ln', f.ln), False, 'address of %s taken' % M, key='addr:' + f.short)
    chk.extra['frame_marker'] = M
    chk.extra['guard_records'] = sorted(guards)
    if not guards and nW == 0 and not chk.failures:
        raise AnalysisBroken('frame marker %s has neither guard records nor direct writers' % M)


def _not_between(g, push, s, evals):
    """no evaluation between the scope push and the frame set"""
    r = g.reachable([push], avoid=[s])
    return not any(e.id in r and g.dominates(push, e) and s.id in g.reachable([e]) and _strictly_between(g, push, e, s) for e in evals)


def _strictly_between(g, a, x, b):
    return g.dominates(a, x) and g.dominates(x, b)


def _is_size_minus(e, env, k):
    e = SX.strip(e)
    while SX.is_node(e) and e['k'] == 'cast':
        e = e['e']
    if k == 0:
        return SX.is_node(e) and e['k'] == 'mcall' and SX.short(e['callee']) == 'size' and SX.is_this_member(e['obj'], env)
    if SX.is_node(e) and e['k'] == 'bin' and e['op'] == '-':
        r = e['r']
        while SX.is_node(r) and r['k'] == 'cast':
            r = r['e']
        return _is_size_minus(e['l'], env, 0) and SX.is_node(r) and r['k'] == 'int' and r['v'] == k
    return False


def _bind_key(b):
    l = SX.strip(SX.write_target(b.e)[0])
    k = l['i']
    if SX.is_node(k) and k['k'] in ('str',):
        return k['v']
    if SX.is_node(k) and k['k'] == 'construct':
        return 'this'
    return 'params'
