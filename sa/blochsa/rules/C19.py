"""C19 — imports resolve deterministically, load once, detect cycles, check packages."""
from .. import sx as SX
from ..facts import AnalysisBroken

EXPLANATION = (
    "Typestate and ordering rules of the module loader, decided on all CFG paths: (R19.1) loadModule canonicalises first; the cycle "
    "test on the DFS stack (throwing a Semantic error) precedes the cache test, which precedes the stack push, the parse and every "
    "recursive load; every recursive load is followed by the package comparison whose mismatch can only throw; the cache insert and "
    "the load-order push come strictly after the import loop (post-order: dependencies first, and a cycle can never be masked by a "
    "premature cache hit); the stack push is popped on every normal path; (R19.2) the merged program is built by iterating the "
    "load-order vector, never the hash cache; (R19.3) the two resolvers build the same ordered root list — importing directory, "
    "search paths, working directory, with search paths first exactly when the first component is `bloch` — and take the first hit; "
    "(R19.4) wildcard listings are filtered to .bloch and sorted before use; (R19.5) zero and multiple mains each reach a Semantic "
    "throw before the merged program is returned. Which concrete file wins in a concrete tree is filesystem behaviour and not decided.")


def _m(e, name):
    return SX.is_this_member(SX.strip(e), name)


def run(prog, chk):
    chk.rule('R19.1', 'loadModule typestate: canonicalise → cycle test → cache test → push → parse → (load; package check)* → cache insert, order push → pop')
    chk.rule('R19.2', 'merged program is assembled in load order (vector), not from the hash cache')
    chk.rule('R19.3', 'both resolvers use the documented ordered roots and take the first hit')
    chk.rule('R19.4', 'wildcard directory listings are filtered to .bloch and sorted')
    chk.rule('R19.5', 'main count 0 and >1 are Semantic errors')
    from ..kcanon import inline_closures
    # a loadModule split into local closures (`auto loadSymbolImport = [&](…) {…}; … loadSymbolImport(*imp);`) is analysed with
    # those closures inlined at their call statements
    lm = inline_closures(prog, prog.fn('ModuleLoader::loadModule'))
    ld = prog.fn('ModuleLoader::load')
    rec = prog.record('ModuleLoader')
    fields = {f['name']: f['type'] for f in rec['fields']}
    cache = [n for n, t in fields.items() if t.startswith('std::unordered_map<std::string') and 'Program' in t]
    vecs = [n for n, t in fields.items() if t == 'std::vector<std::string>']
    if len(cache) != 1 or len(vecs) < 3:
        raise AnalysisBroken('loader members not resolved: %s %s' % (cache, vecs))
    cache = cache[0]
    g = prog.cfg(lm)
    # roles of the vectors: the DFS stack is the one searched with std::find and popped; the load order is pushed and iterated in load()
    stack = None
    for c in g.calls(lambda e: e['k'] == 'call' and SX.callee(e) == 'std::find'):
        for x in SX.walk(c.e):
            if x['k'] == 'mcall' and SX.short(x['callee']) in ('begin', 'end') and SX.is_this_member(SX.strip(x.get('obj'))) and SX.strip(x['obj'])['name'] in vecs:
                stack = SX.strip(x['obj'])['name']
    for c in g.calls(lambda e: e['k'] == 'mcall' and SX.short(e['callee']) == 'pop_back'):
        r, names = SX.member_chain(c.e['obj'])
        if names[:1] and names[0] in vecs and stack is None:
            stack = names[0]
    order = None
    for n in SX.walk(ld.body):
        if n['k'] == 'forrange' and SX.is_this_member(SX.strip(n['range'])) and SX.strip(n['range'])['name'] in vecs and SX.strip(n['range'])['name'] != stack:
            order = SX.strip(n['range'])['name']
    if not stack or not order:
        chk.ob('R19.2', ld, ld.ln, False, 'load() must assemble the merged program by iterating the load-order vector (stack=%s, order=%s)' % (stack, order), key='merge-order')
        if not stack:
            raise AnalysisBroken('DFS stack not resolved')
        order = [v for v in vecs if v != stack and any(SX.is_node(c.e.get('obj')) and _m(c.e['obj'], v) for c in g.calls(lambda e: e['k'] == 'mcall' and SX.short(e['callee']) == 'push_back'))]
        order = order[0] if order else None

    def calls(pred):
        return [c for c in g.calls(pred)]
    canon_decl = [n for n in g.nodes if n.kind == 'decl' and SX.is_node(n.e.get('init')) and n.e['init']['k'] in ('call', 'mcall') and SX.short(SX.callee(n.e['init'])) == 'canonicalize'
                  and SX.is_node(SX.real_args(n.e['init'])[0]) and SX.real_args(n.e['init'])[0].get('kind') == 'param']
    if not canon_decl:
        raise AnalysisBroken('canonicalisation of the path parameter not found')
    cid = canon_decl[0].e['id']

    def uses_canon(e):
        return any(x['k'] == 'ref' and x.get('id') == cid for x in SX.walk(e))
    finds = calls(lambda e: e['k'] == 'call' and SX.callee(e) == 'std::find' and any(_m(x.get('obj'), stack) for x in SX.walk(e) if x['k'] == 'mcall'))
    cyc_conds = [n for n in g.nodes if n.kind == 'cond' and any(x['k'] == 'mcall' and SX.short(x['callee']) == 'end' and _m(x.get('obj'), stack) for x in SX.walk(n.e))]
    cache_conds = [n for n in g.nodes if n.kind == 'cond' and any(x['k'] == 'mcall' and SX.short(x['callee']) in ('count', 'find', 'contains') and _m(x.get('obj'), cache) for x in SX.walk(n.e))]
    push = calls(lambda e: e['k'] == 'mcall' and SX.short(e['callee']) in ('push_back', 'emplace_back') and _m(e.get('obj'), stack))
    pop = calls(lambda e: e['k'] == 'mcall' and SX.short(e['callee']) == 'pop_back' and _m(e.get('obj'), stack))
    parse = calls(lambda e: e['k'] == 'mcall' and SX.short(e['callee']) == 'parseFile')
    rec_calls = calls(lambda e: e['k'] == 'mcall' and e['callee'] == lm.name)
    ins = [n for n, l, r, op in g.writes() if SX.is_node(SX.strip(l)) and SX.strip(l)['k'] == 'index' and _m(SX.strip(l)['base'], cache)]
    ins += calls(lambda e: e['k'] == 'mcall' and SX.short(e['callee']) in ('emplace', 'insert', 'try_emplace', 'insert_or_assign') and _m(e.get('obj'), cache))
    opush = calls(lambda e: e['k'] == 'mcall' and SX.short(e['callee']) in ('push_back', 'emplace_back') and _m(e.get('obj'), order)) if order else []
    chk.count('recursive loadModule call sites', len(rec_calls), 0)
    for what, lst in (('cycle test', cyc_conds), ('cache test', cache_conds), ('stack push', push), ('stack pop', pop), ('parse', parse), ('cache insert', ins), ('order push', opush)):
        if not lst:
            chk.ob('R19.1', lm, lm.ln, False, 'loadModule has no %s' % what, key='present:' + what)
    if not (cyc_conds and cache_conds and push and pop and parse and ins and opush):
        return
    # a. same canonical key everywhere
    for what, nodes in (('cycle test', finds), ('cache test', cache_conds), ('stack push', push), ('cache insert', ins), ('order push', opush)):
        ok = bool(nodes) and all(uses_canon(n.e) for n in nodes)
        chk.ob('R19.1', lm, nodes[0].ln if nodes else lm.ln, ok, '%s must use the canonicalised path' % what, key='canon:' + what)
    _file_identity(prog, chk, lm)
    # b. cycle test throws Semantic and precedes cache test
    for c in cyc_conds:
        cp = SX.cmp_parts(c.e)
        found_edge = c.succ[0] if cp and cp[0] == '!=' else c.succ[1]
        r = g.reachable([found_edge])
        throws = [g.nodes[i] for i in r if g.nodes[i].kind == 'throw']
        ok = g.exit.id not in r and throws and all('ErrorCategory::Semantic' in SX.show(t.e) or 'Semantic' in SX.show(t.e) for t in throws)
        chk.ob('R19.1', lm, c.ln, bool(ok), 'a path already on the DFS stack must stop with a Semantic error (import cycle)', key='cycle-throws')
    chk.ob('R19.1', lm, cache_conds[0].ln, all(g.must_precede(cyc_conds, c) for c in cache_conds), 'cycle test precedes the cache test', key='cycle-before-cache')
    # c. cache hit returns before push
    for c in cache_conds:
        hit = c.succ[0]
        r = g.reachable([hit])
        ok = not any(p.id in r for p in push + parse + rec_calls + ins + opush)
        chk.ob('R19.1', lm, c.ln, ok, 'a cached module returns without re-parsing, re-pushing or re-recording', key='cache-hit-returns')
    # d. push before parse and recursion; pop follows on all normal paths
    chk.ob('R19.1', lm, push[0].ln, all(g.must_precede(cache_conds, p) and g.must_precede(cyc_conds, p) for p in push), 'stack push only after cycle and cache tests', key='tests-before-push')
    chk.ob('R19.1', lm, parse[0].ln, all(g.must_precede(push, x) for x in parse + rec_calls), 'module is on the DFS stack before it is parsed and before any import is followed', key='push-before-recursion')
    chk.ob('R19.1', lm, push[0].ln, all(g.must_follow(p, pop) for p in push), 'stack push is popped on every normal path', key='push-pop')
    # d'. a loader that is used again starts from nothing: every member loadModule fills is emptied in load() before the first module is
    # loaded (a load that stopped with an error leaves its modules on the DFS stack — the pop is on normal paths only — and the next load
    # would report an import cycle that is not there, or serve the previous run's modules)
    gl = prog.cfg(ld)
    first = [c for c in gl.calls(lambda e: e['k'] == 'mcall' and e['callee'] == lm.name)]
    chk.count('loadModule calls in load()', len(first), 1)
    for role, mem in (('DFS stack', stack), ('module cache', cache), ('load order', order)):
        if not mem:
            continue
        clr = [c for c in gl.calls(lambda e: e['k'] == 'mcall' and SX.short(e['callee']) == 'clear' and _m(e.get('obj'), mem))]
        clr += [n for n, l, r, op in gl.writes() if op == '=' and _m(l, mem) and SX.is_node(SX.strip(r)) and SX.strip(r).get('k') in ('construct', 'initlist') and not SX.real_args(SX.strip(r))]
        ok = bool(clr) and all(gl.must_precede(clr, c) for c in first)
        chk.ob('R19.1', ld, clr[0].ln if clr else ld.ln, ok, 'load() empties the %s (%s) before the first module is loaded, so a loader that is used again (also after a load that failed) starts '
               'from nothing' % (role, mem), key='reset:' + role.replace(' ', '-'))
    # e. each recursive load is followed by the package comparison (mismatch throws)
    pk_conds = [n for n in g.nodes if n.kind == 'cond' and any(x['k'] == 'member' and x['name'] == 'packageParts' for x in SX.walk(n.e)) and SX.cmp_parts(n.e)]
    # … the comparison may live in a local closure or a helper function that performs it on every path (`requirePackage(imp, target)`)
    from ..kcanon import Canon
    canon = Canon(prog, lm)
    helper_checks = []
    for cn in g.calls():
        c = canon.closure(cn.e)
        targets = [c[0]] if c else [t for t in (prog.resolve(cn.e) if cn.e.get('k') in ('call', 'mcall') else []) if t.body and t.file == lm.file and t is not lm]
        for hf in targets:
            gh = prog.cfg(hf)
            inner = [n for n in gh.nodes if n.kind == 'cond' and any(x['k'] == 'member' and x['name'] == 'packageParts' for x in SX.walk(n.e)) and SX.cmp_parts(n.e)]
            if inner and gh.must_follow(gh.entry, inner):
                helper_checks.append(cn)
                for c2 in inner:
                    cp = SX.cmp_parts(c2.e)
                    mis = c2.succ[0] if cp[0] == '!=' else c2.succ[1]
                    r = gh.reachable([mis])
                    chk.ob('R19.1', hf, c2.ln or hf.ln, gh.exit.id not in r and any(gh.nodes[i_].kind == 'throw' for i_ in r), 'a package mismatch can only throw',
                           key='package-mismatch-throws:helper')
    pk_conds = pk_conds + helper_checks
    for i, rc in enumerate(rec_calls):
        ok = bool(pk_conds) and g.must_follow(rc, pk_conds)
        chk.ob('R19.1', lm, rc.ln, ok, 'every imported module\'s declared package is compared with the import before loading continues', key='package-check#%d' % i)
    for c in [c for c in pk_conds if c.kind == 'cond']:
        cp = SX.cmp_parts(c.e)
        mis = c.succ[0] if cp[0] == '!=' else c.succ[1]
        r = g.reachable([mis], avoid=[n for n in g.nodes if n.kind == 'loophead'])
        ok = g.exit.id not in r and any(g.nodes[i].kind == 'throw' for i in r) and not any(x.id in r for x in ins + opush)
        chk.ob('R19.1', lm, c.ln, ok, 'a package mismatch can only throw', key='package-mismatch-throws')
    # e'. every import that was resolved goes through the package comparison before the loop moves on (no shortcut around it)
    resolves = calls(lambda e: e['k'] == 'mcall' and SX.short(e['callee']) in ('resolveImportPath',)) + \
        [n for n in g.nodes if n.kind == 'decl' and SX.is_node(n.e.get('init')) and 'canonicalize' in SX.show(n.e['init']) and n is not canon_decl[0]]
    heads = [n for n in g.nodes if n.kind == 'loophead']
    # a wildcard import of the module's own package skips the module itself: `target == canon` — the only accepted shortcut
    selfskip = []
    for n in g.nodes:
        if n.kind == 'edge':
            cp = SX.cmp_parts(n.e)
            if cp and ((cp[0] == '==' and n.pol) or (cp[0] == '!=' and not n.pol)) and any(
                    SX.is_node(x) and SX.strip(x).get('k') == 'ref' and SX.strip(x).get('id') == cid for x in cp[1:]):
                selfskip.append(n)
    # every package comparison judges a module that was loaded since its target was resolved: walking back from the comparison,
    # a resolver call is met only behind a recursive load
    rcalls = calls(lambda e: e['k'] == 'mcall' and SX.short(e['callee']) in ('resolveImportPath', 'resolvePackageModules'))
    for i, pk in enumerate(pk_conds):
        back = g.reachable([pk], forward=False, avoid=rec_calls)
        unl = [x for x in rcalls if x.id in back]
        chk.ob('R19.1', lm, pk.ln or lm.ln, bool(rec_calls) and not unl,
               'the module whose package is compared was loaded (recursive loadModule) after its target was resolved; reached without a load from: %s' %
               [SX.show(x.e)[:40] for x in unl], key='resolved-is-loaded#%d' % i)
    for i, rs in enumerate(resolves):
        r = g.reachable([rs], avoid=pk_conds + selfskip)
        # within the import loop: reaching a loop head again (next import / next wildcard target) or the exit without the comparison
        inner = [h for h in heads if h.id in g.reachable([rs], forward=False)]
        bad = (g.exit.id in r) or any(h.id in r for h in inner)
        chk.ob('R19.1', lm, rs.ln, not bad, 'after an import target is resolved, no path may continue with the next import or finish without the package comparison', key='no-shortcut#%d' % i)
    # f/g. cache insert and order push strictly after the import loop, on every normal path after the push
    for what, nodes in (('cache insert', ins), ('order push', opush)):
        after = set()
        for n in nodes:
            after |= g.reachable([n])
        ok = not any(rc.id in after for rc in rec_calls + parse)
        chk.ob('R19.1', lm, nodes[0].ln, ok, '%s comes after all imports were followed (post-order; a cycle is never masked by a premature cache hit)' % what, key='post-order:' + what)
        chk.ob('R19.1', lm, nodes[0].ln, all(g.must_follow(p, nodes) for p in push), '%s happens on every normal path of a freshly loaded module' % what, key='always:' + what)

    # ---- R19.2 ---------------------------------------------------------------------------------
    if order:
        loops = [n for n in SX.walk(ld.body) if n['k'] == 'forrange' and _m(n['range'], order)]
        moved = [n for lp in loops for n in SX.walk(lp['body']) if SX.append_target(n) is not None
                 and any(x['k'] == 'member' and x['name'] in ('classes', 'functions', 'statements') for x in SX.walk(SX.append_target(n)))]
        bad = [n for n in SX.walk(ld.body) if n['k'] == 'forrange' and _m(n['range'], cache)]
        chk.ob('R19.2', ld, loops[0].get('ln', ld.ln) if loops else ld.ln, len(moved) >= 2 and not bad,
               'merged classes/functions are appended while iterating %s (found %d appends; loops over the hash cache: %d)' % (order, len(moved), len(bad)), key='merge-order')

    # ---- R19.3 / R19.4 -------------------------------------------------------------------------
    seqs = {}
    for name in ('resolveImportPath', 'resolvePackageModules'):
        f = prog.fn('ModuleLoader::' + name)
        gg = prog.cfg(f)
        bf, fromdir, partsid = _roots_builder(prog, f)
        seq = _roots_sequences(bf, prog.cfg(bf), fromdir)
        seqs[name] = seq
        want = {True: ['search', 'from', 'cwd'], False: ['from', 'search', 'cwd']}
        chk.ob('R19.3', f, f.ln, seq == want, '%s root order: bloch.* → %s, otherwise → %s (documented: search paths first only for bloch.*)' % (name, seq.get(True), seq.get(False)),
               key='roots:' + name)
        # prefer flag definition
        pv = [n for n in SX.walk(bf.body) if n['k'] == 'var' and n['type'] in ('bool', 'const bool') and SX.is_node(n.get('init'))]
        okp = any(_prefers_bloch(v['init'], partsid) for v in pv)
        chk.ob('R19.3', f, f.ln, okp, '%s: search-path preference is decided by first component == "bloch"' % name, key='prefer:' + name)
        # first hit wins: a return inside the loop over the roots
        loops = [n for n in SX.walk(f.body) if n['k'] == 'forrange' and SX.is_node(SX.strip(n['range'])) and
                 (SX.strip(n['range']).get('k') == 'ref' or (bf is not f and SX.strip(n['range']).get('k') == 'call' and SX.strip(n['range']).get('callee') == bf.name))]
        # (a root helper applied to a callback, once expanded, leaves the loop through the end of its inlined block)
        first = any(any(x['k'] in ('return', 'ireturn') for x in SX.walk(lp['body'], into_lambdas=False)) for lp in loops)
        # … and once a hit is recorded (a value returned from inside the loop, or stored in the variable the function returns),
        # no path goes on to the next root
        resvars = {SX.strip(r.e.get('e')).get('id') for r in gg.nodes if r.kind == 'return' and SX.is_node(SX.strip(r.e.get('e'))) and SX.strip(r.e['e']).get('k') == 'ref'
                   and SX.strip(r.e['e']).get('kind') == 'var'}
        nh = 0
        for lp in loops:
            heads = [n for n in gg.nodes if n.kind == 'loophead' and n.e is lp]
            if len(heads) != 1:
                continue
            cyc = gg.reachable([heads[0]]) & gg.reachable([heads[0]], forward=False)
            for n, l, r, op in gg.writes():
                l0 = SX.strip(l)
                if n.id in cyc and op == '=' and SX.is_node(l0) and l0.get('k') == 'ref' and l0.get('id') in resvars:
                    nh += 1
                    if not _leaves_loop_after(gg, n, heads[0]):
                        first = False
        chk.ob('R19.3', f, f.ln, first, '%s returns at the first root that has the module' % name, key='first-hit:' + name)
    # resolution is a pure function of (name, importing directory, configured search paths, working directory)
    from .C13 import _config_members
    config = _config_members(prog, rec)
    for name in ('resolveImportPath', 'resolvePackageModules'):
        f = prog.fn('ModuleLoader::' + name)
        touched = sorted({n['name'] for n in SX.walk(f.body) if n['k'] == 'member' and SX.is_node(n['base']) and n['base']['k'] == 'this' and n['name'] in fields})
        bad = [m for m in touched if m not in config]
        chk.ob('R19.3', f, f.ln, not bad, '%s may consult only configuration members (%s); it touches per-load state %s — a result remembered across importers ignores the importing directory' % (
            name, sorted(config), bad), key='stateless:' + name)
        # every successful result is derived from the root list (which starts from the importing directory)
        uses_from = any(x['k'] == 'ref' and x.get('id') == f.params[1]['id'] for x in SX.walk(f.body))
        chk.ob('R19.3', f, f.ln, uses_from, '%s uses the importing file\'s directory' % name, key='uses-fromdir:' + name, nontrivial=False)
    chk.ob('R19.3', 'ModuleLoader', 'src/bloch/compiler/import/module_loader.cpp', seqs['resolveImportPath'] == seqs['resolvePackageModules'],
           'single-file and wildcard imports search the same roots in the same order', key='roots-agree')
    f = prog.fn('ModuleLoader::resolvePackageModules')
    gg = prog.cfg(f)
    pushes = [c for c in gg.calls(lambda e: e['k'] == 'mcall' and SX.short(e['callee']) in ('push_back', 'emplace_back') and SX.is_node(e.get('obj')) and e['obj'].get('k') == 'ref'
                                  and e['obj'].get('t', '').startswith('std::vector<std::string'))]
    okf = bool(pushes) and all(any(pol and '".bloch"' in SX.show(ce) and 'extension' in SX.show(ce) for ce, pol, _ in gg.guards(p)) for p in pushes)
    chk.ob('R19.4', f, f.ln, okf, 'only files with extension .bloch are listed', key='filter-ext')
    lid = pushes[0].e['obj'].get('id') if pushes else None
    rets = [n for n in gg.nodes if n.kind == 'return' and SX.is_node(n.e.get('e')) and n.e['e'].get('k') == 'ref' and pushes and n.e['e'].get('id') == lid]
    # the listing may leave through the result variable it is moved/copied into (`found = std::move(modules)`)
    rets += [n for n, l, r, op in gg.writes() if pushes and op == '=' and SX.is_node(SX.strip(l)) and SX.strip(l).get('k') == 'ref' and SX.strip(l).get('id') != lid
             and SX.is_node(r) and any(x['k'] == 'ref' and x.get('id') == lid for x in SX.walk(r))]
    sorts = [c for c in gg.calls(lambda e: e['k'] == 'call' and e.get('callee') in ('std::sort', 'std::stable_sort')
                                 and any(x['k'] == 'ref' and x.get('id') == lid for x in SX.walk(e)))]
    oks = bool(rets) and bool(sorts) and all(gg.must_precede(sorts, r) for r in rets)
    chk.ob('R19.4', f, f.ln, oks, 'the listing is sorted before it is returned (directory iteration order is unspecified)', key='sorted')

    # ---- R19.5 ---------------------------------------------------------------------------------
    gl = prog.cfg(ld)
    from ..kdiv import cmp_with_const
    cnt = [n for n in SX.walk(ld.body) if n['k'] == 'var' and n['type'] in ('unsigned long', 'int', 'size_t') and SX.is_node(n.get('init')) and n['init'].get('v') == 0]
    rets = [n for n in gl.nodes if n.kind == 'return']
    ok0 = ok2 = False
    for v in cnt:
        for c in gl.nodes:
            if c.kind != 'cond':
                continue
            r = cmp_with_const(c.e, v['name'])
            if r in (('==', 0), ('<', 1)):
                rr = gl.reachable([c.succ[0]])
                ok0 = ok0 or (gl.exit.id not in rr and any(gl.nodes[i].kind == 'throw' and 'Semantic' in SX.show(gl.nodes[i].e) for i in rr) and all(gl.must_precede([c], x) for x in rets))
            if r in (('>', 1), ('>=', 2)):
                rr = gl.reachable([c.succ[0]])
                ok2 = ok2 or (gl.exit.id not in rr and any(gl.nodes[i].kind == 'throw' and 'Semantic' in SX.show(gl.nodes[i].e) for i in rr) and all(gl.must_precede([c], x) for x in rets))
    chk.ob('R19.5', ld, ld.ln, ok0, 'no main across all modules → Semantic error before the program is returned', key='main-zero')
    chk.ob('R19.5', ld, ld.ln, ok2, 'more than one main across all modules → Semantic error before the program is returned', key='main-many')
    # the counter counts every function named main in the merged list (full loop, increment under name == "main")
    incs = [n for n, l, r, op in gl.writes() if op == '++' and any(SX.is_node(SX.strip(l)) and SX.strip(l).get('id') == v['id'] for v in cnt)]
    okc = bool(incs) and all(any(pol and '"main"' in SX.show(ce) for ce, pol, _ in gl.guards(n)) for n in incs)
    chk.ob('R19.5', ld, ld.ln, okc, 'main counter is incremented exactly for functions named "main"', key='main-count')



def _file_identity(prog, chk, lm):
    """R19.1 — the key under which a module is cached, cycle-tested and recorded names the file, not a spelling of its path: the loader's
    canonicalisation resolves the path through the file system (`canonical` / `weakly_canonical`: links and `..` through links followed),
    and a lexical normalisation is returned only where the file system reported an error.  With a lexical key one file reached under
    two spellings (a linked directory among the search roots) is loaded twice and its classes arrive twice in the merged program."""
    cands = [t for c in SX.walk(lm.body) if c.get('k') in ('call', 'mcall') and SX.short(SX.callee(c) or '') == 'canonicalize' for t in prog.resolve(c)]
    cands = [t for t in cands if t.body]
    if not cands:
        raise AnalysisBroken('canonicalisation function not resolved')
    f = cands[0]
    g = prog.cfg(f)
    FS = ('std::filesystem::canonical', 'std::filesystem::weakly_canonical')
    res = {}       # local id → initialised from a file-system resolution
    for n in g.nodes:
        if n.kind == 'decl' and SX.is_node(n.e.get('init')) and any(x.get('k') == 'call' and (SX.callee(x) or '') in FS for x in SX.walk(n.e['init'])):
            res[n.e['id']] = n

    def resolved(e):
        return any((x.get('k') == 'call' and (SX.callee(x) or '') in FS) or (x.get('k') == 'ref' and x.get('id') in res) for x in SX.walk(e))
    rets = [n for n in g.nodes if n.kind == 'return']
    good = [n for n in rets if SX.is_node(n.e) and resolved(n.e)]
    # the value of a return node sits in the nodes just before it when the CFG splits the expression: look at the statement
    if not good:
        for st in SX.walk(f.body, into_lambdas=False):
            if st.get('k') == 'return' and SX.is_node(st.get('e')) and resolved(st['e']):
                good += [n for n in rets if n.ln == st.get('ln')]
    err = [n for n in g.nodes if n.kind == 'edge' and n.pol and SX.is_node(n.e) and n.e.get('k') == 'mcall' and SX.short(n.e.get('callee', '')) == 'operator bool'
           and 'error_code' in (SX.strip(n.e.get('obj')) or {}).get('t', '')]
    plain = g.reachable([g.entry], avoid=err, use_x=False)      # (a handler is entered only after the file system threw: an error path too)
    lexical = [n for n in rets if n not in good and n.id in plain]
    chk.ob('R19.1', f, good[0].ln if good else f.ln, bool(good) and not lexical,
           '%s returns the path as the file system resolves it (canonical / weakly_canonical); a purely lexical spelling is returned only after the file system reported an error%s'
           % (f.short, (' (line %s returns one without)' % lexical[0].ln) if lexical else ''), key='file-identity')


def _prefers_bloch(e, partsid):
    """e is exactly `<parts> is not empty && <parts>.front() == "bloch"` (conjuncts in any order, equivalent spellings of the
    two tests) — any further conjunct narrows the rule for some package name (e.g. `parts.size() > 1` drops the package `bloch`)"""
    from .C13 import _size_lower_bound
    conj = []

    def split(x):
        x = SX.strip(x)
        while SX.is_node(x) and x.get('k') == 'cast':
            x = SX.strip(x['e'])
        if SX.is_node(x) and x.get('k') == 'bin' and x.get('op') == '&&':
            split(x['l'])
            split(x['r'])
        else:
            conj.append(x)
    split(e)
    kinds = []
    for c in conj:
        refs = [y for y in SX.walk(c) if y.get('k') == 'ref' and y.get('id') == partsid]
        if not refs:
            kinds.append('other')
            continue
        P = SX.show(refs[0])
        if _size_lower_bound(c, True, P) == 1:
            kinds.append('nonempty')
            continue
        cp = SX.cmp_parts(c)
        if cp and cp[0] == '==':
            txt = {SX.show(SX.strip(cp[1])).replace(' ', ''), SX.show(SX.strip(cp[2])).replace(' ', '')}
            if any(t in txt for t in ('"bloch"', 'std::string("bloch")', 'conststd::string("bloch")')) and any(t in txt for t in (P + '.front()', P + '[0]')):
                kinds.append('isbloch')
                continue
        kinds.append('other')
    return sorted(kinds) == ['isbloch', 'nonempty']


def _leaves_loop_after(g, hit, head):
    """no path from node `hit` comes back to the loop head — path-sensitive in the boolean locals that are assigned constants
    on the way (`__ret = true; … if (__ret) <leave>`: the flag of an expanded callback)"""
    seen = set()
    work = [(s_, frozenset()) for s_ in hit.succ + hit.xsucc]
    steps = 0
    while work:
        n, env = work.pop()
        steps += 1
        if steps > 20000:
            return False
        if (n.id, env) in seen:
            continue
        seen.add((n.id, env))
        if n is head:
            return False
        d = dict(env)
        if n.kind == 'edge':
            c, pol = SX.strip(n.e), n.pol
            while SX.is_node(c) and c.get('k') == 'un' and c.get('op') == '!':
                c, pol = SX.strip(c['e']), not pol
            if SX.is_node(c) and c.get('k') == 'ref' and c.get('id') in d and d[c['id']] != pol:
                continue          # infeasible branch
        elif n.kind in ('assign', 'incdec', 'call') and SX.is_node(n.e):
            w = SX.write_target(n.e)
            if w:
                l0 = SX.strip(w[0])
                if SX.is_node(l0) and l0.get('k') == 'ref':
                    r0 = SX.strip(w[1]) if w[1] is not None else None
                    if w[2] == '=' and SX.is_node(r0) and r0.get('k') == 'bool':
                        d[l0['id']] = bool(r0['v'])
                    else:
                        d.pop(l0.get('id'), None)
        elif n.kind == 'decl' and SX.is_node(n.e):
            i0 = SX.strip(n.e.get('init')) if SX.is_node(n.e.get('init')) else None
            if SX.is_node(i0) and i0.get('k') == 'bool':
                d[n.e['id']] = bool(i0['v'])
            else:
                d.pop(n.e.get('id'), None)
        env2 = frozenset(d.items())
        for s_ in n.succ + n.xsucc:
            work.append((s_, env2))
    return True


def _roots_builder(prog, f):
    """the function that builds the root list for resolver f: f itself, or a file-local helper whose result f's root loop iterates
    (`for (base : searchBases(parts, fromDir, m_searchPaths))`) — then with the helper's parameters standing for the name parts, the
    importing directory and the configured search paths.  → (function, id of the importing-directory variable, id of the parts variable)"""
    if any(n['k'] == 'var' and 'std::vector<std::filesystem' in n['type'] for n in SX.walk(f.body)):
        return f, f.params[1]['id'], f.params[0]['id']
    for lp in SX.walk(f.body, into_lambdas=False):
        if lp['k'] != 'forrange':
            continue
        rng = SX.strip(lp['range'])
        if not (SX.is_node(rng) and rng.get('k') == 'call'):
            continue
        hs = [h for h in prog.resolve(rng) if h.body and h.file == f.file]
        if len(hs) != 1:
            continue
        h = hs[0]
        args = [SX.strip(a) for a in SX.real_args(rng)]
        fromp = [p_ for p_, a in zip(h.params, args) if SX.is_node(a) and a.get('k') == 'ref' and a.get('id') == f.params[1]['id']]
        partp = [p_ for p_, a in zip(h.params, args) if SX.is_node(a) and a.get('k') == 'ref' and a.get('id') == f.params[0]['id']]
        cfgp = [p_ for p_, a in zip(h.params, args) if SX.is_this_member(a)]
        if len(fromp) == 1 and len(partp) == 1 and len(cfgp) == 1 and len(args) == 3:
            return h, fromp[0]['id'], partp[0]['id']
        if any('std::vector<std::filesystem' in n['type'] for n in SX.walk(h.body) if n['k'] == 'var'):
            # the helper builds the list but is not handed exactly (name parts, importing directory, configured paths): the roots
            # it returns are then not the documented ones — reported through the root-order obligation (no 'from' root is found)
            return h, (fromp[0]['id'] if len(fromp) == 1 else None), (partp[0]['id'] if len(partp) == 1 else None)
    raise AnalysisBroken('%s: local root list not found' % f.short)


def _roots_sequences(f, g, fromdir):
    """{prefer(True/False): ['search'|'from'|'cwd', ...]} — order in which roots are appended to the local base list"""
    out = {}
    base_vars = [n for n in SX.walk(f.body) if n['k'] == 'var' and 'std::vector<std::filesystem' in n['type']]
    if len(base_vars) != 1:
        raise AnalysisBroken('%s: local root list not found' % f.short)
    bid = base_vars[0]['id']
    adds = []
    for c in g.calls(lambda e: e['k'] == 'mcall' and SX.short(e['callee']) in ('push_back', 'emplace_back') and SX.is_node(e.get('obj')) and e['obj'].get('id') == bid):
        a = SX.real_args(c.e)[0]
        t = SX.show(a)
        a0 = SX.strip(a)
        while SX.is_node(a0) and a0.get('k') in ('cast', 'construct') and (a0['k'] == 'cast' or len(SX.real_args(a0)) == 1):
            a0 = SX.strip(a0['e'] if a0['k'] == 'cast' else SX.real_args(a0)[0])
        if SX.is_node(a0) and a0.get('k') == 'ref' and a0.get('id') == fromdir:
            kind = 'from'       # the importing directory itself (possibly converted to a path)
        elif any(x['k'] == 'ref' and x.get('id') == fromdir for x in SX.walk(a)):
            kind = 'other'      # an expression that merely mentions it (`paths.empty() ? fromDir : paths.front()`) is not that root
        elif 'current_path' in t:
            kind = 'cwd'
        else:
            kind = 'search'
        pol = None
        for ce, p, _ in g.guards(c):
            if SX.is_node(ce) and ce.get('k') == 'ref' and (ce.get('t') or '').replace('const ', '') == 'bool':
                pol = p
                break
        adds.append((pol, kind, c))
    for pol in (True, False):
        seq = []
        for p, kind, c in adds:
            if (p is None or p == pol) and (not seq or seq[-1] != kind):
                seq.append(kind)
        out[pol] = seq
    # the search-path appends must iterate the configured search-path member in order
    return out

