"""C02 — measurement follows the Born rule and collapses to the normalised projection."""
from .. import sx as SX
from ..facts import AnalysisBroken
from ..roles import Roles
from .. import kterm as KT

EXPLANATION = (
    "Decided from the source of QasmSimulator::measure and its three evaluator call sites, for every register size, index and state: "
    "(R02.1) p1 is accumulated from 0 as Σ|amp|² over exactly the indices with the measured bit set, over the full index range; "
    "(R02.2) the draw is uniform on [0,1) from the file-level generator and the outcome is 1 iff r < p1; (R02.3) the per-pair "
    "transformer of the collapse loop, extracted by symbolic evaluation by cases on (bit of index, outcome), equals "
    "'amplitude/sqrt(p_outcome) if the bit equals the outcome, else 0' with p_1 = p1 and p_0 = 1 − p1; (R02.4) the function returns "
    "the outcome it collapsed to; (R02.5) at every evaluator site the single returned bit is what is stored as the qubit's last "
    "measurement (and, in the expression form, returned and recorded), under range guards only. Frequencies of the generator and "
    "floating-point error are not decided.")


def run(prog, chk):
    import sympy as sp
    from .. import ksym as KS
    from .. import kpair as KP
    R = Roles(prog)
    chk.trusted.append('sympy (closed-form simplification) from the tooling venv')
    chk.rule('R02.1', 'p1 = Σ |amp_i|² over indices with the measured bit set (full range, from 0)')
    chk.rule('R02.2', 'outcome = 1 iff r < p1 with r uniform on [0,1) from the process RNG')
    chk.rule('R02.3', 'collapse: amplitude/sqrt(p_outcome) where the bit equals the outcome, 0 elsewhere')
    chk.rule('R02.4', 'the returned value is the outcome used for the collapse')
    chk.rule('R02.5', 'evaluator stores/returns exactly the bit the simulator returned')
    sim = R.sim_classify()
    m = sim['measure']
    amp = R.amp_field
    q = m.params[0]
    try:
        info = analyse_measure_like(prog, m, amp, q, sp, KS, KP)
    except PartialSweep as e:
        chk.ob('R02.1', m, e.ln or m.ln, False, '%s: probabilities and the collapse must range over the whole state vector (a partial sum used as p1 mis-scales the collapsed state)' % e,
               key='p1-accumulation')
        return
    p1 = info['p1sym']
    # R02.1
    acc = info['acc']
    # what one pair of cells adds to p1 over all its visits (which visit adds it does not matter for the sum)
    ok = sp.simplify(acc.get((1,), 0) + acc.get((0,), 0) - sp.Abs(KP.A[1]) ** 2) == 0 and info['p1_init_zero'] and info['bit_is_1_shl_q']
    chk.ob('R02.1', m, info['loop1_ln'], ok, 'accumulation per pair: bit clear adds %s, bit set adds %s; p1 starts at 0: %s; bit = 1<<q: %s' % (
        acc.get((0,), 0), acc.get((1,)), info['p1_init_zero'], info['bit_is_1_shl_q']), key='p1-accumulation')
    # R02.2
    chk.ob('R02.2', m, m.ln, info['dist_ok'], 'distribution is uniform_real_distribution<double>(0.0, 1.0): %s' % info['dist_txt'], key='dist')
    chk.ob('R02.2', m, m.ln, info['draw_ok'], 'r is one draw of that distribution from the file-level generator: %s' % info['draw_txt'], key='draw')
    chk.ob('R02.2', m, m.ln, info['res_ok'], 'outcome is (r < p1) ? 1 : 0 — found %s' % info['res_txt'], key='outcome')
    # one generator: every draw of the simulator comes from the same process-wide stream — a second engine (above all one copy-constructed
    # from the first: `static std::mt19937 resetRng{rng};`) replays the same numbers, so the k-th sampling reset and the k-th measurement
    # are decided by the same draw
    engines = [gl for key, gl in prog.facts.globals.items() if gl['file'].endswith('qasm_simulator.cpp') and ('mersenne_twister' in gl['type'] or 'mt19937' in gl['type'] or
                                                                                                           'linear_congruential' in gl['type'] or 'default_random_engine' in gl['type'])]
    for f_ in prog.in_file('qasm_simulator.cpp', with_lambdas=False):
        for v_ in SX.walk(f_.body) if f_.body else []:
            if v_.get('k') == 'var' and ('mersenne_twister' in (v_.get('type') or '') or 'mt19937' in (v_.get('type') or '')):
                engines.append({'name': f_.short + '::' + v_['name'], 'ln': v_.get('ln', 0)})
    chk.ob('R02.2', m, m.ln, len(engines) == 1, 'the simulator draws from exactly one random engine (found %s)' % [g_['name'].split('::')[-1] for g_ in engines], key='one-generator')
    # R02.3
    for res in (0, 1):
        pk = p1 if res == 1 else 1 - p1
        for b in (0, 1):
            cells = info['collapse'][(b, res)]
            got = cells.get(b, KP.A[b])
            want = KP.A[b] / sp.sqrt(pk) if b == res else 0
            other = cells.get(1 - b)
            okc = sp.simplify(got - want) == 0 and other is None
            chk.ob('R02.3', m, info['loop2_ln'], okc, 'outcome %d, index bit %d: amplitude becomes %s (expected %s)%s' % (
                res, b, got, want, '' if other is None else '; also writes the partner cell'), key='collapse:res%d:bit%d' % (res, b))
    # R02.4
    chk.ob('R02.4', m, m.ln, info['returns_res'], 'measure returns the outcome variable on every path', key='returns-outcome')

    evaluator_measure_sites(prog, chk, R, m, 'R02.5')
    # … and what is reported for a tracked qubit / register is built from those stored bits, element by element in index order
    from .C17 import recorder_tables
    recorder_tables(prog, chk, R, 'R02.5', 'R02.5')


def evaluator_measure_sites(prog, chk, R, m, rule):
    """R02.5 (run by C17 too, as part of R17.3): at every evaluator site the bit the simulator returned is what is recorded as the
    measured qubit's last measurement — under that qubit's own index"""
    # ---- R02.5 evaluator agreement ------------------------------------------------------------
    last = [f['name'] for f in R.ev['fields'] if f['type'] == 'std::vector<int>' and 'ast' in f['name'].lower()]
    if len(last) != 1:
        raise AnalysisBroken('last-measurement vector not resolved')
    last = last[0]
    nsite = 0
    for f in [x for x in R.ev_methods() if x.body]:
        if not any(R.is_sim_call(n, (m.short,)) for n in SX.walk(f.body, into_lambdas=False)):
            continue
        g = prog.cfg(f)
        for node in g.calls(lambda e: R.is_sim_call(e, (m.short,))):
            nsite += 1
            qt = SX.show(SX.real_args(node.e)[0])
            # the result initialises one local
            decl = [d for d in g.nodes if d.kind == 'decl' and SX.strip(d.e.get('init')) is node.e]
            if not decl:
                chk.ob(rule, f, node.ln, False, 'result of sim.measure(%s) is not bound to a local' % qt, key='bound:' + qt)
                continue
            bid = decl[0].e['id']
            stores = [(n, l, r) for n, l, r, op in g.writes() if op == '=' and SX.is_node(SX.strip(l)) and SX.strip(l)['k'] == 'index'
                      and SX.is_this_member(SX.strip(SX.strip(l)['base']), last) and SX.show(SX.strip(l)['i']) == qt]
            st_ok = bool(stores) and all(SX.is_node(SX.strip(r)) and SX.strip(r).get('id') == bid for n, l, r in stores)
            from ..kernels import must_follow_modulo_bounds
            reach_ok = False
            if stores:
                # every normal path from the measurement stores the bit, except through pure range tests on the same operand
                avoid = [n for n, l, r in stores]
                for e in g.nodes:
                    if e.kind == 'edge' and _range_test(e.e, qt, last):
                        rr = g.reachable([e], avoid=[node])     # within the same iteration / activation
                        if not any(a.id in rr for a in avoid):
                            avoid.append(e)
                reach_ok = g.must_follow(node, avoid)
            no_rewrite = not any(w for w, l, r, op in g.writes() if SX.is_node(SX.strip(l)) and SX.strip(l).get('id') == bid)
            chk.ob(rule, f, node.ln, st_ok and reach_ok and no_rewrite,
                   'the bit returned by sim.measure(%s) is stored unchanged into %s[%s] on every normal path (range guards only)' % (qt, last, qt), key='store:' + _site(g, node, qt))
            # expression form: the returned Value carries the same bit
            rets = [n for n in g.nodes if n.kind == 'return' and node.id in g.reachable([n], forward=False) and g.dominates(node, n)]
            rets = [n for n in rets if SX.is_node(n.e.get('e')) and any(x['k'] == 'ref' and x.get('id') == bid for x in SX.walk(n.e['e']))]
            if f.ret.endswith('Value') and _expr_form(g, node):
                okr = bool(rets) and all(any(x['k'] == 'ref' and x.get('kind') == 'enum' and x['name'].endswith('Type::Bit') for x in SX.walk(n.e['e'])) for n in rets)
                chk.ob(rule, f, node.ln, okr, 'measure expression returns a Bit value holding the same bit', key='returns:' + _site(g, node, qt))
    chk.count('evaluator measure sites', nsite, 3)


def _site(g, node, qt):
    for ce, pol, _ in g.guards(node):
        if pol and SX.is_node(ce) and ce['k'] == 'ref' and SX.is_node(ce.get('cvinit')):
            for n in SX.walk(ce['cvinit']):
                if n['k'] == 'dyncast':
                    return '%s/%s' % (n['type'].split('::')[-1].replace(' *', ''), qt)
    return qt


def _expr_form(g, node):
    for ce, pol, _ in g.guards(node):
        if pol and SX.is_node(ce) and ce['k'] == 'ref' and SX.is_node(ce.get('cvinit')):
            for n in SX.walk(ce['cvinit']):
                if n['k'] == 'dyncast':
                    return 'Expression' in n['type']
    return False


def _range_test(ce, qt, vec):
    """condition mentions only the operand, literals and <vec>.size()"""
    t = SX.show(ce)
    if qt not in t:
        return False
    for x in SX.walk(ce):
        if x['k'] in ('call',):
            return False
        if x['k'] == 'mcall' and SX.short(x['callee']) != 'size':
            return False
    rest = t.replace(qt, '').replace(vec + '.size()', '')
    return not any(c.isalpha() for c in rest.replace('cast', '').replace('int', ''))


class PartialSweep(Exception):
    def __init__(self, msg, ln):
        Exception.__init__(self, msg)
        self.ln = ln


def mask_candidates(m, q):
    """integer locals used as `i & v` / `i | v` selectors in the function, with their initialisers (for the report)"""
    decls = {v['id']: v for v in SX.walk(m.body, into_lambdas=False) if v['k'] == 'var' and v.get('type') in ('unsigned long', 'size_t')}
    out = []
    for n in SX.walk(m.body, into_lambdas=False):
        if n['k'] == 'bin' and n['op'] in ('&', '|'):
            for x in (SX.strip(n['l']), SX.strip(n['r'])):
                while SX.is_node(x) and x['k'] == 'cast':
                    x = SX.strip(x['e'])
                if SX.is_node(x) and x['k'] == 'ref' and x.get('id') in decls and SX.is_node(decls[x['id']].get('init')) and \
                        any(y['k'] == 'ref' and y.get('id') == q['id'] for y in SX.walk(decls[x['id']]['init'])):
                    t = '%s = %s' % (x['name'], SX.show(decls[x['id']]['init']))
                    if t not in out:
                        out.append(t)
    return out


def analyse_measure_like(prog, m, amp, q, sp, KS, KP):
    """Walk the top-level statements of a measure-shaped function and extract its ingredients."""
    from ..knorm import normalise
    m = normalise(prog, m)      # helpers (probability sums, the draw, range checks) inlined; see K-NORM
    info = {'p1_init_zero': False, 'bit_is_1_shl_q': False, 'dist_ok': False, 'draw_ok': False, 'res_ok': False, 'returns_res': False,
            'dist_txt': '', 'draw_txt': '', 'res_txt': '', 'acc': {}, 'collapse': {}}
    stmts = m.body['body']
    F = KT.Folder()
    bit_ids = []
    doubles = {}      # var id → decl
    loops = []
    dist_id = r_id = res_id = None
    res_decl = None
    norm_decl = None
    late_doubles = []     # doubles defined after the draw: evaluated per outcome case
    late_cases = []
    late_offsets = []     # index offsets chosen by the outcome (`size_t keepOffset = res ? bit : 0;`)
    for s in stmts:
        if s['k'] == 'decls':
            for v in s['d']:
                t = v['type'][6:] if v['type'].startswith('const ') else v['type']
                if t in ('unsigned long', 'size_t'):
                    if res_id is not None and SX.is_node(v.get('init')) and any(x['k'] == 'ref' and x.get('id') in ([res_id] + [c_[0]['id'] for c_ in late_cases])
                                                                                 for x in SX.walk(v['init'])):
                        late_offsets.append(v)
                        continue
                    try:
                        term = F.fold(v['init'])
                        F.env[v['id']] = term
                        if term == KT.op('<<', KT.I(1), KT.S(q['name'])):
                            bit_ids.append(v['id'])
                            info['bit_is_1_shl_q'] = True
                    except KT.Unfoldable:
                        pass
                elif t == 'double':
                    doubles[v['id']] = v
                    init = SX.strip(v.get('init'))
                    if SX.is_node(init) and init['k'] == 'opcall' and init['op'] == '()' and dist_id and SX.strip(init['args'][0]).get('id') == dist_id:
                        r_id = v['id']
                        a = init['args'][1:]
                        info['draw_ok'] = len(a) == 1 and SX.is_node(SX.strip(a[0])) and SX.strip(a[0]).get('global') and 'mersenne_twister' in SX.strip(a[0]).get('t', '')
                        info['draw_txt'] = SX.show(init)
                    elif SX.is_node(init) and r_id is not None:
                        late_doubles.append(v)
                elif 'uniform_real_distribution<double>' in t or 'uniform_real_distribution<>' in t:
                    dist_id = v['id']
                    a = SX.real_args(SX.strip(v['init'])) if SX.is_node(v.get('init')) else []
                    vals = [x.get('v') for x in a if SX.is_node(x)]
                    info['dist_ok'] = vals == [0.0, 1.0]
                    info['dist_txt'] = '%s(%s)' % (t.split('::')[-1], vals)
                elif t in ('int', 'bool'):
                    init = SX.strip(v.get('init'))
                    if SX.is_node(init) and r_id and any(x['k'] == 'ref' and x.get('id') == r_id for x in SX.walk(init)):
                        res_id = v['id']
                        res_decl = v
                    elif SX.is_node(init) and res_id is not None and any(
                            x['k'] == 'ref' and x.get('id') in ([res_id] + [c_[0]['id'] for c_ in late_cases]) for x in SX.walk(init)):
                        late_cases.append((v, t))      # `const bool keepSet = res == 1;` — evaluated per outcome case
        elif s['k'] == 'for':
            loops.append(s)
    p1_id = None
    if not bit_ids:
        cand = mask_candidates(m, q)
        if cand:
            raise PartialSweep('%s: the cells of qubit %s are selected with mask %s, which is not 1 << %s' % (m.short, q['name'], cand, q['name']), m.ln)
    if len(loops) < 2:
        raise AnalysisBroken('%s: expected an accumulation loop and a collapse loop' % m.short)
    aliases = KP.size_aliases(m.body, amp)
    try:
        sw1 = KP.state_sweep(loops[0], amp, bit_ids, aliases, m.body)
        sw2 = KP.state_sweep(loops[-1], amp, bit_ids, aliases, m.body)
    except KP.BadSweep as ex:
        raise PartialSweep('%s: %s' % (m.short, ex), loops[-1].get('ln'))
    l1 = sw1
    l2 = sw2
    if l1 is None or l2 is None:
        why = [KP.partial_state_loop(l, amp) for l, x in ((loops[0], l1), (loops[-1], l2)) if x is None]
        if all(why):
            raise PartialSweep('%s: the sweep over the state vector %s' % (m.short, ' / '.join(why)), (loops[0] if l1 is None else loops[-1]).get('ln'))
        raise AnalysisBroken('%s: loops are not full-range loops over the state vector' % m.short)
    info['loop1_ln'] = loops[0].get('ln')
    info['loop2_ln'] = loops[-1].get('ln')
    # accumulation
    try:
        it = KP.PairIter(amp, None, bit_ids, {}, {})
        # what the sweep adds for one pair of cells, visit by visit (a flat sweep meets the pair twice: at its bit-clear and at its
        # bit-set index; a blocked sweep may walk only the halves it needs); the sums are attributed to the bit of the visit
        accs = {0: {}, 1: {}}
        for vs in KP.sweep_visits(l1):
            _fin, acc, wrote = KP.run_visits(it, [vs])
            if wrote:
                raise KP.NotPairwise('accumulation loop writes amplitudes')
            for k_, x_ in acc.items():
                accs[vs['b']][k_] = accs[vs['b']].get(k_, 0) + x_
        ids = set(accs[0]) | set(accs[1])
        if len(ids) == 0:
            raise PartialSweep('%s: the first sweep accumulates nothing (no `p += |amplitude|²` under the bit test)' % m.short, loops[0].get('ln'))
        if len(ids) > 1 and res_decl is not None:
            # several sums are kept (a shared helper returns both branch weights): p1 is the one the outcome is decided by
            used = {x.get('id') for x in SX.walk(res_decl['init']) if x['k'] == 'ref'} & ids
            if len(used) == 1:
                ids = used
        if len(ids) != 1:
            raise KP.NotPairwise('expected one accumulator, found %d' % len(ids))
        p1_id = list(ids)[0]
        info['acc'] = {(0,): sp.simplify(accs[0].get(p1_id, 0)), (1,): sp.simplify(accs[1].get(p1_id, 0))}
    except (KP.NotPairwise, KS.Unfoldable) as e:
        raise AnalysisBroken('%s accumulation loop: %s' % (m.short, e))
    pv = doubles.get(p1_id)
    init = SX.strip(pv.get('init')) if pv else None
    info['p1_init_zero'] = SX.is_node(init) and init.get('v') in (0, 0.0)
    p1 = sp.Symbol('p1', positive=True)
    info['p1sym'] = p1
    # outcome expression
    if res_decl is not None:
        e = SX.strip(res_decl['init'])
        info['res_txt'] = SX.show(e)
        if e['k'] == 'cond':
            cp = SX.cmp_parts(e['c'])
            tv, fv = SX.strip(e['t']), SX.strip(e['f'])
            info['res_ok'] = bool(cp) and cp[0] == '<' and SX.strip(cp[1]).get('id') == r_id and SX.strip(cp[2]).get('id') == p1_id \
                and tv.get('v') == 1 and fv.get('v') == 0
        else:
            cp = SX.cmp_parts(e)
            info['res_ok'] = bool(cp) and cp[0] == '<' and SX.strip(cp[1]).get('id') == r_id and SX.strip(cp[2]).get('id') == p1_id
    # collapse per (b, res)
    for res in (0, 1):
        scal = {p1_id: p1}
        cases = {res_id: res} if res_id else {}
        it = KP.PairIter(amp, l2[1]['id'] if l2[0] == 'flat' else None, bit_ids, scal, cases)
        try:
            it.b = 0
            for v in late_doubles:
                it.scalars[v['id']] = it.amp_expr(v['init'])
            for v, t in late_cases:
                it.cases[v['id']] = it.cond(v['init']) if t == 'bool' else it.val(v['init'])
            it.lazy_idx = {v['id']: v['init'] for v in late_offsets}
            if l2[0] == 'plan':
                # a block-wise sweep: the pair after all visits; a cell counts as written when some visit wrote it
                fin, _acc, wrote = KP.run_visits(it, l2[1])
                for b in (0, 1):
                    info['collapse'][(b, res)] = {b: fin[b]} if b in wrote else {}
            elif l2[0] == 'flat':
                for b in (0, 1):
                    cells, acc = it.run(l2[2], b)
                    info['collapse'][(b, res)] = cells
            else:
                # blocked sweep: both cells of a pair are handled in the one visit of its bit-clear index
                it.zero_vars = set(l2[1])
                cells, acc = it.run(l2[2], 0)
                for b in (0, 1):
                    info['collapse'][(b, res)] = {b: cells[b]} if b in cells else {}
        except (KP.NotPairwise, KS.Unfoldable) as e:
            raise AnalysisBroken('%s collapse loop: %s' % (m.short, e))
    g = prog.cfg(m)
    rets = [n for n in g.nodes if n.kind == 'return']
    info['returns_res'] = bool(rets) and all(SX.is_node(SX.strip(n.e.get('e'))) and SX.strip(n.e['e']).get('id') == res_id for n in rets)
    info['res_id'] = res_id
    info['p1_id'] = p1_id
    return info
