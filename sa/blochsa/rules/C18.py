"""C18 — shots are isolated: an N-shot run equals N independent fresh runs."""
from .. import sx as SX
from ..facts import AnalysisBroken
from ..roles import Roles

EXPLANATION = (
    "Isolation decided structurally: (R18.1) the evaluator used for a shot is a local constructed inside the shot loop body, and "
    "execute() starts with the single-use guard, so no evaluator state can survive a shot; (R18.2) no variable with static storage "
    "duration in src/bloch is mutable, except the frozen list {rng} (draws are a parameter of the property) and capture-less "
    "closure objects; (R18.3) nothing reachable from execute() writes a field of a syntax-tree node or calls a mutating method on "
    "one — fresh nodes built by the evaluator itself excluded — with one frozen, reasoned exception (the array size write under "
    "`size < 0`) whose reason — the analyser assigns the size or rejects the program for every sized declaration — is itself "
    "checked as a must-write-or-throw path rule; (R18.4) the analyser runs once, before the shot loop; (R18.5) the evaluator and "
    "its class records have no static data members. These cover every channel through which one shot could influence the next.")

ACCESSORS = ('back', 'front', 'begin', 'end', 'cbegin', 'cend', 'rbegin', 'rend', 'at', 'get', 'data', 'find', 'operator[]', 'operator*', 'operator->',
             'size', 'empty', 'count', 'value', 'has_value', 'c_str', 'operator bool')

AST_WRITE_EXCEPTIONS = {
    ('exec', 'bloch::compiler::ArrayType::size'):
        'evaluated array size cached in the node; guarded by size < 0, which the analyser makes unreachable: it assigns size (or throws) for every declaration that has a size expression',
}


def _owner(q):
    return q.rsplit('::', 1)[0] if '::' in q else q


def run(prog, chk):
    R = Roles(prog)
    chk.rule('R18.1', 'fresh evaluator per shot; execute is single-use')
    chk.rule('R18.2', 'no mutable static storage (frozen list: rng)')
    chk.rule('R18.3', 'the evaluator never mutates the shared syntax tree (one reasoned, checked exception)')
    chk.rule('R18.4', 'semantic analysis runs once, before the shot loop')
    chk.rule('R18.5', 'evaluator and runtime class records have no static data members')
    evname = R.ev['name']
    # a function-local static initialised from an argument or a local keeps the first call's value for the whole process — across the
    # evaluators of all later shots
    from ..kernels import frozen_static_locals
    for f_ in prog.functions:
        if f_.body and '/third_party/' not in f_.file and f_.file.startswith(prog.repo) and ('/runtime/' in f_.file or '/cli/' in f_.file or '/compiler/' in f_.file):
            for v_, dep in frozen_static_locals(f_):
                chk.ob('R18.2', f_, v_.get('ln', f_.ln), False, 'static local `%s` of %s is initialised from %s: the first call\'s value is kept for every later call and shot'
                       % (v_['name'], f_.short, dep), key='frozen-static:%s:%s' % (f_.short, v_['name']))
    # ---- R18.1 -----------------------------------------------------------------------------
    cli = [f for f in prog.functions if f.file.endswith('cli.cpp') and f.body]
    sites = []
    for f in cli:
        for n in SX.walk(f.body, into_lambdas=False):
            if n['k'] == 'mcall' and n['callee'] == evname + '::execute':
                sites.append((f, n))
    chk.count('execute() call sites in the CLI', len(sites), 2)
    from ..kernels import enclosing_stmts
    for f, n in sites:
        obj = SX.strip(n['obj'])
        chain = enclosing_stmts(f.body, n)
        loops = [s for s in chain if s['k'] in ('for', 'while', 'do', 'forrange')]
        decl = None
        for v in SX.walk(f.body, into_lambdas=False):
            if v['k'] == 'var' and SX.is_node(obj) and v['id'] == obj.get('id'):
                decl = v
        ok = decl is not None and decl['type'] == evname and not decl.get('static') and not decl.get('isref')
        if ok and loops:
            inner = loops[-1]
            ok = any(x is decl for x in SX.walk(inner['body'], into_lambdas=False))
        chk.ob('R18.1', f, n.get('ln', f.ln), ok, 'the evaluator executing a shot must be a local constructed inside the innermost enclosing loop body%s' % (
            '' if loops else ' (single run: a local of the run function)'), key='fresh-evaluator:%s' % ('loop' if loops else 'single'))
    ex = R.ev_method('execute')
    g = prog.cfg(ex)
    bools = {f['name'] for f in R.ev['fields'] if f['type'] == 'bool'}
    guard_ok = False
    for c in g.nodes:
        if c.kind == 'cond' and SX.is_this_member(SX.strip(c.e)) and SX.strip(c.e)['name'] in bools:
            flag = SX.strip(c.e)['name']
            r = g.reachable([c.succ[0]])
            throws = g.exit.id not in r and any(g.nodes[i].kind == 'throw' for i in r)
            sets = [n for n, l, rr, op in g.writes() if SX.is_this_member(SX.strip(l), flag) and SX.is_node(rr) and rr['k'] == 'bool' and rr['v']]
            first_calls = [x for x in g.calls(lambda e: e['k'] == 'mcall' and e['callee'].startswith(evname + '::'))]
            if throws and sets and all(g.must_precede([c], x) and g.must_precede(sets, x) for x in first_calls):
                # nobody resets the flag
                resets = [f for f in R.ev_methods() if f.body and any(
                    (lambda w: w and SX.is_this_member(SX.strip(w[0]), flag) and not (SX.is_node(w[1]) and w[1]['k'] == 'bool' and w[1]['v']))(SX.write_target(n))
                    for n in SX.walk(f.body))]
                guard_ok = not resets
    chk.ob('R18.1', ex, ex.ln, guard_ok, 'execute() must refuse a second use: test-and-throw on a flag that is set before anything runs and never cleared', key='single-use')

    # ---- R18.2 -----------------------------------------------------------------------------
    frozen = {'bloch::runtime::rng': 'process-global RNG: the random draws are a parameter of the property'}
    ng = 0
    for key, gl in prog.facts.globals.items():
        ng += 1
        ok = gl['const'] or 'lambda at' in gl['type'] or gl['name'] in frozen
        why = 'const' if gl['const'] else ('capture-less closure object' if 'lambda at' in gl['type'] else frozen.get(gl['name'], 'mutable static storage survives a shot'))
        if 'lambda at' in gl['type'] and not gl['const']:
            init = gl.get('init')
            ok = SX.is_node(init) and init.get('k') == 'lambda' and not init.get('captures') and not init.get('defcap')
        chk.ob('R18.2', gl['name'], '%s:%s' % (prog.rel(gl['file']), gl['ln']), ok, 'static-storage variable %s: %s' % (gl['name'].split('::')[-1], why), key='static:' + gl['name'].split('::')[-1],
               nontrivial=not gl['const'])
    chk.count('variables with static storage duration', ng, 10)

    # ---- R18.3 -----------------------------------------------------------------------------
    ast = {r['name'] for r in prog.facts.subclasses('bloch::compiler::ASTNode')} | {'bloch::compiler::ASTNode', 'bloch::compiler::Program'}
    if len(ast) < 40:
        raise AnalysisBroken('syntax-tree node classes not resolved (%d)' % len(ast))
    reach = prog.reach([ex])
    nw = 0
    for f in reach:
        if not f.body:
            continue
        fresh = _fresh_locals(f)
        for n in SX.walk(f.body, into_lambdas=False):
            hit = None
            w = SX.write_target(n)
            if w:
                hit = _ast_member_in(SX.strip(w[0]), ast, fresh)
                kind = 'write'
            elif n['k'] == 'mcall' and not n.get('constm', True) and SX.short(n['callee']) not in ACCESSORS:
                hit = _ast_member_in(n.get('obj'), ast, fresh)
                kind = 'call ' + SX.short(n['callee'])
            elif n['k'] == 'call' and n.get('callee') == 'std::move':
                hit = _ast_member_in(n['args'][0] if n['args'] else None, ast, fresh)
                kind = 'move-from'
            if not hit:
                continue
            nw += 1
            exc = AST_WRITE_EXCEPTIONS.get((f.short, hit))
            ok = False
            detail = '%s of syntax-tree member %s in %s: the tree is shared by all shots' % (kind, hit.split('::')[-2] + '::' + hit.split('::')[-1], f.short)
            if exc:
                gg = prog.cfg(f)
                node = [c for c in gg.nodes if c.e is n]
                guarded = bool(node) and any(pol and _lt_zero(ce, hit.split('::')[-1]) for ce, pol, _ in gg.guards(node[0]))
                premise = _analyser_assigns_size(prog)
                ok = guarded and premise
                detail += '; exception (%s): guard present=%s, analyser premise holds=%s' % (exc, guarded, premise)
            chk.ob('R18.3', f, n.get('ln', f.ln), ok, detail, key='ast-write:%s:%s' % (f.short, hit.split('::')[-1]))
    chk.extra['ast_mutations_reachable_from_execute'] = nw
    chk.extra['functions_reachable_from_execute'] = len(reach)
    chk.count('functions reachable from execute', len(reach), 60)
    # positive control: the matcher recognises a write to an AST member
    if not _ast_member_in({'k': 'member', 'name': 'size', 'q': 'bloch::compiler::ArrayType::size', 'base': {'k': 'ref', 'kind': 'var', 'name': 'arr', 'id': 'x'}}, ast, set()):
        raise AnalysisBroken('R18.3 matcher does not recognise its positive control')

    # ---- R18.4 -----------------------------------------------------------------------------
    for f in cli:
        an = [n for n in SX.walk(f.body, into_lambdas=False) if n['k'] == 'mcall' and SX.short(n['callee']) == 'analyse']
        for n in an:
            loops = [s for s in enclosing_stmts(f.body, n) if s['k'] in ('for', 'while', 'do', 'forrange')]
            gg = prog.cfg(f)
            node = [c for c in gg.nodes if c.e is n]
            execs = [c for c in gg.calls(lambda e: e['k'] == 'mcall' and e['callee'] == evname + '::execute')]
            ok = not loops and bool(node) and all(gg.must_precede(node, x) for x in execs)
            chk.ob('R18.4', f, n.get('ln', f.ln), ok, 'analyse() runs once, outside any loop, before every execute()', key='analyse-once')

    chk.rule('R18.6', 'the per-shot logging switch decides nothing but the log')
    _log_switch_rule(prog, chk, R)
    _presentation_switches(prog, chk, R)
    # ---- R18.5 -----------------------------------------------------------------------------
    for rn in (evname, 'bloch::runtime::RuntimeClass', 'bloch::runtime::Object', 'bloch::runtime::QasmSimulator'):
        rec = prog.facts.records.get(rn)
        if not rec:
            raise AnalysisBroken('record %s not found' % rn)
        st = [f['name'] for f in rec['fields'] if f['static'] and not f.get('const')]
        chk.ob('R18.5', rn, '%s:%s' % (prog.rel(rec['file']), rec['ln']), not st, '%s has mutable static data members: %s' % (rn.split('::')[-1], st), key='no-statics:' + rn.split('::')[-1],
               nontrivial=False)


def _log_switch_rule(prog, chk, R):
    """R18.6 — the shots of one run differ in exactly one constructor argument: whether the simulator logs OpenQASM (only the last
    shot does).  A shot equals a fresh run only if that switch decides nothing but the log: in the simulator, every write that is
    guarded by the switch goes to the log itself."""
    flag, ops = R.sim_log_flag, R.sim_ops_field
    n = 0
    for f in R.sim_methods():
        if not f.body:
            continue
        g = prog.cfg(f)
        for node in g.nodes:
            if node.kind not in ('assign', 'incdec', 'call') or not SX.is_node(node.e):
                continue
            w = SX.write_target(node.e)
            tgt = SX.strip(w[0]) if w else (SX.strip(node.e.get('obj')) if node.e.get('k') == 'mcall' and not node.e.get('constm', True) else None)
            if tgt is None:
                continue
            root = tgt
            while SX.is_node(root) and root.get('k') in ('index', 'member') and not SX.is_this_member(root):
                root = SX.strip(root.get('base'))
            if not SX.is_this_member(root):
                continue
            guarded = [ce for ce, pol, ed in g.guards(node) if any(x.get('k') == 'member' and x.get('name') == flag and SX.is_this_member(x) for x in SX.walk(ce))]
            if not guarded:
                continue
            n += 1
            chk.ob('R18.6', f, node.ln or f.ln, root['name'] == ops,
                   'a write to %s in %s is conditional on the logging switch %s: only the last shot of a run logs, so the other shots then differ from a fresh run' % (
                       root['name'], f.short, flag), key='log-switch:%s:%s' % (f.short, root['name']))
    chk.count('simulator writes under the logging switch', n, 5)
    # the switch is fixed at construction: nothing but constructors writes it
    wr = sorted({f.short for f in R.sim_methods() if f.body for x in SX.walk(f.body) for w in [SX.write_target(x)] if w and SX.is_this_member(SX.strip(w[0]), flag)})
    chk.ob('R18.6', R.sim['name'], 'qasm_simulator', not wr, 'the logging switch is set by the constructor only (also written in: %s)' % wr, key='log-switch:const', nontrivial=False)
    # the evaluator's copy of the switch (the constructor argument it forwards to the simulator) decides nothing either: no change of
    # evaluator or simulator state is conditional on it
    simname = R.sim['name']
    evfile = R.ev_method('execute').file
    fns = [f for f in prog.functions if f.body and f.file == evfile]
    flags = set()
    for f in fns:
        for x in SX.walk(f.body, into_lambdas=False):
            if x.get('k') == 'construct' and x.get('type') == simname:
                for a in x.get('args') or []:
                    a = SX.strip(a)
                    if SX.is_node(a) and a.get('k') == 'member' and SX.is_this_member(a) and a.get('t') == 'bool':
                        flags.add(a['name'])
    if not flags:
        raise AnalysisBroken('the evaluator constructs its simulator without a logging switch of its own')
    reads = 0
    for f in fns:
        if not any(x.get('k') == 'member' and x.get('name') in flags for x in SX.walk(f.body, into_lambdas=False)):
            continue
        g = prog.cfg(f)
        tainted = set()
        for x in SX.walk(f.body, into_lambdas=False):
            if x.get('k') == 'var' and SX.is_node(x.get('init')) and any(y.get('k') == 'member' and y.get('name') in flags and SX.is_this_member(y) for y in SX.walk(x['init'])) \
                    and not any(y.get('k') == 'construct' and y.get('type') == simname for y in SX.walk(x['init'])):
                tainted.add(x['id'])

        def on_flag(ce):
            return any((y.get('k') == 'member' and y.get('name') in flags and SX.is_this_member(y)) or (y.get('k') == 'ref' and y.get('id') in tainted) for y in SX.walk(ce))
        for node in g.nodes:
            if not SX.is_node(node.e):
                continue
            if node.kind == 'edge':
                if on_flag(node.e):
                    reads += 1
                continue
            if node.kind not in ('assign', 'incdec', 'call'):
                continue
            if not [1 for ce, pol, ed in g.guards(node) if on_flag(ce)]:
                continue
            e = node.e
            w = SX.write_target(e)
            bad = None
            if w:
                root = SX.strip(w[0])
                while SX.is_node(root) and root.get('k') in ('index', 'member') and not SX.is_this_member(root):
                    root = SX.strip(root.get('base'))
                if SX.is_this_member(root):
                    bad = 'write to ' + root['name']
            for c in SX.walk(e, into_lambdas=False):
                if c.get('k') == 'mcall' and not c.get('constm', True):
                    o = SX.strip(c.get('obj'))
                    if SX.is_node(o) and (o.get('k') == 'this' or SX.is_this_member(o)):
                        bad = 'call of %s' % SX.show(c)[:60]
            chk.ob('R18.6', f, node.ln or f.ln, bad is None,
                   'in %s a %s is conditional on the evaluator\'s per-shot logging switch: only the last shot of a run logs, so the other shots then differ from a fresh run' % (
                       f.short, bad), key='ev-log-switch:%s:%s' % (f.short, bad))
    chk.ob('R18.6', R.ev['name'], 'runtime_evaluator', True, '', key='ev-log-switch:%s' % ','.join(sorted(flags)), nontrivial=False)



def _presentation_switches(prog, chk, R):
    """R18.6 (second half) — besides the logging switch, the CLI sets per-shot *presentation* switches on each evaluator (echo on/off,
    warn-at-exit on/off); they differ from shot to shot (only the last shot warns, echo is off in multi-shot mode).  A shot equals a
    fresh run only if such a switch decides nothing but what is shown: in the evaluator, code that is conditional on one of them may
    append to / print the output buffer and call const members — no other state change, no non-const member call."""
    ev = R.ev
    evname = ev['name']
    cli = [f for f in prog.functions if f.body and f.file.endswith('cli/cli.cpp')]
    setters = set()
    for f in cli:
        for c in SX.walk(f.body):
            if c.get('k') == 'mcall' and (c.get('callee') or '').startswith(evname + '::') and SX.short(c['callee']).startswith('set'):
                setters.add(c['callee'])
    switches = {}
    for s_ in setters:
        for t in prog.by_name.get(s_, []):
            if not t.body:
                continue
            for n in SX.walk(t.body):
                w = SX.write_target(n)
                if w and SX.is_this_member(SX.strip(w[0])) and (SX.strip(w[0]).get('t') == 'bool'):
                    switches[SX.strip(w[0])['name']] = t.short
    chk.count('per-shot presentation switches the CLI sets', len(switches), 2)
    out_members = {f['name'] for f in ev['fields'] if f['type'] in ('std::vector<std::string>',) or 'ostream' in f['type'] or 'ostringstream' in f['type']}
    nsite = 0
    for f in [x for x in prog.functions if x.body and x.file.endswith('runtime_evaluator.cpp')]:
        if not any(x.get('k') == 'member' and x.get('name') in switches and SX.is_this_member(x) for x in SX.walk(f.body, into_lambdas=False)):
            continue
        if f.short in switches.values():
            continue
        g = prog.cfg(f)
        for node in g.nodes:
            if node.kind not in ('assign', 'incdec', 'call') or not SX.is_node(node.e):
                continue
            gs = [ce for ce, pol, ed in g.guards(node) if any(y.get('k') == 'member' and y.get('name') in switches and SX.is_this_member(y) for y in SX.walk(ce))]
            if not gs:
                # (a disjunction has no single dominating edge: look at the enclosing `if`s themselves)
                from ..kernels import enclosing_stmts
                gs = [st['c'] for st in enclosing_stmts(f.body, node.e, into_lambdas=False) if st.get('k') == 'if' and SX.is_node(st.get('c')) and
                      any(y.get('k') == 'member' and y.get('name') in switches and SX.is_this_member(y) for y in SX.walk(st['c']))]
            if not gs:
                continue
            nsite += 1
            bad = None
            w = SX.write_target(node.e)
            if w:
                root = SX.strip(w[0])
                while SX.is_node(root) and root.get('k') in ('index', 'member') and not SX.is_this_member(root):
                    root = SX.strip(root.get('base'))
                if SX.is_this_member(root) and root['name'] not in out_members:
                    bad = 'write to ' + root['name']
            for c in SX.walk(node.e, into_lambdas=False):
                if c.get('k') == 'mcall' and not c.get('constm', True):
                    o = SX.strip(c.get('obj'))
                    if SX.is_node(o) and o.get('k') == 'this':
                        bad = 'call of %s' % SX.short(c['callee'])
                    elif SX.is_this_member(o) and o['name'] not in out_members:
                        bad = 'call of %s.%s' % (o['name'], SX.short(c['callee']))
            sw = sorted({y['name'] for ce in gs for y in SX.walk(ce) if y.get('k') == 'member' and y.get('name') in switches})
            chk.ob('R18.6', f, node.ln or f.ln, bad is None,
                   'in %s a %s is conditional on the per-shot presentation switch %s: the shots of one run differ in it, so they then differ from a fresh run in more than what is shown' % (
                       f.short, bad, sw), key='presentation-switch:%s:%s' % (f.short, bad))
    chk.count('evaluator actions conditional on a presentation switch', nsite, 2)


def _fresh_locals(f):
    """ids of locals that own a node the function created itself (make_unique / new / local value)"""
    out = set()
    for n in SX.walk(f.body, into_lambdas=False):
        if n['k'] == 'var' and SX.is_node(n.get('init')):
            i = SX.strip(n['init'])
            if i.get('k') == 'call' and i.get('callee') in ('std::make_unique', 'std::make_shared'):
                out.add(n['id'])
            if i.get('k') == 'new':
                out.add(n['id'])
        if n['k'] == 'var' and not n.get('isref') and '*' not in n['type'] and 'bloch::compiler::' in n['type'] and 'unique_ptr' not in n['type'] and 'shared_ptr' not in n['type']:
            out.add(n['id'])
    return out


def _ast_member_in(e, ast, fresh):
    """qualified name of the first syntax-tree member on the access path of e, unless the path is rooted in a fresh local"""
    x = e
    found = None
    while SX.is_node(x):
        k = x['k']
        if k == 'member':
            if _owner(x.get('q', '')) in ast:
                found = x['q']
            x = x['base']
        elif k == 'index':
            x = x['base']
        elif k == 'opcall' and x['args']:
            x = x['args'][0]
        elif k == 'mcall':
            x = x.get('obj')
        elif k == 'un' and x['op'] == '*':
            x = x['e']
        elif k in ('cast', 'dyncast'):
            x = x['e']
        else:
            break
    if found and SX.is_node(x) and x['k'] == 'ref' and x.get('id') in fresh:
        return None
    return found


def _lt_zero(ce, field):
    cp = SX.cmp_parts(ce)
    return bool(cp) and cp[0] == '<' and SX.is_node(cp[1]) and cp[1].get('k') == 'member' and cp[1]['name'] == field and SX.is_node(cp[2]) and cp[2].get('v') == 0


def _analyser_assigns_size(prog):
    """In the analyser's visit(VariableDeclaration&): on every normal path where the declaration has a size expression, ArrayType::size is assigned."""
    fs = [f for f in prog.methods_of('bloch::compiler::SemanticAnalyser') if f.short == 'visit' and 'VariableDeclaration' in f.sig]
    if len(fs) != 1:
        return False
    f = fs[0]
    g = prog.cfg(f)
    writes = [n for n, l, r, op in g.writes() if SX.is_node(SX.strip(l)) and SX.strip(l).get('k') == 'member' and SX.strip(l).get('q') == 'bloch::compiler::ArrayType::size']
    from ..kcanon import Canon
    canon = Canon(prog, f)

    def shown(e):
        # the test may go through a local (`Expression* sizeExpr = arr.sizeExpression.get(); if (sizeExpr) …`)
        return SX.show(canon.expand(SX.strip(e)))
    edges = [n for n in g.nodes if n.kind == 'edge' and n.pol and SX.is_node(n.e) and 'sizeExpression' in shown(n.e) and SX.cmp_parts(n.e) is None and
             not any(x['k'] in ('mcall', 'call') and SX.short(SX.callee(x)) not in ('operator bool', 'get') for x in SX.walk(n.e))]
    if not writes or not edges:
        return False
    return all(g.must_follow(e, writes) for e in edges)
