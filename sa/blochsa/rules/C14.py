"""C14 — the parser realises the documented grammar (tables, not the round-trip itself)."""
import os
import re
from .. import sx as SX
from ..facts import AnalysisBroken

EXPLANATION = (
    "Table-shaped part of the grammar decided exhaustively from extracted tables: (R14.1) the binding powers of every infix token, the "
    "prefix power, the loop's exit comparison and the powers passed to the recursive calls are extracted from the Pratt parser; for "
    "every ordered pair of binary operators the Pratt decision ('op2 joins the right operand of op1 iff lbp(op2) ≥ rbp(op1)') is "
    "compared with the grouping dictated by the precedence chain parsed from docs/grammar.md (all levels left-associative), and the "
    "prefix/binary and prefix/postfix interplay likewise — independent of the numeric values chosen; (R14.2) every operator spelled in "
    "the grammar is produced by the lexer as the token the parser binds, every token the parser tests can be produced by the lexer, "
    "and every keyword the lexer produces is consumed somewhere in the parser; (R14.3) all places that decide 'a type starts here' test "
    "the same set of primitive-type tokens, which covers the documented primitive types; (R14.4) every statement keyword of the grammar "
    "has its dispatch branch in parseStatement. Tree equality after render/parse for statement and class-member shapes is not decided.")


def _grammar(repo):
    txt = open(os.path.join(repo, 'docs', 'grammar.md')).read()
    m = re.search(r'```(.*?)```', txt, re.S)
    if not m:
        raise AnalysisBroken('docs/grammar.md has no grammar block')
    body = m.group(1)
    rules = {}
    for rm in re.finditer(r'^(\w+)\s*=\s*(.*?);\s*$', body, re.S | re.M):
        rules[rm.group(1)] = ' '.join(rm.group(2).split())
    return rules


def _chain(rules):
    """[(level name, [operator spellings])] from lowest to highest precedence, following  X = Y { (ops) Y }"""
    out = []
    cur = None
    m = re.match(r'(\w+)\s*\[\s*"="', rules.get('assignmentExpression', ''))
    if not m:
        raise AnalysisBroken('grammar: assignmentExpression not in the expected form')
    cur = m.group(1)
    seen = set()
    while cur in rules and cur not in seen:
        seen.add(cur)
        r = rules[cur]
        m = re.match(r'(\w+)\s*\{\s*(.*?)\s+(\w+)\s*\}\s*$', r)
        if not m or m.group(1) != m.group(3):
            break
        ops = re.findall(r'"([^"]+)"', m.group(2))
        out.append((cur, ops))
        cur = m.group(1)
    return out, cur


def _one_char_text(lp, site, txt):
    """`for (row : table) if (row.ch == c) return makeToken(row.type, std::string(1, c))` — the token text is one character, equal
    to the row's character on the path to the site (or the row's character itself)"""
    a = SX.real_args(txt) if txt.get('k') == 'construct' else []
    if len(a) != 2 or SX.strip(a[0]).get('v') != 1:
        return False
    c = SX.strip(a[1])
    vid = lp['var'].get('id')

    def row_member(e):
        e = SX.strip(e)
        return SX.is_node(e) and e.get('k') == 'member' and SX.is_node(SX.strip(e.get('base'))) and SX.strip(e['base']).get('id') == vid

    if row_member(c):
        return True
    if not (SX.is_node(c) and c.get('k') == 'ref'):
        return False
    for i in SX.walk(lp['body']):
        if i['k'] == 'if' and any(y is site for y in SX.walk(i.get('t'))):
            cp = SX.cmp_parts(SX.strip(i.get('c')))
            if cp and cp[0] == '==':
                for x, y in ((cp[1], cp[2]), (cp[2], cp[1])):
                    if row_member(x) and SX.is_node(SX.strip(y)) and SX.strip(y).get('id') == c.get('id'):
                        return True
    return False


def run(prog, chk):
    chk.rule('R14.1', 'all-pairs grouping of the Pratt table equals the documented precedence chain (left-associative), prefix/postfix interplay included')
    chk.rule('R14.2', 'operator and keyword tokens: grammar ↔ lexer ↔ parser agree')
    chk.rule('R14.3', 'every "type starts here" test uses the same primitive-type token set')
    chk.rule('R14.4', 'every statement keyword of the grammar has a dispatch branch')
    rules = _grammar(prog.repo)
    chain, unary_rule = _chain(rules)
    if len(chain) < 9:
        raise AnalysisBroken('grammar precedence chain too short: %s' % [c[0] for c in chain])
    # ---- lexer spelling table ------------------------------------------------------------------
    st = prog.fn('Lexer::scanToken')
    spell = {}
    for n in SX.walk(st.body):
        if n['k'] == 'mcall' and SX.short(n['callee']) == 'makeToken':
            a = SX.real_args(n)
            t = SX.strip(a[0])
            txt = SX.strip(a[1])
            lit = txt.get('v') if txt.get('k') == 'str' else (SX.strip(SX.real_args(txt)[0]).get('v') if txt.get('k') == 'construct' and len(SX.real_args(txt)) == 1 else None)
            if t.get('kind') == 'enum' and isinstance(lit, str):
                spell[lit] = t['name'].split('::')[-1]
            elif t.get('k') == 'member' and txt.get('k') in ('member', 'construct'):
                # table-driven scanner: makeToken(rule.type, rule.text) for a row of a constant table — every row of the table
                # the loop runs over contributes (text, token)
                for lp in SX.walk(st.body):
                    if lp['k'] == 'forrange' and any(y is n for y in SX.walk(lp['body'])):
                        rng = SX.strip(lp['range'])
                        if SX.is_node(rng) and rng.get('k') == 'ref' and rng.get('global'):
                            for gl in prog.facts.globals.values():
                                if gl['name'].split('::')[-1] == rng['name'].split('::')[-1] and gl['file'].endswith('lexer.cpp') and SX.is_node(gl.get('init')):
                                    for row in SX.walk(gl['init']):
                                        if row['k'] in ('initlist', 'construct'):
                                            items = [SX.strip(x) for x in (row.get('items') or row.get('args') or [])]
                                            toks = [x for x in items if SX.is_node(x) and x.get('k') == 'ref' and x.get('kind') == 'enum' and 'TokenType' in x.get('name', '')]
                                            strs = [x for x in items if SX.is_node(x) and x.get('k') == 'str']
                                            chs = [x for x in items if SX.is_node(x) and x.get('k') == 'char']
                                            if len(toks) == 1 and len(strs) == 1:
                                                spell[strs[0]['v']] = toks[0]['name'].split('::')[-1]
                                            elif len(toks) == 1 and not strs and len(chs) == 1 and len(items) == 2 and _one_char_text(lp, n, txt):
                                                # single-character rows {ch, type}: the text is the consumed character, which the
                                                # enclosing test equates with the row's character
                                                spell[chr(chs[0]['v'])] = toks[0]['name'].split('::')[-1]
    kw = {}
    for gl in prog.facts.globals.values():
        if gl['name'].endswith('keywords') and gl['file'].endswith('lexer.cpp'):
            for n in SX.walk(gl['init']):
                if n['k'] in ('initlist', 'construct') and len(n.get('items') or n.get('args') or []) == 2:
                    a, b = (n.get('items') or n.get('args'))
                    a, b = SX.strip(a), SX.strip(b)
                    s = a.get('v') if a.get('k') == 'str' else None
                    if s is None and a.get('k') == 'construct':
                        s = next((x.get('v') for x in SX.real_args(a) if SX.is_node(x) and x.get('k') == 'str'), None)
                    if isinstance(s, str) and b.get('kind') == 'enum':
                        kw[s] = b['name'].split('::')[-1]
    chk.count('operator spellings produced by the lexer', len(spell), 30)
    chk.count('keywords produced by the lexer', len(kw), 25)
    # ---- Pratt table -----------------------------------------------------------------------------
    ib = [f for f in prog.functions if f.short == 'infixBinding' and f.file.endswith('parser.cpp')]
    if len(ib) != 1:
        raise AnalysisBroken('infixBinding not found')
    table = {}
    pending = []

    def cases(s):
        nonlocal pending
        if s is None:
            return
        if s['k'] == 'block':
            for c in s['body']:
                cases(c)
        elif s['k'] == 'switch':
            cases(s['body'])
        elif s['k'] == 'case':
            v = SX.strip(s['v'])
            pending.append(v['name'].split('::')[-1])
            cases(s['s'])
        elif s['k'] == 'default':
            pending = []
            cases(s['s'])
        elif s['k'] == 'return':
            e = SX.strip(s.get('e'))
            vals = None
            for n in SX.walk(e):
                if n['k'] in ('initlist', 'construct') and 'Binding' in n.get('type', '') and len(n.get('items') or SX.real_args(n)) == 3:
                    it = n.get('items') or SX.real_args(n)
                    vals = (SX.strip(it[0]).get('v'), SX.strip(it[1]).get('v'), SX.strip(it[2]).get('name', '').split('::')[-1])
            if vals and pending:
                for t in pending:
                    table[t] = vals
            pending = []
    cases(ib[0].body)
    chk.count('infix binding entries', len(table), 20)
    prefix_bp = None
    for gl in prog.facts.globals.values():
        if gl['name'].endswith('kPrefixBindingPower'):
            prefix_bp = SX.strip(gl['init']).get('v')
    if prefix_bp is None:
        raise AnalysisBroken('prefix binding power constant not found')
    pratt = prog.fn('Parser::parsePrattExpression')
    g = prog.cfg(pratt)
    # loop exit: break when binding->lbp < minBp  (strict)
    exit_ok = False
    for c in g.nodes:
        if c.kind == 'cond':
            cp = SX.cmp_parts(c.e)
            if cp and 'lbp' in SX.show(cp[1]) and SX.strip(cp[2]).get('id') == pratt.params[0]['id']:
                tr = g.reachable([c.succ[0]])
                brk = [n for n in g.nodes if n.kind == 'break' and n.id in tr]
                exit_ok = cp[0] == '<' and bool(brk)
                exit_txt = SX.show(c.e)
    chk.ob('R14.1', pratt, pratt.ln, exit_ok, 'the Pratt loop stops exactly when lbp(next operator) < current minimum (found %s)' % locals().get('exit_txt', 'no such test'), key='pratt-exit')
    recs = [c for c in g.calls(lambda e: e['k'] == 'mcall' and e['callee'] == pratt.name)]
    from ..kcanon import Canon
    _cn = Canon(prog, pratt)
    # the binding power may reach the recursive call through a local (a value parameter of an extracted helper)
    _arg = SX.show(_cn.expand(SX.strip(SX.real_args(recs[0].e)[0]))) if len(recs) == 1 else ''
    rec_ok = len(recs) == 1 and 'rbp' in _arg and _arg.startswith('binding')
    chk.ob('R14.1', pratt, recs[0].ln if recs else pratt.ln, rec_ok, 'the right operand of an infix operator is parsed with that operator\'s rbp', key='pratt-recursion')
    pre = prog.fn('Parser::parsePrefixExpression')
    pcalls = [n for n in SX.walk(pre.body) if n['k'] == 'mcall' and n['callee'] == pratt.name]
    pre_ok = len(pcalls) == 1 and 'kPrefixBindingPower' in SX.show(SX.real_args(pcalls[0])[0])
    chk.ob('R14.1', pre, pre.ln, pre_ok, 'a prefix operator parses its operand with the prefix binding power', key='prefix-recursion')
    # entry with minimum 0 from the assignment level
    # ---- all pairs --------------------------------------------------------------------------------
    level = {}
    binops = []
    for i, (name, ops) in enumerate(chain):
        for o in ops:
            if o not in spell:
                chk.ob('R14.2', st, st.ln, False, 'grammar operator "%s" (%s) is not produced by the lexer' % (o, name), key='lexes:' + o)
                continue
            tok = spell[o]
            level[tok] = i
            binops.append((o, tok))
            chk.ob('R14.2', ib[0], ib[0].ln, tok in table and table[tok][2] == 'Infix', 'grammar operator "%s" (%s) has an infix binding' % (o, tok), key='binds:' + o)
    chk.count('binary operators in the grammar', len(binops), 16)
    bad = []
    npairs = 0
    for o1, t1 in binops:
        for o2, t2 in binops:
            if t1 not in table or t2 not in table:
                continue
            npairs += 1
            pratt_right = table[t2][0] >= table[t1][1]          # op2 absorbed into the right operand of op1
            want_right = level[t2] > level[t1]                  # strictly higher precedence binds tighter; equal → left-assoc
            if pratt_right != want_right:
                bad.append('a %s b %s c groups %s, grammar says %s' % (o1, o2, 'a %s (b %s c)' % (o1, o2) if pratt_right else '(a %s b) %s c' % (o1, o2),
                                                                         'right' if want_right else 'left'))
    chk.extra['operator_pairs'] = npairs
    chk.ob('R14.1', ib[0], ib[0].ln, not bad, 'all %d ordered operator pairs group as the grammar dictates; mismatches: %s' % (npairs, bad[:4]), key='all-pairs')
    # prefix vs binary / postfix
    m = re.match(r'\((.*?)\)\s*unary\s*\|\s*(\w+)', rules.get(unary_rule, ''))
    if not m:
        raise AnalysisBroken('grammar: unary rule not in the expected form: %s' % rules.get(unary_rule))
    prefix_ops = re.findall(r'"([^"]+)"', m.group(1))
    badp = [o for o, t in binops if t in table and table[t][0] >= prefix_bp]
    chk.ob('R14.1', ib[0], ib[0].ln, not badp, 'prefix operators bind tighter than every binary operator (−a op b is (−a) op b); offending: %s' % badp, key='prefix-vs-binary')
    post = {t: v for t, v in table.items() if v[2] == 'Postfix'}
    badq = [t for t, v in post.items() if v[0] < prefix_bp]
    chk.ob('R14.1', ib[0], ib[0].ln, bool(post) and not badq, 'postfix/call/index/member bind tighter than prefix operators (−a[i] is −(a[i])); offending: %s' % badq, key='prefix-vs-postfix')
    # postfix binds tighter than all binary, and prefix tokens tested by the parser equal the grammar's
    badr = [o for o, t in binops if t in table and any(table[t][1] > v[0] for v in post.values())]
    chk.ob('R14.1', ib[0], ib[0].ln, not badr, 'postfix operators attach to the nearest operand, not to a binary expression; offending: %s' % badr, key='binary-vs-postfix')
    ptoks = sorted({x['name'].split('::')[-1] for x in SX.walk(pre.body) if x['k'] == 'ref' and x.get('kind') == 'enum'})
    want_p = sorted(spell[o] for o in prefix_ops if o in spell)
    chk.ob('R14.2', pre, pre.ln, ptoks == want_p, 'prefix operators tested by the parser %s = grammar %s' % (ptoks, want_p), key='prefix-set')
    # postfix spellings of the grammar
    for o in re.findall(r'"(\+\+|--|\(|\[)"', rules.get('postfix', '')):
        t = spell.get(o)
        chk.ob('R14.2', ib[0], ib[0].ln, t in post, 'grammar postfix form "%s" has a postfix binding' % o, key='postfix:' + o, nontrivial=False)

    # ---- R14.2 tokens tested by the parser are producible; keywords are consumed --------------------
    pfuncs = [f for f in prog.functions if f.file.endswith('parser.cpp') and f.body]
    tested = set()
    for f in pfuncs:
        for n in SX.walk(f.body):
            if n['k'] == 'ref' and n.get('kind') == 'enum' and '::TokenType::' in n['name']:
                tested.add(n['name'].split('::')[-1])
    producible = set(spell.values()) | set(kw.values()) | {'Identifier', 'Eof', 'Unknown'}
    lexfns = [f for f in prog.functions if f.file.endswith('lexer.cpp') and f.body]
    for f in lexfns:
        for n in SX.walk(f.body):
            if n['k'] == 'ref' and n.get('kind') == 'enum' and '::TokenType::' in n['name']:
                producible.add(n['name'].split('::')[-1])
    miss = sorted(tested - producible)
    chk.ob('R14.2', 'Parser', 'src/bloch/compiler/parser/parser.cpp', not miss, 'every token kind the parser tests can be produced by the lexer; never produced: %s' % miss, key='parser-tokens-producible')
    unused = sorted(set(kw.values()) - tested)
    chk.ob('R14.2', 'Parser', 'src/bloch/compiler/parser/parser.cpp', not unused, 'every keyword token the lexer produces is consumed by the parser; unused: %s' % unused, key='keywords-consumed')

    # ---- R14.3 type-start sets -----------------------------------------------------------------------
    prim_doc = set(re.findall(r'"(\w+)"', rules.get('primitiveType', '')))
    sites = {}
    for name in ('isTypeAhead', 'parseType', 'parsePrimitiveType'):
        f = prog.fn('Parser::' + name)
        sites[name] = _tested_tokens(prog, f, ('check',))
    prims_tok = {t for s, t in kw.items() if s in prim_doc} | {kw[s] for s in ('long', 'boolean') if s in kw}
    base = sites['parsePrimitiveType'] & set(kw.values())
    for name, toks in sites.items():
        ptoks_here = {t for t in toks if t in prims_tok}
        want = base | ({'Void'} if name != 'parsePrimitiveType' else set())
        chk.ob('R14.3', prog.fn('Parser::' + name), prog.fn('Parser::' + name).ln, ptoks_here == want,
               '%s tests primitive-type tokens %s; the primitive parser accepts %s (+Void where a return type may appear)' % (name, sorted(ptoks_here), sorted(base)), key='type-set:' + name)
    docs_tok = {kw[s] for s in prim_doc if s in kw}
    chk.ob('R14.3', prog.fn('Parser::parsePrimitiveType'), prog.fn('Parser::parsePrimitiveType').ln, docs_tok - {'Void'} <= base,
           'every primitive type of docs/grammar.md is accepted: documented %s, accepted %s' % (sorted(docs_tok), sorted(base)), key='type-set:documented')
    pf = prog.fn('Parser::parseFor')
    uses_helper = any(n['k'] == 'mcall' and SX.short(n['callee']) == 'isTypeAhead' for n in SX.walk(pf.body))
    own = {a['name'].split('::')[-1] for n in SX.walk(pf.body) if n['k'] == 'mcall' and SX.short(n['callee']) == 'check' and SX.real_args(n)
           for a in [SX.strip(SX.real_args(n)[0])] if a.get('kind') == 'enum'} & prims_tok
    chk.ob('R14.3', pf, pf.ln, uses_helper or own == base, 'the for-initialiser decides "declaration" with the shared type-ahead test (or the same token set): helper=%s own set=%s' % (uses_helper, sorted(own)),
           key='type-set:parseFor')

    # lookahead and parser must agree on the extent of a generic type: the parser nests (type arguments are types), so the
    # lookahead's `<…>` skipper must count nesting depth
    ta = prog.fn('Parser::isTypeAhead')
    pt = prog.fn('Parser::parseType')
    nests = any(t is pt for t in prog.reach([f for f in prog.fns('Parser::parseTypeArgumentList')]))
    if nests:
        bodies = [ta] + list(ta.lambdas)
        ok = False
        for b in bodies:
            g = prog.cfg(b)
            counters = {}
            for n, l, r, op in g.writes():
                l = SX.strip(l)
                if op in ('++', '--') and SX.is_node(l) and l.get('k') == 'ref' and l.get('t') in ('int', 'unsigned long', 'long'):
                    for ce, pol, _ in g.guards(n):
                        cp = SX.cmp_parts(ce)
                        if cp and pol and cp[0] == '==':
                            tok = [x['name'].split('::')[-1] for x in (SX.strip(cp[1]), SX.strip(cp[2])) if SX.is_node(x) and x.get('kind') == 'enum']
                            if tok:
                                counters.setdefault(l['id'], set()).add((op, tok[0]))
                                break
            for vid, evs in counters.items():
                zero_exit = any(c.kind == 'cond' and (lambda cp: cp and cp[0] == '==' and SX.strip(cp[1]).get('id') == vid and SX.strip(cp[2]).get('v') == 0)(SX.cmp_parts(c.e)) for c in g.nodes)
                if ('++', 'Less') in evs and ('--', 'Greater') in evs and zero_exit:
                    ok = True
        chk.ob('R14.3', ta, ta.ln, ok, 'type arguments nest in parseType, so the declaration look-ahead must skip `<…>` by counting depth (++ on `<`, -- on `>`, stop at 0); '
               'a first-`>` scan misjudges `Box<Box<int>> x` as an expression', key='typeahead-nesting')

    # ---- R14.4 statement keywords -----------------------------------------------------------------------
    ps = prog.fn('Parser::parseStatement')
    stmt_kw = []
    for alt in rules.get('statement', '').split('|'):
        m1 = re.match(r'\s*"(\w+)"', alt)
        if m1 and m1.group(1) in kw:
            stmt_kw.append(m1.group(1))
    dispatched = _tested_tokens(prog, ps, ('match', 'check'))
    for k in stmt_kw:
        chk.ob('R14.4', ps, ps.ln, kw[k] in dispatched, 'statement keyword "%s" is dispatched in parseStatement' % k, key='stmt:' + k, nontrivial=False)
    chk.count('statement keywords in the grammar', len(stmt_kw), 7)

    # ---- R14.5 assignment is right-recursive (grammar: assignmentExpression = logicalOr [ "=" assignmentExpression ]) ----------
    chk.rule('R14.5', 'assignment is right-recursive as in the grammar; member modifiers are accepted in any order')
    chk.rule('R14.7', 'multi-declarators keep their source order: the parked declarators are flushed into the same list right after the first one was appended')
    _multi_declarators_in_order(prog, chk)
    # `@tracked qubit a, b;` must give the tree of `@tracked qubit a; @tracked qubit b;`: each declarator node receives every attribute of the
    # declaration, finished (C17's R17.7, run here as part of R14.7)
    from .C17 import _declarator_siblings
    _declarator_siblings(prog, chk, rule='R14.7')
    chk.rule('R14.8', 'statement dispatch: [final] [@annotation] type name is a declaration (final passed on), every other start goes to its own production')
    _statement_dispatch_table(prog, chk)
    if 'assignmentExpression' in rules and re.search(r'\[\s*"="\s*assignmentExpression\s*\]', rules['assignmentExpression']):
        pe = prog.fn('Parser::parseExpression')
        targets = [t for n, fs in prog.callees(pe) for t in fs if t.body and t.name.startswith('bloch::compiler::Parser::')]
        asg = [t for t in targets if any(x['k'] == 'mcall' and SX.short(x['callee']) == 'match' and 'Equals' in SX.show(x) for x in SX.walk(t.body))]
        if len(asg) != 1:
            raise AnalysisBroken('assignment-expression parser not resolved from parseExpression')
        af = asg[0]
        ga = prog.cfg(af)
        eqs = [c for c in ga.nodes if c.kind == 'cond' and SX.is_node(c.e) and c.e.get('k') == 'mcall' and SX.short(c.e['callee']) == 'match' and 'Equals' in SX.show(c.e)]
        for c in eqs:
            tedge = [x for x in c.succ if x.kind == 'edge' and x.pol][0]
            region = {n.id for n in ga.nodes if ga.dominates(tedge, n)}
            calls_in = [n for n in ga.calls() if n.id in region and n.e.get('k') == 'mcall' and n.e.get('callee', '').startswith('bloch::compiler::Parser::parse')]
            selfrec = [n for n in calls_in if n.e['callee'] == af.name]
            other = [SX.short(n.e['callee']) for n in calls_in if n.e['callee'] != af.name]
            chk.ob('R14.5', af, c.ln or af.ln, bool(selfrec) and not other,
                   'after `=` the value is parsed by the assignment level itself (right recursion: a = b = c, this.x = this.y = v); found %s' %
                   (['self'] * len(selfrec) + other), key='assign:right-recursive')
        chk.count('assignment operators in the assignment parser', len(eqs), 1)
    else:
        raise AnalysisBroken('grammar production assignmentExpression not found or not right-recursive')
    # ---- member modifiers: every modifier branch continues the scan (static / virtual / override in any order) ----------------
    pcm = prog.fn('Parser::parseClassMember')
    gm = prog.cfg(pcm)
    MODS = ('Static', 'Virtual', 'Override')
    modc = {}
    for c in gm.nodes:
        if c.kind == 'cond' and SX.is_node(c.e) and c.e.get('k') == 'mcall' and SX.short(c.e['callee']) == 'match':
            a = SX.strip(SX.real_args(c.e)[0]) if SX.real_args(c.e) else {}
            nm = a.get('name', '').split('::')[-1] if SX.is_node(a) and a.get('kind') == 'enum' else None
            if nm in MODS:
                modc.setdefault(nm, []).append(c)
    chk.count('member modifier branches', len(modc), 3)
    for nm, cs in sorted(modc.items()):
        for c in cs:
            heads = [h for h in gm.loops() if gm.dominates(h, c) and h.id in gm.reachable([c])]
            tedge = [x for x in c.succ if x.kind == 'edge' and x.pol][0]
            ok = bool(heads) and any(h.id in gm.reachable([tedge]) for h in heads)
            if ok:
                # … without ending it on the way: no `break`, and no `<loop flag> = false`, between the modifier and the loop head
                h0 = heads[-1]
                cvars = set()
                if SX.is_node(h0.e) and SX.is_node(h0.e.get('c')):
                    cvars = {x.get('id') for x in SX.walk(h0.e['c']) if x.get('k') == 'ref' and x.get('id')}
                seg = gm.reachable([tedge], avoid=[h0])
                stops = [n for n in gm.nodes if n.id in seg and (n.kind == 'break' or (
                    n.kind == 'assign' and (lambda w: w and SX.is_node(SX.strip(w[0])) and SX.strip(w[0]).get('id') in cvars and SX.is_node(SX.strip(w[1])) and
                                            SX.strip(w[1]).get('k') == 'bool' and not SX.strip(w[1])['v'])(SX.write_target(n.e))))]
                ok = not stops
            chk.ob('R14.5', pcm, c.ln or pcm.ln, ok,
                   'after the modifier `%s` the scan continues with the next modifier (the modifiers of a member may come in any order: '
                   '`override virtual` and `virtual override` denote the same member)' % nm.lower(), key='modifier-loop:' + nm)

    # each modifier is recorded in its own flag: the duplicate test of a branch tests the flag that branch sets, and no two
    # modifiers share a flag (`virtual override` is a valid prefix; `override override` is not)
    flags_of = {}
    for nm, cs in sorted(modc.items()):
        for c in cs:
            tedge = [x for x in c.succ if x.kind == 'edge' and x.pol][0]
            region = {n.id for n in gm.nodes if gm.dominates(tedge, n)}
            sets = [SX.strip(l) for n, l, r, op in gm.writes() if n.id in region and op == '=' and SX.is_node(SX.strip(l)) and SX.strip(l).get('k') in ('ref', 'member')
                    and SX.is_node(SX.strip(r)) and SX.strip(r).get('k') == 'bool' and SX.strip(r)['v'] is True]
            tests = []
            for t in gm.nodes:
                if t.kind == 'cond' and t.id in region and SX.is_node(t.e) and SX.strip(t.e).get('k') in ('ref', 'member') and 'bool' in (SX.strip(t.e).get('t') or ''):
                    te = [x for x in t.succ if x.kind == 'edge' and x.pol]
                    if te and any(gm.nodes[i].kind in ('call', 'throw') and 'rror' in SX.show(gm.nodes[i].e)[:60] for i in gm.reachable(te) & region):
                        tests.append(SX.strip(t.e))
            key_ = lambda e_: e_.get('id') or e_.get('q') or SX.show(e_)
            okf = len(sets) == 1 and bool(tests) and all(key_(t_) == key_(sets[0]) for t_ in tests)
            chk.ob('R14.5', pcm, c.ln or pcm.ln, okf,
                   'the `%s` branch rejects a repeated `%s` by testing the flag it sets itself (sets %s, tests %s)' % (
                       nm.lower(), nm.lower(), [SX.show(x) for x in sets], [SX.show(x) for x in tests]), key='modifier-own-flag:' + nm)
            if sets:
                flags_of[nm] = key_(sets[0])
    chk.ob('R14.5', pcm, pcm.ln, len(set(flags_of.values())) == len(flags_of), 'no two modifiers share a flag (%s)' % flags_of, key='modifier-flags-distinct', nontrivial=False)

    # ---- forInit = variableDeclaration | expressionStatement : the for header parses its initialiser with exactly those two
    if 'forInit' in rules and 'expressionStatement' in rules['forInit'] and 'variableDeclaration' in rules['forInit']:
        pf = prog.fn('Parser::parseFor')
        called = {SX.short(n['callee']) for n in SX.walk(pf.body, into_lambdas=False) if n['k'] == 'mcall' and n.get('callee', '').startswith('bloch::compiler::Parser::parse')}
        want = {'parseVariableDeclaration', 'parseExpressionStatement'}
        other = sorted(x for x in called if x in ('parseAssignment', 'parseStatement', 'parseAssignmentExpression'))
        chk.ob('R14.4', pf, pf.ln, want <= called and not other,
               'the for-loop initialiser is parsed as `variableDeclaration | expressionStatement` (calls %s; a plain `name = expr` parser rejects `for (a[0] = 1; …)`, `for (f(); …)`)' %
               sorted(called & (want | set(other))), key='for-init-production')
    else:
        raise AnalysisBroken('grammar production forInit not found')
    # ---- R14.6 the declaration look-ahead classifies statement starts as the grammar does --------------------------------------
    chk.rule('R14.6', 'declaration look-ahead: `Type name` / `Type<…> name` / `Type[] name` are declarations, every expression-statement start is not (abstract evaluation over token patterns)')
    _typeahead_table(prog, chk)


TT = 'bloch::compiler::TokenType::'
# (tokens of a statement start, is it a declaration?, what it is)
TYPEAHEAD = [
    ('Identifier Identifier Semicolon', True, 'Foo x;'),
    ('Int Identifier Equals IntegerLiteral Semicolon', True, 'int x = 1;'),
    ('Float Identifier Semicolon', True, 'float x;'), ('Long Identifier Semicolon', True, 'long x;'), ('Char Identifier Semicolon', True, 'char x;'),
    ('String Identifier Semicolon', True, 'string x;'), ('Bit Identifier Semicolon', True, 'bit x;'), ('Qubit Identifier Semicolon', True, 'qubit x;'),
    ('Boolean Identifier Semicolon', True, 'boolean x;'), ('Qubit LBracket IntegerLiteral RBracket Identifier Semicolon', True, 'qubit[2] r;'),
    ('Identifier Less Identifier Greater Identifier Semicolon', True, 'Box<T> b;'),
    ('Identifier Less Int Greater Identifier Equals', True, 'Box<int> b ='),
    ('Identifier Less Identifier Less Int Greater Greater Identifier Semicolon', True, 'Box<Box<int>> b;'),
    ('Identifier Less Identifier Comma Identifier Greater Identifier Semicolon', True, 'Pair<A, B> p;'),
    ('Identifier Dot Identifier Identifier Semicolon', True, 'pkg.Foo x;'),
    ('Identifier LBracket RBracket Identifier Semicolon', True, 'Foo[] xs;'),
    ('Identifier Equals IntegerLiteral Semicolon', False, 'x = 1;'),
    ('Identifier LParen RParen Semicolon', False, 'f();'),
    ('Identifier Dot Identifier LParen RParen Semicolon', False, 'o.m();'),
    ('Identifier LBracket IntegerLiteral RBracket Equals IntegerLiteral Semicolon', False, 'xs[0] = 1;'),
    ('Identifier Less Identifier Semicolon', False, 'a < b;'),
    ('Identifier Less Identifier Question Echo LParen StringLiteral RParen Semicolon Colon Echo LParen StringLiteral RParen Semicolon If LParen Identifier Greater Identifier RParen LBrace',
     False, 'a < b ? echo("y"); : echo("n");  if (c > d) {   — the `>` belongs to the next statement'),
    ('Identifier Less Identifier AmpersandAmpersand Identifier Greater Identifier Question Echo LParen', False, 'a < b && c > d ? echo(…   — a condition, not Type<…> name'),
    ('Identifier Less Identifier Semicolon Identifier Equals Identifier Greater Identifier Semicolon', False, 'a < b;  x = c > d;'),
]


def _typeahead_table(prog, chk):
    from ..kabs import Interp, Obj, Unsupported, OutOfRange
    ta = prog.fn('Parser::isTypeAhead')
    tok_enum = [e for name, e in prog.facts.enums.items() if name.endswith('compiler::TokenType')]
    known = None
    if tok_enum:
        known = {c if isinstance(c, str) else c.get('name') for c in (tok_enum[0].get('constants') or tok_enum[0].get('values') or [])}
        known = {k.split('::')[-1] for k in known if k}
    bad = []
    n = 0
    for toks, want, what in TYPEAHEAD:
        names = toks.split()
        if known and any(t not in known for t in names):
            raise AnalysisBroken('token kind not in the TokenType enumeration: %s' % [t for t in names if t not in known])
        n += 1
        this = Obj(m_tokens=[Obj(type=TT + t, value='', line=1, column=1) for t in names] + [Obj(type=TT + 'Eof', value='', line=1, column=1)], m_current=0)
        try:
            got = Interp(prog, {}, max_steps=20000).call_fn_env(ta, [], {'this': this})
        except OutOfRange as ex:
            bad.append('%s: %s' % (what, ex))
            continue
        except Unsupported as ex:
            raise AnalysisBroken('abstract evaluation of the declaration look-ahead: %s' % ex)
        if bool(got) != want:
            bad.append('`%s` is classified as %s' % (what, 'a declaration' if got else 'an expression'))
    # systematic family: a type argument list holds type tokens only.  For every token kind K of the lexer that cannot occur in a
    # type (everything but names, dots, commas, angle and square brackets, integer literals and the primitive-type keywords), the
    # text `a < b K c > d` — at a statement start, and after the `(` of a parenthesised expression, where the same look-ahead decides
    # "cast" — is not a declaration / a cast:  both((i < n), (j > k))  used to be rejected with "Expected '>' after type arguments".
    TYPE_TOKENS = {'Identifier', 'Dot', 'Comma', 'Less', 'Greater', 'LBracket', 'RBracket', 'IntegerLiteral', 'Void', 'Int', 'Float', 'Long', 'Char', 'String',
                   'Bit', 'Qubit', 'Boolean'}
    nfam = 0
    for K in sorted(known or []):
        if K in TYPE_TOKENS or K == 'Eof':
            continue
        names = ['Identifier', 'Less', 'Identifier', K, 'Identifier', 'Greater', 'Identifier', 'Semicolon']
        nfam += 1
        n += 1
        this = Obj(m_tokens=[Obj(type=TT + t, value='', line=1, column=1) for t in names] + [Obj(type=TT + 'Eof', value='', line=1, column=1)], m_current=0)
        try:
            got = Interp(prog, {}, max_steps=20000).call_fn_env(ta, [], {'this': this})
        except OutOfRange as ex:
            bad.append('a < b %s c > d: %s' % (K, ex))
            continue
        except Unsupported as ex:
            raise AnalysisBroken('abstract evaluation of the declaration look-ahead: %s' % ex)
        if got:
            bad.append('`a < b <%s> c > d` is read as `Type<…> name`' % K)
    chk.count('non-type token kinds tried inside `<…>`', nfam, 40)
    # declarations that must still be recognised, with every kind of type token in the argument list (positive side of the family)
    decls = ['Identifier Less %s Greater Identifier Semicolon' % t for t in ('Int', 'Float', 'Long', 'Char', 'String', 'Bit', 'Qubit', 'Boolean', 'Identifier')] + \
            ['Identifier Less Identifier Dot Identifier Greater Identifier Semicolon', 'Identifier Less Int LBracket RBracket Greater Identifier Semicolon',
             'Identifier Less Identifier Less Identifier Comma Int Greater Comma Identifier Greater Identifier Equals',
             'Identifier Less Int LBracket IntegerLiteral RBracket Greater Identifier Semicolon']
    for d_ in decls:
        names = d_.split()
        n += 1
        this = Obj(m_tokens=[Obj(type=TT + t, value='', line=1, column=1) for t in names] + [Obj(type=TT + 'Eof', value='', line=1, column=1)], m_current=0)
        try:
            got = Interp(prog, {}, max_steps=20000).call_fn_env(ta, [], {'this': this})
        except (OutOfRange, Unsupported) as ex:
            bad.append('%s: %s' % (d_, ex))
            continue
        if not got:
            bad.append('`%s` (a declaration) is classified as an expression' % d_)
    if getattr(chk, 'tier', 'quick') == 'thorough':
        # thorough tier: the same family in more surroundings — the non-type token at every position of a nested argument list
        # (`a < b < c K > > d`, `a < K b > c`, `a < b , K c > d`, `a < b [ K ] > d`), and declarations that must still be recognised
        # with every type token in the list
        shapes = [('Identifier Less Identifier Less Identifier %s Greater Greater Identifier Semicolon', False),
                  ('Identifier Less %s Identifier Greater Identifier Semicolon', False),
                  ('Identifier Less Identifier Comma %s Identifier Greater Identifier Semicolon', False),
                  ('Identifier Less Identifier LBracket %s RBracket Greater Identifier Semicolon', False),
                  ('Identifier Dot Identifier Less Identifier %s Identifier Greater Identifier Equals', False)]
        nth = 0
        for shape, want in shapes:
            for K in sorted(known or []):
                if K in TYPE_TOKENS or K == 'Eof':
                    continue
                names = (shape % K).split()
                nth += 1
                this = Obj(m_tokens=[Obj(type=TT + t, value='', line=1, column=1) for t in names] + [Obj(type=TT + 'Eof', value='', line=1, column=1)], m_current=0)
                try:
                    got = Interp(prog, {}, max_steps=20000).call_fn_env(ta, [], {'this': this})
                except OutOfRange as ex:
                    bad.append('%s: %s' % (' '.join(names), ex))
                    continue
                except Unsupported as ex:
                    raise AnalysisBroken('abstract evaluation of the declaration look-ahead: %s' % ex)
                if bool(got) != want:
                    bad.append('`%s` is classified as %s' % (' '.join(names), 'a declaration' if got else 'an expression'))
        n += nth
        chk.extra['typeahead_thorough_patterns'] = nth
    chk.extra['typeahead_patterns'] = n
    chk.ob('R14.6', ta, ta.ln, not bad,
           'the look-ahead that decides "declaration or expression statement" agrees with the grammar on %d statement-start token patterns; misclassified: %s' % (n, bad[:4]),
           key='typeahead-table')
    chk.count('look-ahead token patterns', n, 12)



_PRED_CACHE = {}


def _tested_tokens(prog, f, testers):
    """token kinds a parser function tests: arguments of check()/match(), labels of a `switch` over a token's kind, and the kinds
    for which a token-kind predicate it calls (`isPrimitiveTypeToken(peek().type)`) is true — the predicate is evaluated from its own
    syntax tree on every enumerator"""
    toks = set()
    in_closures = {id(y) for lam in SX.walk(f.body) if lam.get('k') == 'lambda' for y in SX.walk(lam)}
    enum = [v for k_, v in prog.facts.enums.items() if k_.endswith('::TokenType')]
    consts = enum[0]['constants'] if enum else []
    ename = enum[0]['name'] if enum else ''
    for n in SX.walk(f.body):
        if n['k'] == 'mcall' and SX.short(n['callee']) in testers and SX.real_args(n):
            a = SX.strip(SX.real_args(n)[0])
            if a.get('kind') == 'enum':
                toks.add(a['name'].split('::')[-1])
        if n['k'] == 'switch' and SX.is_node(n.get('c')) and SX.strip(n['c']).get('k') == 'member' and SX.strip(n['c']).get('name') == 'type' \
                and 'Token' in (SX.strip(SX.strip(n['c']).get('base')).get('t', '') if SX.is_node(SX.strip(n['c']).get('base')) else ''):
            for c in SX.walk(n['body']):
                if c['k'] == 'case' and SX.is_node(c.get('v')) and SX.strip(c['v']).get('kind') == 'enum':
                    toks.add(SX.strip(c['v'])['name'].split('::')[-1])
        if n['k'] == 'bin' and n.get('op') in ('==', '!=') and id(n) not in in_closures:
            for x in (SX.strip(n['l']), SX.strip(n['r'])):
                if SX.is_node(x) and x.get('k') == 'ref' and x.get('kind') == 'enum' and '::TokenType::' in x.get('name', ''):
                    toks.add(x['name'].split('::')[-1])
        if n['k'] in ('call', 'mcall') and len(SX.real_args(n)) == 1 and consts:
            a = SX.strip(SX.real_args(n)[0])
            if SX.is_node(a) and a.get('k') in ('member', 'ref') and 'TokenType' in (a.get('t') or '') and a.get('kind') != 'enum':
                ts = [t for t in prog.resolve(n) if t.body]
                if len(ts) == 1 and len(ts[0].params) == 1 and (ts[0].ret or '') == 'bool' and 'TokenType' in (ts[0].params[0].get('type') or ''):
                    if ts[0].key not in _PRED_CACHE:
                        from ..kabs import Interp
                        acc = set()
                        try:
                            for cst in consts:
                                if Interp(prog, {}, max_steps=3000).call_fn(ts[0], [ename + '::' + cst]) is True:
                                    acc.add(cst)
                        except Exception:
                            acc = None
                        _PRED_CACHE[ts[0].key] = acc
                    if _PRED_CACHE[ts[0].key]:
                        toks |= _PRED_CACHE[ts[0].key]
    return toks


def _multi_declarators_in_order(prog, chk):
    """R14.7 — `qubit a, b, c;` is three declarations in that order.  The parser parks the declarators after the first in a member list
    and a flush function moves them into a statement list.  At every flush site the statement just parsed has been appended to that
    very list immediately before: flushing first (or into another list) puts b and c in front of a — the numbering of qubits and of
    classical bits in the emitted circuit changes."""
    pfns = [f for f in prog.functions if f.body and f.file.endswith('parser/parser.cpp')]
    flushers = []
    for f in pfns:
        if f.kind != 'method' or len(f.params) != 1 or 'std::vector<std::unique_ptr<' not in f.params[0]['type'] or 'Statement' not in f.params[0]['type']:
            continue
        pid = f.params[0].get('id')
        moves = [n for n in SX.walk(f.body, into_lambdas=False) if n.get('k') == 'mcall' and SX.short(n.get('callee', '')) in ('push_back', 'emplace_back')
                 and SX.is_node(SX.strip(n.get('obj'))) and SX.strip(n['obj']).get('id') == pid]
        clears = [n for n in SX.walk(f.body, into_lambdas=False) if n.get('k') == 'mcall' and SX.short(n.get('callee', '')) == 'clear' and SX.is_this_member(SX.strip(n.get('obj')))]
        if moves and clears:
            flushers.append(f)
    if len(flushers) != 1:
        raise AnalysisBroken('the function that moves parked declarators into a statement list was not found uniquely (%d)' % len(flushers))
    fl = flushers[0]
    n = 0
    for f in pfns:
        for blk in SX.walk(f.body, into_lambdas=False):
            if blk.get('k') != 'block':
                continue
            for i, st in enumerate(blk['body']):
                e = SX.strip(st.get('e')) if st.get('k') == 'expr' else None
                if not (SX.is_node(e) and e.get('k') == 'mcall' and e.get('callee') == fl.name):
                    continue
                n += 1
                dest = SX.show(SX.strip(SX.real_args(e)[0]))
                prev = blk['body'][i - 1] if i else None
                pe = SX.strip(prev.get('e')) if prev is not None and prev.get('k') == 'expr' else None
                ok = SX.is_node(pe) and pe.get('k') == 'mcall' and SX.short(pe.get('callee', '')) in ('push_back', 'emplace_back') and SX.show(SX.strip(pe.get('obj'))) == dest
                chk.ob('R14.7', f, st.get('ln', f.ln), ok,
                       'the declarators parked by a multi-declaration are moved into %s right after the statement they were split from was appended to it (flushing first, or into another '
                       'list, reorders `qubit a, b, c;` into b, c, a)' % dest, key='flush-after-append:%s:%s' % (f.short, dest[:30]))
    chk.count('sites that flush parked declarators', n, 2)


STATEMENT_STARTS = [
    ('LBrace Identifier', 'parseBlock', '{ …'),
    ('Final At Identifier Bit Identifier Equals IntegerLiteral Semicolon', ('parseVariableDeclaration', True), 'final @tracked bit r = 1b;'),
    ('Final At Identifier Identifier Identifier Semicolon', ('parseVariableDeclaration', True), 'final @tracked Cell c;'),
    ('At Identifier Qubit Identifier Semicolon', ('parseVariableDeclaration', False), '@tracked qubit q;'),
    ('Final Int Identifier Equals IntegerLiteral Semicolon', ('parseVariableDeclaration', True), 'final int n = 1;'),
    ('Int Identifier Semicolon', ('parseVariableDeclaration', False), 'int n;'),
    ('Final Identifier Identifier Equals New', ('parseVariableDeclaration', True), 'final Cell c = new …'),
    ('Identifier Less Identifier Greater Identifier Equals New', ('parseVariableDeclaration', False), 'Box<Cell> b = new …'),
    ('Final Identifier Equals IntegerLiteral Semicolon', 'error', 'final n = 1;   — no type after final'),
    ('Identifier Equals IntegerLiteral Semicolon', 'parseAssignment', 'n = 1;'),
    ('Identifier LParen RParen Semicolon', 'parseExpression', 'f();'),
    ('Return Semicolon', 'parseReturn', 'return;'),
    ('If LParen', 'parseIf', 'if (…'),
    ('For LParen', 'parseFor', 'for (…'),
    ('While LParen', 'parseWhile', 'while (…'),
    ('Echo LParen', 'parseEcho', 'echo(…'),
    ('Reset Identifier Semicolon', 'parseReset', 'reset q;'),
    ('Measure Identifier Semicolon', 'parseMeasure', 'measure q;'),
    ('Destroy Identifier Semicolon', 'parseDestroy', 'destroy o;'),
]


def _statement_dispatch_table(prog, chk):
    """R14.8 — which production a statement start is handed to, by abstract evaluation of parseStatement on token sequences (the real
    match/check/isTypeAhead run on the abstract token vector; the sub-parsers are replaced by markers).  `[final] [@annotation] type
    name …` is a declaration with the final flag passed on, `final` without a type is an error, an assignment, a call and every
    statement keyword go to their own production."""
    from ..kabs import Interp, Obj, Unsupported, OutOfRange, Thrown, Ret
    ps = prog.fn('Parser::parseStatement')
    subs = {f.short for f in prog.methods_of('bloch::compiler::Parser') if f.short.startswith('parse') and f.short != 'parseStatement'}

    class Picked(Exception):
        def __init__(self, what):
            self.what = what
    bad = []
    n = 0
    for toks, want, what in STATEMENT_STARTS:
        names = toks.split()
        n += 1
        this = Obj(m_tokens=[Obj(type=TT + t, value='', line=1, column=1) for t in names] + [Obj(type=TT + 'Eof', value='', line=1, column=1)] * 3, m_current=0, m_extraStatements=[])
        models = {}

        def mk(nm):
            def model(it, e, env):
                a = SX.real_args(e)
                raise Picked((nm, bool(it.expr(a[0], env))) if nm == 'parseVariableDeclaration' and a else nm)
            return model
        for nm in subs:
            models[nm] = mk(nm)

        def rep(it, e, env):
            raise Picked('error')
        models['reportError'] = rep
        try:
            Interp(prog, models, max_steps=20000).call_fn_env(ps, [], {'this': this})
            got = 'returned without choosing a production'
        except Picked as p_:
            got = p_.what
        except Thrown:
            got = 'error'
        except OutOfRange as ex:
            got = 'reads past the tokens: %s' % ex
        except Unsupported as ex:
            raise AnalysisBroken('abstract evaluation of parseStatement on `%s`: %s' % (what, ex))
        if got != want:
            bad.append('`%s` goes to %s (grammar: %s)' % (what, got, want))
    chk.ob('R14.8', ps, ps.ln, not bad, 'statement starts are handed to the production the grammar gives them (%d token sequences); wrong: %s' % (n, bad[:4]), key='statement-dispatch')
    chk.count('statement-start sequences evaluated', n, 15)
