"""C10 — acceptance and behaviour do not depend on top-level declaration order."""
from .. import sx as SX
from ..facts import AnalysisBroken
from ..roles import Roles
from ..kernels import enclosing_stmts

EXPLANATION = (
    "Order-independence decided structurally: (R10.1) phase discipline of the analyser — every program-wide lookup table that a "
    "visit can read (function names, function signatures, class registry) is populated for *all* declarations by a full-range loop "
    "that precedes the first accept() in analyse(); (R10.2) the runtime lays classes out base-before-derived whatever the source "
    "order: the loop that copies the base's layout iterates an order produced by a post-order walk over base links (or populates "
    "the base recursively first), never Program::classes directly; (R10.3) no loop whose body can run user code (reaches eval/exec) "
    "iterates a hash container or the top-level declaration lists directly; a snapshot of a hash container must be sorted before "
    "use. A permutation of top-level declarations cannot reach any other order-sensitive code, so these are the necessary "
    "conditions; nothing is executed.")

LAYOUT = ('instanceFields', 'instanceFieldIndex', 'vtable', 'methods', 'staticFields', 'staticFieldIndex')


def _program_collection(e):
    """e is <Program-typed expr>.classes / .functions → field name"""
    e = SX.strip(e)
    if SX.is_node(e) and e['k'] == 'member' and e['name'] in ('classes', 'functions') and e.get('q', '').endswith('Program::' + e['name']):
        return e['name']
    return None


def _full(loop):
    return not any(x['k'] in ('break', 'return') for x in SX.walk(loop['body'], into_lambdas=False))



def _fresh_records(prog, chk, amethods, fields):
    """R10.1 — what a table holds for a declaration is built from that declaration alone: a local record that is filled element by element
    and stored into an analyser table inside a loop over declarations is declared (or emptied) inside that loop.  Declared outside, it
    carries the elements of the declarations already seen (`FunctionInfo info;` hoisted out of the predeclaration loop: every signature
    starts with the parameters of all earlier functions — which calls are accepted then depends on the order of the functions)."""
    GROW = ('push_back', 'emplace_back', 'insert', 'emplace', 'append', 'push_front', 'emplace_front', 'try_emplace', 'insert_or_assign', 'operator+=')
    n = 0

    def root_id(e):
        e = SX.strip(e)
        while SX.is_node(e) and e.get('k') in ('member', 'index'):
            e = SX.strip(e.get('base'))
        return e.get('id') if SX.is_node(e) and e.get('k') == 'ref' and e.get('kind') == 'var' else None

    def unmove(e):
        e = SX.strip(e)
        while SX.is_node(e) and e.get('k') == 'call' and (e.get('callee') or '').startswith('std::move') and e.get('args'):
            e = SX.strip(e['args'][0])
        return e
    for f in amethods:
        if not f.body:
            continue
        decls = {v['id']: v for v in SX.walk(f.body, into_lambdas=False) if v.get('k') == 'var' and v.get('id')}
        for lp in SX.walk(f.body, into_lambdas=False):
            if lp.get('k') not in ('for', 'forrange', 'while'):
                continue
            inside = list(SX.walk(lp['body'], into_lambdas=False))
            stored = {}
            for x in inside:
                w = SX.write_target(x)
                v = None
                if w and SX.is_node(SX.strip(w[0])) and SX.strip(w[0]).get('k') == 'index' and SX.is_this_member(SX.strip(SX.strip(w[0]).get('base'))) \
                        and SX.strip(SX.strip(w[0])['base'])['name'] in fields and w[2] == '=':
                    v = unmove(w[1])
                elif x.get('k') == 'mcall' and SX.is_this_member(SX.strip(x.get('obj'))) and SX.strip(x['obj'])['name'] in fields and SX.short(x.get('callee', '')) in GROW:
                    a = SX.real_args(x)
                    v = unmove(a[-1]) if a else None
                if SX.is_node(v) and v.get('k') == 'ref' and v.get('kind') == 'var' and v.get('id') in decls:
                    stored[v['id']] = x
            for vid, st in stored.items():
                n += 1
                d = decls[vid]
                if any(y is d for y in inside):
                    chk.ob('R10.1', f, st.get('ln', f.ln), True, 'the record %s stored per declaration is declared inside the loop' % d['name'], key='fresh:%s:%s' % (f.short, d['name']), nontrivial=False)
                    continue
                grown = [x for x in inside if (x.get('k') == 'mcall' and SX.short(x.get('callee', '')) in GROW and not x.get('constm', False) and root_id(x.get('obj')) == vid)
                         or (x.get('k') == 'opcall' and x.get('op') == '+=' and x.get('args') and root_id(x['args'][0]) == vid)]
                emptied = [x for x in inside if (x.get('k') == 'mcall' and SX.short(x.get('callee', '')) == 'clear' and root_id(x.get('obj')) == vid)
                           or ((lambda w_: w_ and w_[2] == '=' and SX.is_node(SX.strip(w_[0])) and SX.strip(w_[0]).get('k') == 'ref' and SX.strip(w_[0]).get('id') == vid)(SX.write_target(x)))]
                ok = not grown or bool(emptied)
                chk.ob('R10.1', f, d.get('ln', f.ln), ok,
                       'the record %s is stored into an analyser table once per declaration and filled element by element (%s) inside the loop, but lives across iterations: what is stored '
                       'for a declaration then contains the elements of the declarations before it' % (d['name'], SX.show(grown[0])[:40] if grown else ''), key='fresh:%s:%s' % (f.short, d['name']))
    return n


def run(prog, chk):
    R = Roles(prog)
    chk.rule('R10.1', 'analyser lookup tables are complete for all declarations before the first visit')
    chk.rule('R10.2', 'runtime class layout: base populated before derived regardless of declaration order')
    chk.rule('R10.3', 'no user-code-running loop iterates a hash container or the declaration lists directly; snapshots are sorted')

    # ---- R10.1 ---------------------------------------------------------------------------------
    an = prog.record('SemanticAnalyser')
    analyse = prog.fn('SemanticAnalyser::analyse')
    amethods = prog.methods_of(an['name']) + [x for x in prog.functions if x.kind == 'lambda' and x.cls == an['name']]
    visits = [f for f in amethods if f.short == 'visit']
    vreach = {id(f) for f in prog.reach(visits)}
    fields = {f['name']: f['type'] for f in an['fields'] if not f['static']}
    readers, writers, clearers = {}, {}, {}
    for f in amethods:
        if not f.body:
            continue
        for n in SX.walk(f.body, into_lambdas=False):
            m = None
            how = None
            if n['k'] == 'mcall' and SX.is_this_member(n.get('obj')) and n['obj']['name'] in fields:
                m, nm = n['obj']['name'], SX.short(n['callee'])
                how = 'r' if nm in ('find', 'count', 'at', 'contains') else ('c' if nm == 'clear' else ('w' if nm in ('insert', 'emplace', 'try_emplace', 'insert_or_assign') else None))
            if n['k'] == 'index' and SX.is_this_member(n.get('base')) and n['base']['name'] in fields and 'unordered_map' in fields[n['base']['name']]:
                m, how = n['base']['name'], 'w'
            if m and how == 'r':
                readers.setdefault(m, []).append(f)
            if m and how == 'w':
                writers.setdefault(m, []).append((f, n))
            if m and how == 'c':
                clearers.setdefault(m, []).append(f)
    tables = []
    for m, t in fields.items():
        if not (t.startswith('std::unordered_map<std::string') or t.startswith('std::unordered_set<std::string')):
            continue
        if not any(id(f) in vreach for f in readers.get(m, [])):
            continue
        if any(id(f) in vreach for f in clearers.get(m, [])):
            continue   # per-declaration scratch state, reset inside a visit
        if not writers.get(m):
            continue
        tables.append(m)
    chk.count('program-wide analyser tables read by visits', len(tables), 3)
    chk.count('local records stored into analyser tables inside loops', _fresh_records(prog, chk, amethods, fields), 1)
    g = prog.cfg(analyse)
    accepts = [c for c in g.calls(lambda e: e['k'] == 'mcall' and SX.short(e['callee']) == 'accept')]
    if not accepts:
        raise AnalysisBroken('analyse() has no accept call')
    for m in sorted(tables):
        wfns = {f.key: f for f, _ in writers[m]}
        pop = []   # CFG nodes in analyse that populate m for all declarations
        for cn in g.nodes:
            if cn.kind not in ('call', 'assign'):
                continue
            e = cn.e
            direct = any(n is e for f, n in writers[m] if f is analyse) or \
                (e.get('k') in ('assign',) and any(n is SX.strip(e['l']) for f, n in writers[m] if f is analyse)) or \
                (e.get('k') == 'opcall' and e['args'] and any(n is SX.strip(e['args'][0]) for f, n in writers[m] if f is analyse))
            callee_writes = False
            inner_loop = False
            if e.get('k') in ('mcall', 'call'):
                for t in prog.resolve(e):
                    ws = _writes_within(prog, t, wfns, 2)
                    if ws:
                        callee_writes = True
                        inner_loop = inner_loop or _callee_loops_over_program(prog, t, wfns)
            if not (direct or callee_writes):
                continue
            loops = [s for s in enclosing_stmts(analyse.body, e) if s['k'] in ('forrange', 'for') and SX.loop_range(s) is not None]
            over = [l for l in loops if _program_collection(SX.loop_range(l)) and _full(l)]
            if over:
                # the loop as a whole is the population step (it may run zero times when there is nothing to declare)
                pop.extend(x for x in g.nodes if (x.kind == 'rangeinit' and x.e is over[0]) or (x.kind == 'loophead' and x.e is over[0]))
            elif inner_loop:
                pop.append(cn)
        ok = bool(pop) and all(g.must_precede(pop, a) for a in accepts)
        chk.ob('R10.1', analyse, analyse.ln, ok,
               'table %s is read by visits; a full loop over the top-level declarations must fill it before the first accept()%s' % (
                   m, '' if pop else ' (no such loop found; it is only written in ' + ', '.join(sorted({f.short for f, _ in writers[m]})) + ')'),
               key='table:' + m)

    # ---- what a declaration is checked against does not depend on the declarations visited before it: every visitor of a declaration with
    # a body sets the per-callable members itself (C16's R16.G, run here as R10.1: a "found a return" flag consumed where it is read,
    # instead of reset on entry, lets a void function's `return;` satisfy the next non-void function — accepted or rejected by order)
    from .C16 import _return_context_rule, _GuardAware
    _afns = [f_ for f_ in prog.functions if f_.body and f_.file.endswith('semantic_analyser.cpp')]
    _return_context_rule(prog, _GuardAware(chk, prog, _afns), _afns, rule='R10.1')

    # ---- R10.1b: every site that stores an entry of a record-valued table fills the same fields ---------------------------------
    # (the pre-declaration pass and the visit of the declaration itself both write m_functionInfo[name]: an entry that the
    # pre-declaration leaves half filled — e.g. without the return type — makes a call checked before the declaration was visited
    # behave differently from one checked after it)
    nrec = 0
    for m, t in fields.items():
        if not t.startswith('std::unordered_map<std::string'):
            continue
        vt = t.split(',', 1)[1].rsplit('>', 1)[0].strip() if ',' in t else ''
        rec = prog.facts.records.get(vt) or next((r_ for n_, r_ in prog.facts.records.items() if n_.endswith('::' + vt.split('::')[-1]) and vt), None)
        if not rec or len(rec.get('fields', [])) < 2:
            continue
        fnames = [x['name'] for x in rec['fields']]
        sites = []
        for f in amethods:
            if not f.body:
                continue
            for n in SX.walk(f.body, into_lambdas=False):
                w = SX.write_target(n)
                if not (w and w[2] == '=' and SX.is_node(SX.strip(w[0])) and SX.strip(w[0]).get('k') == 'index' and SX.is_this_member(SX.strip(SX.strip(w[0])['base']), m)):
                    continue
                v = SX.strip(w[1])
                if not (SX.is_node(v) and v.get('k') == 'ref' and v.get('kind') == 'var'):
                    continue
                filled = set()
                for x in SX.walk(f.body, into_lambdas=False):
                    w2 = SX.write_target(x)
                    tgt = SX.strip(w2[0]) if w2 else (SX.strip(x.get('obj')) if x.get('k') == 'mcall' and not x.get('constm', True) else None)
                    while SX.is_node(tgt) and tgt.get('k') in ('index',):
                        tgt = SX.strip(tgt.get('base'))
                    if SX.is_node(tgt) and tgt.get('k') == 'member' and SX.strip(tgt.get('base')).get('id') == v.get('id') and tgt['name'] in fnames:
                        filled.add(tgt['name'])
                decl = [d for d in SX.walk(f.body, into_lambdas=False) if d['k'] == 'var' and d.get('id') == v.get('id')]
                if decl and SX.is_node(decl[0].get('init')) and SX.strip(decl[0]['init']).get('k') == 'initlist':
                    il = SX.strip(decl[0]['init'])
                    filled |= set((il.get('fields') or fnames)[:len(il.get('items', []))])
                sites.append((f, n, filled))
            # an entry filled in place: through a reference bound to the slot (`FunctionInfo& info = m_functionInfo[name];
            # info.paramTypes.push_back(…)`) or field by field (`m_functionInfo[name].returnType = …`)
            inplace = {}
            for d in SX.walk(f.body, into_lambdas=False):
                if d['k'] == 'var' and (d.get('type') or '').rstrip().endswith('&') and not (d.get('type') or '').lstrip().startswith('const') and SX.is_node(d.get('init')):
                    i0 = SX.strip(d['init'])
                    if SX.is_node(i0) and i0.get('k') == 'index' and SX.is_this_member(SX.strip(i0['base']), m):
                        inplace[d['id']] = (d, set())
            direct = set()
            dnode = None
            for x in SX.walk(f.body, into_lambdas=False):
                w2 = SX.write_target(x)
                tgt = SX.strip(w2[0]) if w2 else (SX.strip(x.get('obj')) if x.get('k') == 'mcall' and not x.get('constm', True) else None)
                while SX.is_node(tgt) and tgt.get('k') in ('index',) and not SX.is_this_member(SX.strip(tgt.get('base')), m):
                    tgt = SX.strip(tgt.get('base'))
                if not (SX.is_node(tgt) and tgt.get('k') == 'member' and tgt['name'] in fnames):
                    continue
                b = SX.strip(tgt.get('base'))
                if SX.is_node(b) and b.get('k') == 'ref' and b.get('id') in inplace:
                    inplace[b['id']][1].add(tgt['name'])
                elif SX.is_node(b) and b.get('k') == 'index' and SX.is_this_member(SX.strip(b['base']), m):
                    direct.add(tgt['name'])
                    dnode = dnode or x
            for d, filled in inplace.values():
                sites.append((f, d, filled))
            if direct:
                sites.append((f, dnode, direct))
        if len(sites) < 2:
            continue
        nrec += 1
        union = set().union(*[fl for _, _, fl in sites])
        for f, n, filled in sites:
            chk.ob('R10.1', f, n.get('ln', f.ln), filled == union,
                   '%s stores an entry of %s with fields %s; every site that stores such an entry fills the same fields (%s) — otherwise what a use sees depends on whether the '
                   'declaration was visited before it' % (_fk(f), m, sorted(filled), sorted(union)), key='table-entry-fields:%s:%s' % (m, _fk(f)))
    chk.count('record-valued analyser tables with several storing sites', nrec, 1)

    # ---- R10.2 ---------------------------------------------------------------------------------
    evfns = [f for f in R.ev_methods() if f.body]
    n2 = 0
    for f in evfns:
        loops = []
        for n in SX.walk(f.body, into_lambdas=False):
            if n['k'] in ('forrange', 'for'):
                reads = [x for x in SX.walk(n['body'], into_lambdas=False) if x['k'] == 'member' and x['name'] in LAYOUT and _through_base(x)]
                if not reads:
                    # the copy from ->base may sit in a helper the loop body calls (populateClassMembers(rc, decl, …))
                    reads = _callee_base_reads(prog, n['body'], LAYOUT, {f_.key for f_ in evfns})
                if reads and not any(o is not n and any(y is n for y in SX.walk(o['body'], into_lambdas=False)) and o['k'] in ('forrange', 'for')
                                     for o in loops):
                    # outermost loop whose body copies from ->base
                    if not any(any(y is n for y in SX.walk(o['body'], into_lambdas=False)) for o in loops):
                        loops.append(n)
        for lp in loops:
            if lp['k'] != 'forrange':
                continue
            # is the loop a per-class populate loop (iterates class declarations)?
            vt = lp['var']['type']
            if 'ClassDeclaration' not in vt:
                continue
            n2 += 1
            rng = SX.strip(lp['range'])
            coll = _program_collection(rng)
            if coll:
                # idiom A: recursion on the base before the copy
                chk.ob('R10.2', f, lp.get('ln', f.ln), False,
                       'class layout is copied from ->base inside a loop over Program::%s (declaration order): a derived class declared before its base reads an empty layout' % coll,
                       key='populate-order:' + f.short)
                continue
            if SX.is_node(rng) and rng['k'] == 'ref' and rng.get('kind') == 'var':
                ok, why = _post_order_vector(prog, f, rng)
                chk.ob('R10.2', f, lp.get('ln', f.ln), ok, 'populate loop iterates %s: %s' % (rng['name'], why), key='populate-order:' + f.short)
                continue
            raise AnalysisBroken('populate loop in %s iterates an unrecognised source: %s' % (f.short, SX.show(rng)[:60]))
    chk.count('class populate loops reading the base layout', n2, 1)

    # ---- R10.2b: analyser computations that inherit from the base must run base-first ----------------
    nacc = 0
    for V in amethods:
        if not V.body or V.kind != 'method':
            continue
        acc = _inherited_accumulation(V)
        if not acc:
            continue
        nacc += 1
        sites = prog.callers(V)
        if not sites:
            continue
        for gfn, call in sites:
            host = gfn
            ok, why = False, 'called outside a base-first walk'
            if gfn.kind == 'lambda' and gfn.parent is not None:
                ok, why = _post_order_closure(prog, gfn.parent, gfn, call, 'validated')
            elif gfn.kind in ('method', 'function') and any(n_.get('k') in ('call', 'mcall') and n_.get('callee') == gfn.name for n_ in SX.walk(gfn.body, into_lambdas=False)):
                # the base-first walk is a self-recursive function instead of a local closure
                ok, why = _post_order_closure(prog, None, gfn, call, 'validated', walk_fn=gfn)
            chk.ob('R10.2', gfn, call.get('ln', gfn.ln), ok,
                   '%s derives %s of a class from the same datum of its base, so it must run on the base first: %s' % (V.short, acc, why),
                   key='inherit:%s' % V.short)
    chk.count('analyser functions that accumulate inherited data', nacc, 1)

    # ---- R10.3 ---------------------------------------------------------------------------------
    user = {id(f) for f in evfns if f.short in ('eval', 'exec')}
    if len(user) < 2:
        raise AnalysisBroken('eval/exec not found')

    def pruned_callees(t, flags):
        """callees of t, leaving out call sites that are only reached when a phase flag in `flags` is false"""
        if not flags or not t.body or not any(n['k'] == 'member' and n['name'] in flags for n in SX.walk(t.body, into_lambdas=False)):
            return [fs for n, fs in prog.callees(t)]
        gt = prog.cfg(t)
        out = []
        dead = set()
        for cn in gt.nodes:
            if cn.kind == 'call':
                for ce, pol, _ in gt.guards(cn):
                    if not pol and SX.is_this_member(SX.strip(ce)) and SX.strip(ce)['name'] in flags:
                        dead.add(id(cn.e))
        for n, fs in prog.callees(t):
            if id(n) not in dead:
                out.append(fs)
        return out

    def runs_user_code(fn_or_nodes, flags=()):
        seen = set()
        work = list(fn_or_nodes)
        while work:
            t = work.pop()
            if id(t) in seen:
                continue
            seen.add(id(t))
            if id(t) in user:
                return True
            for fs in pruned_callees(t, flags):
                work.extend(fs)
        return False

    def phase_flags(f, lp):
        """bool members set true before the loop and reset to false after it in f (a phase marker that is on for the whole loop)"""
        gf = prog.cfg(f)
        head = [c for c in gf.nodes if c.kind == 'rangeinit' and c.e is lp]
        if not head:
            return ()
        out = []
        for fld in R.ev['fields']:
            if fld['type'] != 'bool':
                continue
            on = [n for n, l, r, op in gf.writes() if SX.is_this_member(SX.strip(l), fld['name']) and SX.is_node(r) and r['k'] == 'bool' and r['v']]
            off = [n for n, l, r, op in gf.writes() if SX.is_this_member(SX.strip(l), fld['name']) and SX.is_node(r) and r['k'] == 'bool' and not r['v']]
            if on and off and gf.must_precede(on, head[0]) and not any(o.id in gf.reachable(on, avoid=head) and gf.dominates(o, head[0]) for o in off):
                body_ids = gf.reachable(head)
                if not any(o.id in body_ids and head[0].id in gf.reachable([o]) for o in off):
                    out.append(fld['name'])
        return tuple(out)
    n3 = 0
    scope = [f for f in prog.functions if f.body and (f.file.endswith('runtime_evaluator.cpp') or f.file.endswith('cli.cpp'))]
    for f in scope:
        for lp in SX.walk(f.body, into_lambdas=False):
            if lp['k'] != 'forrange':
                continue
            callees = []
            for n in SX.walk(lp['body'], into_lambdas=False):
                if n['k'] in SX.CALL_KINDS:
                    callees.extend(prog.resolve(n))
                if n['k'] == 'opcall' and n['op'] == '()' and n['args'] and SX.is_node(n['args'][0]) and n['args'][0]['k'] == 'ref':
                    # call of a local closure / std::function
                    for lf in f.lambdas:
                        callees.append(lf)
            flags = phase_flags(f, lp) if f.cls == R.ev['name'] else ()
            if not runs_user_code(callees, flags):
                continue
            n3 += 1
            rng = SX.strip(lp['range'])
            rt = lp.get('rt', '')
            key = 'loop:%s:%s' % (f.short, SX.show(rng)[:30])
            if 'unordered_' in rt.split('<')[0] or rt.replace('const ', '').startswith('std::unordered_'):
                chk.ob('R10.3', f, lp.get('ln', f.ln), False, 'loop over hash container %s runs user code: order depends on hashing, not on the program' % SX.show(rng)[:40], key=key)
                continue
            coll = _program_collection(rng)
            if coll == 'classes':
                chk.ob('R10.3', f, lp.get('ln', f.ln), False, 'loop over Program::classes runs user code in declaration order', key=key)
                continue
            if SX.is_node(rng) and rng['k'] == 'ref' and rng.get('kind') == 'var' and rt.replace('const ', '').startswith('std::vector<'):
                ok, why = _snapshot_sorted(prog, f, rng, lp)
                chk.ob('R10.3', f, lp.get('ln', f.ln), ok, 'loop over local %s runs user code: %s' % (rng['name'], why), key=key)
                continue
            # statement lists, argument lists, object arrays …: source/program order by construction
            chk.ob('R10.3', f, lp.get('ln', f.ln), True, 'loop over %s (program order)' % SX.show(rng)[:40], key=key, nontrivial=False)
    chk.count('loops that can run user code', n3, 5)


def _inherited_accumulation(V):
    """V(ClassInfo& info): reads <base>->F where <base> is looked up from info.base and writes info.F → name of F"""
    infos = [p for p in V.params if p['type'].endswith('ClassInfo &')]
    if not infos:
        return None
    pid = infos[0]['id']
    written = set()
    for n in SX.walk(V.body, into_lambdas=False):
        w = SX.write_target(n)
        if w:
            l = SX.strip(w[0])
            if SX.is_node(l) and l['k'] == 'member' and SX.is_node(l['base']) and l['base'].get('id') == pid:
                written.add(l['name'])
    if not written:
        return None
    # locals bound to the base class record
    base_locals = set()
    for n in SX.walk(V.body, into_lambdas=False):
        if n['k'] == 'var' and SX.is_node(n.get('init')) and any(
                x['k'] == 'member' and x['name'] == 'base' and SX.is_node(x['base']) and x['base'].get('id') == pid for x in SX.walk(n['init'])):
            base_locals.add(n['id'])
    for n in SX.walk(V.body, into_lambdas=False):
        if n['k'] == 'member' and n['name'] in written:
            root, names = SX.member_chain(n)
            if SX.is_node(root) and root['k'] == 'ref' and root.get('id') in base_locals:
                return n['name']
    return None


def _writes_within(prog, f, wfns, depth):
    if f.key in wfns:
        return True
    if depth <= 0:
        return False
    for n, fs in prog.callees(f):
        for t in fs:
            if _writes_within(prog, t, wfns, depth - 1):
                return True
    return False


def _callee_loops_over_program(prog, f, wfns):
    """f contains a full range-for over Program::classes/functions whose body writes the table (directly or via callee)."""
    if not f.body:
        return False
    for lp in SX.walk(f.body, into_lambdas=False):
        if lp['k'] == 'forrange' and _program_collection(lp['range']) and _full_loose(lp):
            for n in SX.walk(lp['body'], into_lambdas=True):
                if n['k'] in ('index', 'mcall', 'call'):
                    if f.key in wfns and (n['k'] == 'index' or SX.short(SX.callee(n)) in ('insert', 'emplace')):
                        return True
                    for t in prog.resolve(n) if n['k'] != 'index' else []:
                        if _writes_within(prog, t, wfns, 1):
                            return True
    return False


def _full_loose(lp):
    # `continue` for null entries is fine; break/return would skip declarations
    return not any(x['k'] in ('break', 'return') for x in SX.walk(lp['body'], into_lambdas=False))


def _through_base(x):
    """member access reached through a `base` member: <e>->base-><layout>"""
    b = x.get('base')
    while SX.is_node(b):
        if b['k'] == 'member':
            if b['name'] == 'base':
                return True
            b = b['base']
        elif b['k'] == 'opcall' and b['op'] in ('->', '*') and b['args']:
            b = b['args'][0]
        elif b['k'] == 'index':
            b = b['base']
        else:
            break
    return False


def _post_order_vector(prog, f, ref):
    """The vector `ref` is filled only by a self-recursive closure that descends into the base declaration before it
    pushes the declaration (post-order over base links), and the closure is applied to every top-level class."""
    vid = ref.get('id')
    pushes = []
    for lf in _all_lambdas(f):
        for n in SX.walk(lf.body, into_lambdas=False):
            if n['k'] == 'mcall' and SX.short(n['callee']) in ('push_back', 'emplace_back') and SX.is_node(n['obj']) and n['obj'].get('id') == vid:
                pushes.append((lf, n))
    outer = [n for n in SX.walk(f.body, into_lambdas=False)
             if n['k'] == 'mcall' and SX.short(n['callee']) in ('push_back', 'emplace_back', 'insert', 'assign') and SX.is_node(n['obj']) and n['obj'].get('id') == vid]
    if outer:
        return False, 'it is filled directly in %s (declaration order), not by a base-first walk' % f.short
    if len(pushes) != 1:
        return False, 'expected exactly one push site inside a recursive walk, found %d' % len(pushes)
    lf, push = pushes[0]
    return _post_order_closure(prog, f, lf, push, 'pushed')


def _post_order_closure(prog, f, lf, target, verb, walk_fn=None):
    """closure lf (bound to a local of f) — or the self-recursive function walk_fn — recurses into the base of its argument before it
    reaches `target`, skips a class only when it is null or already done, and is applied to every class."""
    from ..ktry import parent_map
    if walk_fn is None:
        pm = parent_map(f.body)
        par = pm.get(id(lf.node))
        while par is not None and par.get('k') not in ('var',):
            par = pm.get(id(par))
        if par is None:
            return False, 'walk closure is not bound to a local'
        selfid = par['id']
        g = prog.cfg(lf)
        selfcalls = [c for c in g.calls(lambda e: e['k'] == 'opcall' and e['op'] == '()' and e['args'] and SX.is_node(e['args'][0]) and e['args'][0].get('id') == selfid)]
        hosts = [f]

        def applies(n):
            return n['k'] == 'opcall' and n['op'] == '()' and n['args'] and SX.is_node(n['args'][0]) and n['args'][0].get('id') == selfid
    else:
        g = prog.cfg(walk_fn)
        selfcalls = [c for c in g.calls(lambda e: e['k'] in ('call', 'mcall') and e.get('callee') == walk_fn.name)]
        hosts = [h for h, _ in prog.callers(walk_fn) if h is not walk_fn]

        def applies(n):
            return n['k'] in ('call', 'mcall') and n.get('callee') == walk_fn.name
    pnode = [c for c in g.nodes if c.e is target]
    if not selfcalls or not pnode:
        return False, 'walk closure does not recurse'
    pnode = pnode[0]
    base_arg = any(x['k'] == 'member' and x['name'] in ('baseType', 'baseName', 'base') for x in SX.walk(lf.body))
    after = g.reachable([pnode])
    if any(c.id in after for c in selfcalls):
        return False, 'the class is %s before its base is walked (pre-order)' % verb
    ctrl = []
    for c in selfcalls:
        gs = g.guards(c)
        ctrl.append(gs[0][2].cond if gs else c)
    if not all(g.must_precede([x], pnode) for x in ctrl):
        return False, 'a path reaches the point where the class is %s without having considered the base' % verb
    if not base_arg:
        return False, 'the recursion does not follow the base link'
    # early exits before the base is considered: only "null" and "already done"
    pids = {p['id'] for p in lf.params}
    early = g.reachable([g.entry], avoid=ctrl)
    for cn in g.nodes:
        if cn.kind == 'cond' and cn.id in early and g.exit.id in g.reachable([cn], avoid=ctrl + [pnode]):
            if not _null_or_done_test(cn.e, pids):
                return False, 'the walk can stop at `%s` without walking the base link (a class reached only through such a node is laid out too late)' % SX.show(cn.e)[:60]
    # the base link is followed for every kind of base — also a generic instantiation (`extends Holder<int>`) and a base that is
    # itself a template: neither the recursive step nor the computation of the base it steps to may depend on type
    # arguments / type parameters
    feed = set()
    for c in selfcalls:
        for x in SX.walk(c.e):
            if x.get('k') == 'ref' and x.get('id'):
                feed.add(x['id'])
    watched = list(selfcalls)
    for _ in range(4):
        for n_, l_, r_, op_ in g.writes():
            l0 = SX.strip(l_)
            if SX.is_node(l0) and l0.get('k') == 'ref' and l0.get('id') in feed and n_ not in watched:
                watched.append(n_)
                for x in SX.walk(r_ or {}):
                    if x.get('k') == 'ref' and x.get('id'):
                        feed.add(x['id'])
        for d_ in g.nodes:
            if d_.kind == 'decl' and d_.e.get('id') in feed and d_ not in watched and SX.is_node(d_.e.get('init')):
                watched.append(d_)
                for x in SX.walk(d_.e['init']):
                    if x.get('k') == 'ref' and x.get('id'):
                        feed.add(x['id'])
    for w_ in watched:
        for ce, pol, _e in g.guards(w_):
            if any(x.get('k') == 'member' and x.get('name') in ('typeArguments', 'typeParameters', 'typeArgs', 'typeParams') for x in SX.walk(ce)):
                return False, 'the step to the base depends on `%s`: a base that is a generic instantiation (or a template) is not walked, so the classes behind it are laid out too late' % SX.show(ce)[:60]
    applied = False
    for hf in hosts:
        for lp in SX.walk(hf.body, into_lambdas=False):
            if lp['k'] == 'forrange' and _full_loose(lp) and (_program_collection(lp['range']) == 'classes' or 'unordered_map<std::string' in lp.get('rt', '')):
                if any(applies(n) for n in SX.walk(lp['body'], into_lambdas=False)):
                    applied = True
    if not applied:
        return False, 'the walk is not applied to every class'
    if walk_fn is not None:
        return True, '%s by a post-order walk over base links applied to every class' % verb
    # the name → declaration table the walk resolves base names with holds *every* class declaration (generic templates too: a
    # class deriving from Wrapped<int> reaches the template's own base only through the template's entry)
    tables = {}
    for v in SX.walk(f.body, into_lambdas=False):
        if v['k'] == 'var' and 'map<' in (v.get('type') or '') and 'ClassDeclaration' in (v.get('type') or ''):
            tables[v['id']] = v
    used = {x.get('id') for x in SX.walk(lf.body) if x['k'] == 'ref' and x.get('id') in tables}
    gf = prog.cfg(f)
    for tid in used:
        okt = False
        for lp in SX.walk(f.body, into_lambdas=False):
            if not (lp['k'] == 'forrange' and _program_collection(lp['range']) == 'classes'):
                continue
            ins = [c for c in gf.nodes if c.kind in ('call', 'assign') and SX.is_node(c.e) and any(y is c.e for y in SX.walk(lp['body'])) and (
                (c.e.get('k') == 'mcall' and SX.short(c.e.get('callee', '')) in ('emplace', 'insert', 'try_emplace', 'insert_or_assign') and SX.strip(c.e.get('obj')).get('id') == tid) or
                (SX.write_target(c.e) and SX.is_node(SX.strip(SX.write_target(c.e)[0])) and SX.strip(SX.write_target(c.e)[0]).get('k') == 'index' and
                 SX.strip(SX.strip(SX.write_target(c.e)[0])['base']).get('id') == tid))]
            if not ins:
                continue
            head = [n for n in gf.nodes if n.kind == 'loophead' and n.e is lp]
            body0 = [n for n in gf.nodes if n.kind == 'decl' and n.e is lp['var']]
            if not head or not body0:
                continue
            vid = lp['var'].get('id')
            nulls = []
            for e_ in gf.nodes:
                if e_.kind == 'edge' and any(y is e_.e for y in SX.walk(lp['body'])):
                    c_ = SX.strip(e_.e)
                    neg = False
                    while SX.is_node(c_) and c_.get('k') == 'un' and c_.get('op') == '!':
                        c_, neg = SX.strip(c_['e']), not neg
                    if SX.is_node(c_) and c_.get('k') in ('mcall', 'opcall') and 'operator bool' in (SX.callee(c_) or ''):
                        c_ = SX.strip(c_.get('obj') or (c_.get('args') or [None])[0])
                    if SX.is_node(c_) and c_.get('k') == 'ref' and c_.get('id') == vid and (e_.pol == neg):
                        nulls.append(e_)      # the edge on which the class pointer is null
            r = gf.reachable(body0, avoid=ins + nulls)
            if head[0].id not in r and gf.exit.id not in r:
                okt = True
        if not okt:
            return False, 'the table %s the walk resolves base names with is not filled for every class declaration (an entry is skipped for some classes, e.g. generic templates): a class whose base chain passes through a skipped class is laid out before its bases' % tables[tid].get('name')
    return True, '%s by a post-order walk over base links applied to every class' % verb


def _null_or_done_test(ce, pids):
    """null test of the walk parameter, membership/insert test on a local set/map keyed by the parameter, or end() test of such a lookup"""
    for x in SX.walk(ce):
        if x['k'] == 'member' and x['name'] not in ('second', 'first') and not (SX.is_node(x['base']) and x['base']['k'] == 'this'):
            return False
        if x['k'] == 'mcall' and SX.short(x['callee']) not in ('insert', 'count', 'find', 'contains', 'end', 'emplace', 'operator bool'):
            return False
        if x['k'] == 'call':
            return False
    return True


def _all_lambdas(f):
    out = []
    work = list(f.lambdas)
    while work:
        l = work.pop()
        out.append(l)
        work.extend(l.lambdas)
    return out


def _snapshot_sorted(prog, f, ref, loop):
    """local vector filled from a hash container must be sorted (std::sort/stable_sort on its range) before the loop."""
    vid = ref.get('id')
    fills_hash = False
    fills_decl = False
    for lp in SX.walk(f.body, into_lambdas=False):
        if lp['k'] == 'forrange':
            pushes = [n for n in SX.walk(lp['body'], into_lambdas=False) if n['k'] == 'mcall' and SX.short(n['callee']) in ('push_back', 'emplace_back')
                      and SX.is_node(n['obj']) and n['obj'].get('id') == vid]
            if pushes:
                if 'unordered_' in lp.get('rt', ''):
                    fills_hash = True
                if _program_collection(lp['range']) == 'classes':
                    fills_decl = True
    for lf in _all_lambdas(f):
        if any(n['k'] == 'mcall' and SX.short(n['callee']) in ('push_back', 'emplace_back') and SX.is_node(n['obj']) and n['obj'].get('id') == vid
               for n in SX.walk(lf.body, into_lambdas=False)):
            fills_decl = True   # filled by a closure; in this code base such walks are driven by the declaration list
    for n in SX.walk(f.body, into_lambdas=False):
        if n['k'] == 'var' and n['id'] == vid and SX.is_node(n.get('init')) and n['init']['k'] == 'construct':
            if any('unordered_' in SX.show(a) or 'unordered' in (a.get('t', '') if SX.is_node(a) else '') for a in n['init']['args']):
                fills_hash = True
    if not fills_hash and not fills_decl:
        return True, 'not derived from a hash container or the declaration list'
    g = prog.cfg(f)
    sorts = [c for c in g.calls(lambda e: e['k'] == 'call' and e.get('callee') in ('std::sort', 'std::stable_sort') and any(
        x['k'] == 'ref' and x.get('id') == vid for a in e['args'][:2] for x in SX.walk(a)))]
    head = [c for c in g.nodes if c.kind == 'rangeinit' and c.e is loop]
    if sorts and head and g.must_precede(sorts, head[0]):
        return True, 'snapshot of a hash container, sorted before use'
    if fills_decl and not fills_hash:
        return False, 'its order derives from the top-level declaration order, so user code (e.g. static initialisers of classes instantiated here) runs in declaration order'
    return False, 'snapshot of a hash container used without sorting'


def _callee_base_reads(prog, body, layout, evkeys, depth=0, seen=None):
    """layout members read through ->base in evaluator methods called (transitively, depth ≤ 3) from `body`"""
    seen = seen if seen is not None else set()
    out = []
    for c in SX.walk(body, into_lambdas=False):
        if c['k'] not in ('mcall', 'call'):
            continue
        for t in prog.resolve(c):
            if t.key in seen or t.key not in evkeys or not t.body:
                continue
            seen.add(t.key)
            out += [x for x in SX.walk(t.body, into_lambdas=False) if x['k'] == 'member' and x['name'] in layout and _through_base(x)]
            if depth < 3 and not out:
                out += _callee_base_reads(prog, t.body, layout, evkeys, depth + 1, seen)
    return out


def _fk(f):
    if f.short == 'visit' and f.params:
        return 'visit(%s)' % f.params[0]['type'].split('::')[-1].replace(' &', '')
    return f.short
