"""C20 — self-update: only strictly newer releases, right checksum line, throttled notice."""
import itertools
from .. import sx as SX
from ..facts import AnalysisBroken
from ..kabs import Thrown, Interp, Obj, Unsupported
from ..ktry import Escape

EXPLANATION = (
    "Decided from the source of update_manager.cpp: (R20.1) exact abstract evaluation — after checking syntactically that version "
    "components are only ever compared with the corresponding component of the other version, compareSemVer, changeLabel, hasLatest "
    "and the notice decision are interpreted from their own syntax trees over validity² × orderings³ (one representative per "
    "abstract state, exact for all integers): compare is the lexicographic order, hasLatest ⇔ both valid ∧ current ≥ latest, a "
    "notice is printed ⇔ latest non-empty ∧ window expired ∧ both valid ∧ current < latest, and only then the notice time is "
    "stamped; the install path is dominated by 'both parsed' and 'not hasLatest'; (R20.2) parseSemVer's numeric conversion cannot "
    "let an exception escape (the updater runs outside the CLI's try); (R20.3) every notice call is preceded by the "
    "environment-switch early return, and a printed notice is followed by saving the cache; the window constant is 72 h; "
    "(R20.4) the checksum returned for an asset is selected by equality with the asset name and a mismatch stops the install. "
    "No network, filesystem or clock behaviour is decided.")

FIELDS = ('major', 'minor', 'patch')
TUPLERS = ('tie', 'make_tuple', 'forward_as_tuple')


def _tuple_shape(e):
    """std::tie(v.major, v.minor, …) → (text of v, (field names))"""
    e = SX.strip(e)
    while SX.is_node(e) and e.get('k') in ('cast', 'construct') and (e['k'] == 'cast' or len(SX.real_args(e)) == 1):
        e = SX.strip(e['e'] if e['k'] == 'cast' else SX.real_args(e)[0])
    if not (SX.is_node(e) and e.get('k') == 'call' and SX.short(e.get('callee', '')) in TUPLERS):
        return None
    bases, names = set(), []
    for a in SX.real_args(e):
        a = SX.strip(a)
        while SX.is_node(a) and a.get('k') == 'cast':
            a = SX.strip(a['e'])
        if not (SX.is_node(a) and a.get('k') == 'member' and a['name'] in FIELDS):
            return None
        bases.add(SX.show(a['base']))
        names.append(a['name'])
    if len(bases) != 1:
        return None
    return bases.pop(), tuple(names)


def _tuple_pairwise(f, pm, tcall):
    """the tuple built by tcall is only ever compared with a tuple of the same fields, in the same order, of another version:
    tuple comparison is then the position-wise comparison of corresponding components the quotient argument needs"""
    mine = _tuple_shape(tcall)
    if mine is None:
        return False
    vars_ = {v['id']: v for v in SX.walk(f.body, into_lambdas=False) if v['k'] == 'var'}

    def shape_of(e):
        e = SX.strip(e)
        while SX.is_node(e) and e.get('k') == 'cast':
            e = SX.strip(e['e'])
        if SX.is_node(e) and e.get('k') == 'ref' and e.get('id') in vars_ and 'const' in (vars_[e['id']].get('type') or ''):
            return _tuple_shape(vars_[e['id']].get('init'))
        return _tuple_shape(e)

    def cmp_ok(user):
        # user: the expression standing for the tuple (the call or a reference to the const local holding it); climb to the
        # comparison it is an operand of (C++20 spells `a < b` on tuples as `(a <=> b) < 0`)
        par = pm.get(id(user))
        top = None
        hops = 0
        while par is not None and hops < 4:
            if par.get('k') in ('bin', 'opcall') and par.get('op') in ('==', '!=', '<', '>', '<=', '>='):
                top = par
                break
            if par.get('k') not in ('cast', 'paren', 'opcall', 'bin') or (par.get('k') in ('opcall', 'bin') and par.get('op') != '<=>'):
                return False
            par = pm.get(id(par))
            hops += 1
        cp = SX.cmp_parts(top) if top is not None else None
        if not cp:
            return False
        sides = [SX.strip(cp[1]), SX.strip(cp[2])]
        me = [x for x in sides if any(y is user for y in SX.walk(x)) or x is user]
        others = [x for x in sides if x not in me]
        if len(me) != 1 or len(others) != 1:
            return False
        o = shape_of(others[0])
        return o is not None and o[1] == mine[1] and o[0] != mine[0]
    par = pm.get(id(tcall))
    while par is not None and par.get('k') in ('cast', 'construct') and (par['k'] == 'cast' or len(SX.real_args(par)) == 1):
        tcall, par = par, pm.get(id(par))
    if par is not None and par.get('k') == 'var':
        if 'const' not in (par.get('type') or ''):
            return False
        uses = [x for x in SX.walk(f.body, into_lambdas=False) if x['k'] == 'ref' and x.get('id') == par['id']]
        return bool(uses) and all(cmp_ok(u) for u in uses)
    return cmp_ok(tcall)


def run(prog, chk):
    chk.rule('R20.1', 'version order / label / gates: exact finite abstract evaluation over validity and component orderings')
    chk.rule('R20.2', 'version parsing never lets a conversion exception escape')
    chk.rule('R20.3', 'notice is throttled (72 h), disabled by environment switches, and the stamp is persisted')
    chk.rule('R20.4', 'checksum entry selected by exact asset-name equality; mismatch aborts before extraction')
    um = [f for f in prog.functions if f.file.endswith('update_manager.cpp') and f.body]
    if not um:
        raise AnalysisBroken('update_manager.cpp not analysed')

    def fn(name):
        c = [f for f in um if f.short == name and f.kind != 'lambda']
        if len(c) != 1:
            raise AnalysisBroken('updater function %s not found uniquely' % name)
        return c[0]
    compare, label, hasLatest, notice = fn('compareSemVer'), fn('changeLabel'), fn('hasLatest'), fn('maybePrintNotice')
    parse, checksum, selfupd, due = fn('parseSemVer'), fn('parseChecksum'), fn('performSelfUpdate'), fn('checkForUpdatesIfDue')

    # ---- precondition of the quotient: components only compared pairwise ---------------------
    nuse = 0
    for f in um:
        if f is parse:
            continue
        from ..ktry import parent_map
        pm = parent_map(f.body)
        for n in SX.walk(f.body, into_lambdas=False):
            if n['k'] == 'bin' and n.get('op') in ('.*', '->*') and _comp(f, n) is not None:
                # table-driven access `v.*field.member` (a pointer to one of the components): stands for every component
                nuse += len(FIELDS)
                par = pm.get(id(n))
                while par is not None and par.get('k') == 'cast':
                    par = pm.get(id(par))
                uses = [(n, par)]
                if par is not None and par.get('k') == 'var' and (par.get('const') or 'const' in (par.get('type') or '')):
                    # `const int mine = current.*field.member;` — the local stands for the component wherever it is used
                    uses = []
                    for x in SX.walk(f.body, into_lambdas=False):
                        if x['k'] == 'ref' and x.get('id') == par.get('id'):
                            px = pm.get(id(x))
                            while px is not None and px.get('k') == 'cast':
                                px = pm.get(id(px))
                            uses.append((x, px))
                okp = bool(uses)
                for x, px in uses:
                    if not (px is not None and px.get('k') == 'bin' and px['op'] in ('==', '!=', '<', '>', '<=', '>=')):
                        okp = False
                        continue
                    other = px['r'] if px['l'] is x else px['l']
                    a, b = _comp(f, x), _comp(f, other)
                    if not (a and b and a[1] == b[1] and a[0] != b[0]):
                        okp = False
                if okp:
                    chk.ob('R20.1', f, n.get('ln', f.ln), True, 'version component %s compared with the same component of the other version' % SX.show(n),
                           key='pairwise:%s' % f.short, nontrivial=False)
                else:
                    chk.vacuous.append('version component %s is used in a way the quotient argument does not cover; the comparison tables cannot be decided' % SX.show(n))
                continue
            if n['k'] == 'member' and n['name'] in FIELDS and 'SemVer' in n.get('q', ''):
                nuse += 1
                par = pm.get(id(n))
                while par is not None and par.get('k') == 'cast':
                    par = pm.get(id(par))
                ok = False
                if par is not None and par.get('k') == 'bin' and par['op'] in ('==', '!=', '<', '>', '<=', '>='):
                    other = par['r'] if par['l'] is n else par['l']
                    ok = SX.is_node(other) and other['k'] == 'member' and other['name'] == n['name'] and SX.show(other['base']) != SX.show(n['base'])
                if not ok and par is not None and par.get('k') == 'call' and SX.short(par.get('callee', '')) in TUPLERS:
                    ok = _tuple_pairwise(f, pm, par)
                if not ok and par is not None and par.get('k') == 'var' and (par.get('const') or 'const' in (par.get('type') or '')):
                    # `const int mine = current.major;` — the local stands for the component: every use of it is a comparison with
                    # the same component of the other version
                    uses = []
                    for x in SX.walk(f.body, into_lambdas=False):
                        if x['k'] == 'ref' and x.get('id') == par.get('id'):
                            px = pm.get(id(x))
                            while px is not None and px.get('k') == 'cast':
                                px = pm.get(id(px))
                            uses.append((x, px))
                    ok = bool(uses)
                    for x, px in uses:
                        if not (px is not None and px.get('k') == 'bin' and px['op'] in ('==', '!=', '<', '>', '<=', '>=')):
                            ok = False
                            continue
                        other = px['r'] if px['l'] is x else px['l']
                        a, b = _comp(f, x), _comp(f, other)
                        if not (a and b and a[1] == b[1] and a[0] != b[0]):
                            ok = False
                if ok:
                    chk.ob('R20.1', f, n.get('ln', f.ln), True, 'version component %s compared with the same component of the other version' % SX.show(n),
                           key='pairwise:%s' % f.short, nontrivial=False)
                elif par is not None and par.get('k') in ('bin', 'cassign') and par['op'] in ('+', '-', '*', '/', '%', '<<', '>>', '+=', '-=', '*=', '|', '^'):
                    # an ordering computed by arithmetic on unbounded components (packing, differences) cannot equal the lexicographic
                    # order for all integers: it overflows or collides for large components
                    chk.ob('R20.1', f, n.get('ln', f.ln), False,
                           'version component %s is used as an operand of `%s`: versions must be ordered by comparing components, not by arithmetic on them '
                           '(packing/differences collide or overflow for large components)' % (SX.show(n), par['op']), key='arith:%s' % f.short.split('@')[0])
                else:
                    # the tables below are then not exact for all integers — but a mismatch on a representative is still a concrete
                    # counterexample; decided at the end (violations win, otherwise analysis broken)
                    chk.vacuous.append('version component %s is used in a way the quotient argument does not cover (%s); the comparison tables cannot be decided' % (
                        SX.show(n), (par or {}).get('k')))
    chk.count('uses of version components outside the parser', nuse, 12)

    # ---- abstract domain ----------------------------------------------------------------------
    def sem(valid, trip):
        return Obj(valid=valid, major=trip[0], minor=trip[1], patch=trip[2])
    states = []
    for vc, vl in itertools.product((True, False), repeat=2):
        for o in itertools.product((-1, 0, 1), repeat=3):
            c = tuple(1 for _ in o)
            l = tuple(1 + d for d in o)     # latest component = current + d  →  ordering d per component
            states.append((sem(vc, c), sem(vl, l), vc, vl, o))
    chk.extra['abstract_states'] = len(states)

    def lex(o):
        for d in o:
            if d:
                return d
        return 0

    def run_fn(f, args, models=None):
        it = Interp(prog, models or {})
        try:
            return it.call_fn(f, args), it
        except Unsupported as e:
            raise AnalysisBroken('abstract evaluation of %s: %s' % (f.short, e))
    # parse: a finite family of version spellings against the documented reading (optional `v`, up to three dot-separated decimal
    # components from the start, missing components are 0, anything after them is ignored, no component → unparsable, a component
    # that does not fit an int → unparsable as a whole)
    import re as _re
    if True:

        def ref(v):
            if v.startswith('v'):
                v = v[1:]
            m = _re.match(r'(\d+)(?:\.(\d+))?(?:\.(\d+))?', v)
            if not m:
                return (False, 0, 0, 0)
            comps = [int(x) if x is not None else 0 for x in m.groups()]
            if any(c >= 2 ** 31 for c in comps):
                return (False, 0, 0, 0)
            return (True,) + tuple(comps)
        SPELL = ['1.2.3', 'v1.2.3', '0.0.0', '10.20.30', '1.2', 'v7', '1', '', 'v', 'abc', 'v.1.2', '1..2', '1.2.3.4', '1.2.3-rc1', '1.2.3+build5', '01.002.0003', '1.2.x',
                 '99999999999.0.0', '1.99999999999.0', '1.2.99999999999', '2147483647.0.0', '2147483648.0.0', ' 1.2.3', '1.2.3 ', '1.-2.3', 'vv1.2.3', '1.2.', '.1.2']
        if getattr(chk, 'tier', 'quick') == 'thorough':
            # thorough tier: a systematic family — optional `v`, one to four components drawn from small / zero-padded / INT_MAX /
            # just-too-large / far-too-large numerals and two non-numerals, with the separators and tails that occur in release tags
            comps = ['0', '7', '12', '007', '2147483647', '2147483648', '99999999999', 'x', '']
            tails = ['', '-rc1', '+b5', ' ', '.']
            fam = set(SPELL)
            for pre in ('', 'v'):
                for a in comps:
                    for tl in tails:
                        fam.add(pre + a + tl)
                    for b in comps:
                        for tl in tails:
                            fam.add(pre + a + '.' + b + tl)
                        for c_ in comps[:7]:
                            for tl in ('', '-rc1', '.4'):
                                fam.add(pre + a + '.' + b + '.' + c_ + tl)
            SPELL = sorted(fam)
        badp = []
        for v in SPELL:
            it = Interp(prog, {})
            try:
                got = it.call_fn(parse, [v])
            except Thrown:
                badp.append('%r → an exception escapes parseSemVer' % v)
                continue
            except Unsupported as e_:
                raise AnalysisBroken('abstract evaluation of parseSemVer(%r): %s' % (v, e_))
            want = ref(v)
            g_ = (bool(got.get('valid')),) + ((got.get('major'), got.get('minor'), got.get('patch')) if got.get('valid') else (0, 0, 0)) if isinstance(got, Obj) else None
            if g_ != want:
                badp.append('%r → %s, documented %s' % (v, g_, want))
        chk.extra['version_spellings'] = len(SPELL)
        chk.ob('R20.1', parse, parse.ln, not badp, 'parseSemVer reads %d version spellings (prefix, missing components, suffixes, huge numbers, garbage) as documented; mismatches: %s' % (len(SPELL), badp[:4]),
               key='parse-table')
    # compare
    bad = []
    for c, l, vc, vl, o in states:
        r, _ = run_fn(compare, [c, l])
        want = (-lex(o)) if (vc and vl) else 0     # current<latest ⇒ -1
        want = {1: -1, -1: 1, 0: 0}[lex(o)] if (vc and vl) else 0
        if r != want:
            bad.append((vc, vl, o, r, want))
    chk.ob('R20.1', compare, compare.ln, not bad, 'compareSemVer must be the lexicographic order on (major, minor, patch), 0 for unparsable input; counterexamples: %s' % bad[:3],
           key='compare-table')
    # label (only meaningful where current < latest)
    bad = []
    for c, l, vc, vl, o in states:
        if not (vc and vl) or lex(o) != 1:
            continue
        r, _ = run_fn(label, [c, l])
        first = next(i for i, d in enumerate(o) if d)
        if r != FIELDS[first]:
            bad.append((o, r, FIELDS[first]))
    chk.ob('R20.1', label, label.ln, not bad, 'changeLabel must name the most significant component that differs; counterexamples: %s' % bad[:3], key='label-table')
    # hasLatest / notice through a model of parseSemVer
    table = {}

    def m_parse(it, e, env):
        a = it.expr(SX.real_args(e)[0], env)
        return Obj(table[a])
    def pair_fields(prm):
        """(field holding the running version, field holding the released one) of a record parameter with exactly two SemVer fields:
        the field a builder function fills from its first string parameter is the running version (call sites pass it first)"""
        tn = (prm.get('type') or '').replace('const ', '').replace('&', '').strip()
        rec = prog.facts.records.get(tn) or next((r_ for n_, r_ in prog.facts.records.items() if n_.endswith('::' + tn.split('::')[-1])), None)
        if not rec:
            return None
        sf = [f_['name'] for f_ in rec.get('fields', []) if 'SemVer' in f_['type']]
        if len(sf) != 2:
            return None
        for b_ in prog.functions:
            if not b_.body or not b_.file.endswith('update_manager.cpp') or len(b_.params) != 2 or tn.split('::')[-1] not in (b_.ret or ''):
                continue
            for n_ in SX.walk(b_.body, into_lambdas=False):
                w_ = SX.write_target(n_)
                if w_ and SX.is_node(SX.strip(w_[0])) and SX.strip(w_[0]).get('k') == 'member' and SX.strip(w_[0])['name'] in sf and \
                        any(y.get('k') == 'ref' and y.get('id') == b_.params[0].get('id') for y in SX.walk(w_[1])):
                    first = SX.strip(w_[0])['name']
                    return first, [x for x in sf if x != first][0]
        return sf[0], sf[1]
    bad = []
    for c, l, vc, vl, o in states:
        table['CUR'], table['LAT'] = c, l
        if all('SemVer' in (p_.get('type') or '') for p_ in hasLatest.params):
            r, _ = run_fn(hasLatest, [Obj(c), Obj(l)], {'parseSemVer': m_parse})       # takes the parsed versions
        elif len(hasLatest.params) == 1 and pair_fields(hasLatest.params[0]):
            fcur, flat = pair_fields(hasLatest.params[0])
            r, _ = run_fn(hasLatest, [Obj({fcur: Obj(c), flat: Obj(l)})], {'parseSemVer': m_parse})     # takes both parsed versions in one record
        else:
            r, _ = run_fn(hasLatest, ['CUR', 'LAT'], {'parseSemVer': m_parse})
        want = vc and vl and lex(o) <= 0
        if bool(r) != bool(want):
            bad.append((vc, vl, o, r))
    chk.ob('R20.1', hasLatest, hasLatest.ln, not bad, 'hasLatest ⇔ both versions parse ∧ current ≥ latest; counterexamples: %s' % bad[:3], key='hasLatest-table')
    # notice decision
    bad = []
    nst = 0
    for c, l, vc, vl, o in states:
        for empty, expired in itertools.product((False, True), repeat=2):
            nst += 1
            table['CUR'], table['LAT'] = c, l
            cache = Obj(lastNotified='OLD', latestVersion='X', lastChecked='T0')
            printed = []

            def m_out(it, e, env, printed=printed):
                printed.append(1)
                return 'cout'
            models = {'parseSemVer': m_parse,
                      'hasExpired': lambda it, e, env: expired,
                      'empty': lambda it, e, env: empty,
                      'op:<<': m_out, 'endl': lambda it, e, env: None}
            r, it = run_fn(notice, ['LAT', 'CUR', 'NOW', cache], models)
            want = (not empty) and expired and vc and vl and lex(o) == 1
            stamped = cache['lastNotified'] == 'NOW'
            if bool(r) != want or bool(printed) != want or stamped != want:
                bad.append((empty, expired, vc, vl, o, r, bool(printed), stamped))
    chk.ob('R20.1', notice, notice.ln, not bad,
           'notice printed ⇔ latest known ∧ 72h window expired ∧ both parse ∧ current < latest; then (and only then) stamp lastNotified and return true; '
           'counterexamples: %s' % bad[:3], key='notice-table')
    chk.extra['notice_states'] = nst
    # install gate in performSelfUpdate
    g = prog.cfg(selfupd)
    install = [c for c in g.calls(lambda e: e['k'] in ('call', 'mcall') and SX.short(SX.callee(e)) in
                                  ('downloadFile', 'downloadText', 'extractArchive', 'installBinary', 'replaceBinary', 'sha256File', 'findBinary'))]
    if len(install) < 3:
        raise AnalysisBroken('install steps of performSelfUpdate not recognised (%d)' % len(install))
    for c in install[:1] + install[-1:]:
        gs = g.guards(c)
        latest_gate = any((not pol) and SX.is_node(ce) and ce['k'] == 'call' and SX.callee(ce) == hasLatest.name for ce, pol, _ in gs)
        valid_gate = sum(1 for ce, pol, _ in gs if (not pol) and SX.is_node(ce) and ce['k'] == 'un' and False) >= 0
        vg = [SX.show(ce) for ce, pol, _ in gs if SX.is_node(ce) and ce['k'] == 'member' and ce['name'] == 'valid' and pol]
        for ce, pol, _ in gs:
            # `versions.comparable()` — a const member whose whole body is `return a.valid && b.valid;`
            if pol and SX.is_node(ce) and ce.get('k') == 'mcall' and ce.get('constm') and not SX.real_args(ce):
                for h_ in prog.resolve(ce):
                    hb = h_.body['body'] if h_.body and h_.body.get('k') == 'block' else []
                    if len(hb) == 1 and hb[0].get('k') == 'return':
                        def conj_(c_):
                            c_ = SX.strip(c_)
                            if SX.is_node(c_) and c_.get('k') == 'bin' and c_['op'] == '&&':
                                return conj_(c_['l']) + conj_(c_['r'])
                            return [c_]
                        cs = conj_(hb[0].get('e'))
                        if all(SX.is_node(c_) and c_.get('k') == 'member' and c_['name'] == 'valid' for c_ in cs):
                            vg += ['%s.%s' % (SX.show(SX.strip(ce.get('obj'))), SX.show(c_).replace('this->', '')) for c_ in cs]
        chk.ob('R20.1', selfupd, c.ln, latest_gate, 'install step %s must be reached only when hasLatest(current, latest) is false' % SX.short(SX.callee(c.e)),
               key='install-gate:newer:' + SX.short(SX.callee(c.e)))
        chk.ob('R20.1', selfupd, c.ln, len(set(vg)) >= 2, 'install step %s must be reached only when both version strings parsed (found %s)' % (SX.short(SX.callee(c.e)), vg),
               key='install-gate:parsed:' + SX.short(SX.callee(c.e)))

    # ---- R20.2 ---------------------------------------------------------------------------------
    esc = Escape(prog, [due, selfupd])
    n2 = 0
    for f, n, types in esc.sites():
        if SX.short(SX.callee(n)) == 'substr':
            continue
        n2 += 1
        ok, why = esc.protected(f, n, types)
        chk.ob('R20.2', f, n.get('ln', f.ln), ok, '%s: %s' % (SX.show(n)[:60], ('protected: ' + why) if ok else 'escapes via ' + ' <- '.join(SX.short(x) for x in why)),
               key='escape:%s:%s' % (f.short, SX.short(SX.callee(n))))
    chk.count('throwing conversions reachable from the updater entry points', n2, 1)

    # ---- R20.3 ---------------------------------------------------------------------------------
    skip = fn('shouldSkipChecks')
    envs = [n for n in SX.walk(skip.body) if n['k'] == 'call' and SX.short(n.get('callee', '')) == 'getenv']
    names = {a['v'] for n in envs for a in n['args'] if SX.is_node(a) and a['k'] == 'str'}
    chk.ob('R20.3', skip, skip.ln, 'BLOCH_NO_UPDATE_CHECK' in names, 'environment switch BLOCH_NO_UPDATE_CHECK disables checks (found %s)' % sorted(names), key='env-switch')
    # skip function returns true when any switch is set: body is a disjunction of getenv calls
    rets = [n for n in SX.walk(skip.body) if n['k'] == 'return']
    okr = len(rets) == 1 and _is_disjunction_of_getenv(rets[0]['e'])
    chk.ob('R20.3', skip, skip.ln, okr, 'shouldSkipChecks returns the disjunction of its environment switches', key='env-disjunction')
    gd = prog.cfg(due)
    skipconds = [n for n in gd.nodes if n.kind == 'edge' and not n.pol and SX.is_node(n.e) and n.e['k'] == 'call' and SX.callee(n.e) == skip.name]
    # notice call sites: in checkForUpdatesIfDue itself, or in file-local helpers it calls (notifyFromCache(cache, …)); a helper's
    # sites inherit the environment gate from the helper's call sites, all of which must then be in checkForUpdatesIfDue
    sites = [(due, gd, c, None) for c in gd.calls(lambda e: e['k'] == 'call' and SX.callee(e) == notice.name)]
    for h in um:
        if h in (due, notice, selfupd) or h.kind == 'lambda':
            continue
        gh = prog.cfg(h)
        hc = [c for c in gh.calls(lambda e: e['k'] == 'call' and SX.callee(e) == notice.name)]
        if not hc:
            continue
        outer = [c for c in gd.calls(lambda e: e['k'] == 'call' and SX.callee(e) == h.name)]
        elsewhere = [f2 for f2 in um if f2 is not due and f2 is not h and any(n['k'] == 'call' and SX.callee(n) == h.name for n in SX.walk(f2.body))]
        for c in hc:
            sites.append((h, gh, c, (outer, elsewhere)))
    chk.count('notice call sites', len(sites), 2)
    for i, (h, gh, c, via) in enumerate(sites):
        if via is None:
            ok = bool(skipconds) and gd.must_precede(skipconds, c)
        else:
            outer, elsewhere = via
            ok = bool(skipconds) and bool(outer) and not elsewhere and all(gd.must_precede(skipconds, o) for o in outer)
        chk.ob('R20.3', h, c.ln, ok, 'notice must be unreachable when update checks are disabled by environment', key='skip-dominates#%d' % i)
        saves = [s_ for s_ in gh.calls(lambda e: e['k'] == 'call' and SX.short(SX.callee(e)) == 'saveCache')]
        # after a `true` result the cache is saved on every normal path
        tedges = [n for n in gh.nodes if n.kind == 'edge' and n.pol and n.e is c.e]
        if tedges:
            ok2 = all(gh.must_follow(t, saves) for t in tedges)
        else:
            ok2 = gh.must_follow(c, saves)
        if not ok2 and via is not None and via[0]:
            dsaves = [s_ for s_ in gd.calls(lambda e: e['k'] == 'call' and SX.short(SX.callee(e)) == 'saveCache')]
            ok2 = all(gd.must_follow(o, dsaves) for o in via[0])
        chk.ob('R20.3', h, c.ln, ok2, 'a printed notice (true result) must be followed by saveCache so that the 72 h stamp persists', key='save-after#%d' % i)
    win = [gl for (nm, fl, ln), gl in prog.facts.globals.items() if nm.endswith('kUpdateWindow')]
    okw = len(win) == 1 and ('hours' in SX.show(win[0]['init']) or 'ratio<3600' in SX.show(win[0]['init'])) and '(72)' in SX.show(win[0]['init'])
    chk.ob('R20.3', 'update_manager', 'src/bloch/update/update_manager.cpp', okw, 'notice window constant is 72 hours (%s)' % (SX.show(win[0]['init'])[:60] if win else 'not found'),
           key='window-72h', nontrivial=False)
    he = fn('hasExpired')
    r = [n for n in SX.walk(he.body) if n['k'] == 'return']
    okh = len(r) == 1 and _is_elapsed_ge_window(r[0]['e'], he)
    chk.ob('R20.3', he, he.ln, okh, 'hasExpired(tp, now) ⇔ now - tp >= window', key='hasExpired-form')

    # ---- R20.4 ---------------------------------------------------------------------------------
    gc = prog.cfg(checksum)
    asset = checksum.params[1]
    nret = 0
    for rn in gc.nodes:
        if rn.kind != 'return':
            continue
        v = rn.e.get('e')
        if SX.is_node(v) and 'nullopt' in SX.show(v):
            continue
        nret += 1
        eq = False
        for ce, pol, _ in gc.guards(rn):
            cp = SX.cmp_parts(ce)
            if cp and ((cp[0] == '==' and pol) or (cp[0] == '!=' and not pol)):
                if any(SX.is_node(x) and x['k'] == 'ref' and x.get('id') == asset['id'] for x in (SX.strip(cp[1]), SX.strip(cp[2]))):
                    eq = True
        chk.ob('R20.4', checksum, rn.ln, eq, 'a checksum may be returned only under an equality test of the entry\'s file name with the asset name', key='select-by-equality')
    chk.count('checksum return sites', nret, 1)
    uses_find = [n for n in SX.walk(checksum.body) if n['k'] == 'mcall' and SX.short(n['callee']) == 'find' and any(
        SX.is_node(a) and a.get('id') == asset['id'] for a in n['args'])]
    chk.ob('R20.4', checksum, checksum.ln, not uses_find, 'asset name must not be matched by substring search', key='no-substring', nontrivial=False)
    # the name that is compared is the name listed in the file: the only edits between reading it and the comparison are the two
    # documented spellings sha256sum produces for the same file — a leading binary-mode '*' and a leading "./" — each removed by a
    # fixed-length erase under an exact test of that prefix.  Anything broader (cutting at the last '/', trimming by search) makes
    # the entry of another file — `legacy/<asset>` — count as the asset's own
    other = set()
    helpers = []
    for rn in gc.nodes:
        if rn.kind != 'return':
            continue
        for ce, pol, _ in gc.guards(rn):
            cp = SX.cmp_parts(ce)
            if cp and cp[0] in ('==', '!='):
                for x, y in ((SX.strip(cp[1]), SX.strip(cp[2])), (SX.strip(cp[2]), SX.strip(cp[1]))):
                    if SX.is_node(x) and x.get('id') == asset['id'] and SX.is_node(y) and y.get('k') == 'ref':
                        other.add(y['id'])
                    if SX.is_node(x) and x.get('id') == asset['id'] and SX.is_node(y) and y.get('k') == 'call' and prog.by_name.get(y.get('callee')):
                        h_ = prog.by_name[y['callee']][0]
                        if h_.body and h_.params and h_.params[0].get('id'):
                            helpers.append((h_, {h_.params[0]['id']}))
    nedit = 0
    stars, dots = [], []
    for fn_, g_, ids_ in [(checksum, gc, other)] + [(h_, prog.cfg(h_), i_) for h_, i_ in helpers]:
      for cn in g_.nodes:
          if cn.kind not in ('call', 'assign') or not SX.is_node(cn.e):
              continue
          e = cn.e
          tgt = None
          if e.get('k') == 'mcall' and not e.get('constm', True) and SX.is_node(SX.strip(e.get('obj'))) and SX.strip(e['obj']).get('id') in ids_ and \
                  SX.short(e.get('callee', '')) in ('erase', 'assign', 'append', 'insert', 'replace', 'resize', 'clear', 'pop_back', 'push_back', 'swap', 'operator=', 'operator+='):
              tgt = SX.strip(e['obj'])
          w = SX.write_target(e)
          if w and SX.is_node(SX.strip(w[0])) and SX.strip(w[0]).get('id') in ids_:
              tgt = SX.strip(w[0])
          if tgt is None:
              continue
          nedit += 1
          ok_edit = False
          why = SX.show(e)[:60]
          if e.get('k') == 'mcall' and SX.short(e.get('callee', '')) == 'erase':
              a = SX.real_args(e)
              vals = [SX.strip(x).get('v') if SX.is_node(SX.strip(x)) and SX.strip(x).get('k') == 'int' else None for x in a]
              if len(a) == 2 and vals[0] == 0 and vals[1] in (1, 2):
                  for ce, pol, _ in g_.guards(cn):
                      if not pol:
                          continue
                      cp = SX.cmp_parts(ce)
                      if not cp or cp[0] != '==':
                          continue
                      l, r = SX.strip(cp[1]), SX.strip(cp[2])
                      txt = SX.show(ce)
                      if vals[1] == 1 and SX.is_node(l) and l.get('k') == 'mcall' and SX.short(l.get('callee', '')) == 'front' and SX.strip(l.get('obj')).get('id') == tgt['id'] \
                              and SX.is_node(r) and r.get('k') in ('char', 'int') and r.get('v') in ('*', 42):
                          ok_edit = True
                      if vals[1] == 2 and SX.is_node(l) and l.get('k') == 'mcall' and SX.short(l.get('callee', '')) in ('rfind', 'compare') and SX.strip(l.get('obj')).get('id') == tgt['id'] \
                              and any(SX.is_node(SX.strip(x)) and SX.strip(x).get('k') == 'str' and SX.strip(x).get('v') == './' for x in SX.real_args(l)) \
                              and SX.is_node(r) and r.get('v') == 0:
                          ok_edit = True
          if ok_edit:
              (stars if vals[1] == 1 else dots).append((fn_, g_, cn))
          chk.ob('R20.4', fn_, cn.ln or fn_.ln, ok_edit,
                 'the listed file name is edited before it is compared with the asset name (%s): only a leading \'*\' and a leading "./" may be removed, each by a fixed-length erase under an '
                 'exact test of that prefix — anything broader lets the entry of another file stand in for the asset\'s' % why, key='name-edit:' + why[:30])
    chk.count('edits of the listed name before the comparison', nedit, 1)
    # the binary-mode marker belongs to the line format (`<hash> <space or '*'><name>`), the "./" to the name: `<hash> *./<asset>` is what
    # `sha256sum -b ./<asset>` writes, so the marker comes off first — with the order reversed that entry is not found and the download is
    # installed unverified
    for fs_, gs_, sn in stars:
        for fd_, gd_, dn in dots:
            if fs_ is fd_:
                chk.ob('R20.4', fs_, sn.ln, sn.id not in gs_.reachable([dn], avoid=[h_ for h_ in gs_.nodes if h_.kind == 'loophead']), 'the binary-mode \'*\' is removed before the "./" prefix is looked for (`<hash> *./<asset>` is the asset\'s own entry)',
                       key='name-edit:marker-first')
    # mismatch aborts before extraction
    mism = []
    for n in g.nodes:
        if n.kind == 'edge' and 'expected' in SX.show(n.e):
            cp = SX.cmp_parts(n.e)
            if cp and ((cp[0] == '!=' and n.pol) or (cp[0] == '==' and not n.pol)):
                mism.append(n)
    extract = [c for c in g.calls(lambda e: e['k'] in ('call',) and SX.short(SX.callee(e)) == 'extractArchive')]
    ok = bool(mism) and bool(extract) and all(extract[0].id not in g.reachable([m]) for m in mism)
    if not mism and extract:
        # the comparison may live in a file-local verification helper (`if (!verifyArchiveChecksum(…)) return false;`): inside the
        # helper every path from the mismatch ends in the same constant result, and in performSelfUpdate the branch taken on that
        # result never reaches the extraction
        ok = False
        for h in um:
            if h is selfupd or h.kind == 'lambda' or not h.body or (h.ret or '') != 'bool':
                continue
            gh = prog.cfg(h)
            hm = []
            for n in gh.nodes:
                if n.kind == 'edge' and 'expected' in SX.show(n.e):
                    cp = SX.cmp_parts(n.e)
                    if cp and ((cp[0] == '!=' and n.pol) or (cp[0] == '==' and not n.pol)):
                        hm.append(n)
            sites = [c for c in g.calls(lambda e: e['k'] == 'call' and SX.callee(e) == h.name)]
            if not hm or not sites:
                continue
            consts = set()
            for m in hm:
                r = gh.reachable([m])
                for rn in gh.nodes:
                    if rn.kind == 'return' and rn.id in r:
                        v = SX.strip(rn.e.get('e'))
                        consts.add(v['v'] if SX.is_node(v) and v.get('k') == 'bool' else None)
                if gh.exit.id in r and not any(rn.kind == 'return' and rn.id in r for rn in gh.nodes):
                    consts.add(None)
            if len(consts) != 1 or None in consts:
                continue
            kres = bool(consts.pop())
            ok = True
            for c in sites:
                es = [n for n in g.nodes if n.kind == 'edge' and n.e is c.e and n.pol == kres]
                if not es or any(extract[0].id in g.reachable([e_]) for e_ in es):
                    ok = False
                # the extraction itself must come after the verification
                if not g.must_precede([c], extract[0]):
                    ok = False
    chk.ob('R20.4', selfupd, selfupd.ln, ok, 'a checksum mismatch must end the update before the archive is extracted', key='mismatch-aborts')
    # the name passed to parseChecksum is the asset that was downloaded
    pc = [c for c in g.calls(lambda e: e['k'] == 'call' and SX.callee(e) == checksum.name)]
    dl = [c for c in g.calls(lambda e: e['k'] == 'call' and SX.short(SX.callee(e)) == 'downloadFile')]
    if pc and dl:
        an = SX.show(SX.real_args(pc[0].e)[1])
        ok = any(an in SX.show(a) for a in SX.real_args(dl[0].e))
        chk.ob('R20.4', selfupd, pc[0].ln, ok, 'checksum is looked up for the same asset name that is downloaded (%s)' % an, key='same-asset')


def _comp(f, e):
    """(text of the version object, component key) when e denotes one component of a version: `v.major`, `v.*<pointer to a
    component>`, or a const local initialised with one"""
    e = SX.strip(e)
    while SX.is_node(e) and e.get('k') == 'cast':
        e = SX.strip(e['e'])
    if not SX.is_node(e):
        return None
    if e['k'] == 'member' and e['name'] in FIELDS and 'SemVer' in e.get('q', ''):
        return SX.show(e['base']), 'f:' + e['name']
    if e['k'] == 'bin' and e.get('op') in ('.*', '->*') and 'SemVer::*' in ((SX.strip(e['r']) or {}).get('t') or '') and SX.strip(e['r']).get('t', '').startswith('int '):
        return SX.show(e['l']), 'p:' + SX.show(e['r'])
    if e['k'] == 'ref' and e.get('kind') == 'var':
        for v in SX.walk(f.body, into_lambdas=False):
            if v['k'] == 'var' and v.get('id') == e.get('id') and (v.get('const') or 'const' in (v.get('type') or '')) and SX.is_node(v.get('init')):
                i = SX.strip(v['init'])
                if SX.is_node(i) and i.get('k') != 'ref':
                    return _comp(f, i)
    return None


def _is_disjunction_of_getenv(e):
    if not SX.is_node(e):
        return False
    if e['k'] == 'bin' and e['op'] == '||':
        return _is_disjunction_of_getenv(e['l']) and _is_disjunction_of_getenv(e['r'])
    if e['k'] == 'call' and SX.short(e.get('callee', '')) == 'getenv':
        return True
    if e['k'] == 'bin' and e['op'] == '!=' and SX.is_node(e['r']) and e['r']['k'] == 'nullptr':
        return _is_disjunction_of_getenv(e['l'])
    return False


def _is_elapsed_ge_window(e, f):
    cp = SX.cmp_parts(e)
    if not cp or cp[0] != '>=':
        return False
    l, r = cp[1], cp[2]
    lt = SX.show(l)
    now, tp = f.params[1]['name'], f.params[0]['name']
    return lt.replace(' ', '') in ('(%s-%s)' % (now, tp),) and 'kUpdateWindow' in SX.show(r)
