"""C11 — garbage collection is unobservable under every schedule, and race-free.

Schedules are abstracted to "a collection may happen at any statement boundary, also inside nested
calls"; the rules below are schedule-free necessary conditions for a collection never to clear a live
object and for the timer thread to be benign."""
from .. import sx as SX
from ..facts import AnalysisBroken
from ..roles import Roles
from .C12 import _object_owning_members, _type_owns_objects

EXPLANATION = (
    "Schedule-free static rules: (R11.1) root completeness by type — every evaluator member (and RuntimeClass member reached "
    "through the class table) whose type transitively owns shared_ptr<Object> is passed, over its full range, to the marking "
    "functions in the collector; markValue/markObject follow every shared_ptr<Object>-typed field of Value and every field of an "
    "object; (R11.2) the collector is safe at every call site by the conservative-roots design: before the sweep it counts, once "
    "per owner path, the references held by exactly the traced graph and marks every candidate whose use_count exceeds that "
    "count, so no object held by a C++ temporary (pending argument, receiver, unreturned `new`) can be swept; the counting "
    "traversal, the comparison and its dominance over the sweep are checked; (R11.3) the timer thread's effect set contains "
    "only atomics/mutex/condition_variable members; (R11.4) the thread is stopped and joined first thing in the destructor and "
    "before the final collection in execute, and is only started under !joinable(). No schedule is executed.")

SYNC = ('std::atomic<', 'std::mutex', 'std::condition_variable')


def _owner_paths(prog, R):
    """[(member, subfield or None)] — evaluator members that own Objects, refined to the owning sub-member when the member is
    a container of (pointers to) a non-Value record."""
    out = []
    valrec = _value_record(prog)
    for m, t in _object_owning_members(prog, R):
        import re
        toks = set(re.findall(r'[A-Za-z_][\w:]*', [f['type'] for f in R.ev['fields'] if f['name'] == m][0]))
        direct = valrec['name'] in toks or any(r in toks for r in prog.facts.records if r.endswith('::VarEntry'))
        if direct:
            out.append((m, None))
            continue
        for rn in toks:
            rec = prog.facts.records.get(rn)
            if not rec:
                continue
            for f in rec['fields']:
                if not f['static'] and _type_owns_objects(prog, f['type']):
                    if _emptied_before_store(prog, R, m, f['name']):
                        continue        # a parking place for storage only: what it holds refers to nothing (premise checked)
                    out.append((m, f['name']))
    return out


def _emptied_before_store(prog, R, m, sub):
    """every element appended to container member m has its sub-member `sub` cleared first (`x->sub.clear(); m.emplace_back(x);` with
    the clear dominating the append), and m's elements are not reached for writing anywhere else: the elements then own no
    object, so the member is not a marking root"""
    sites = 0
    for f in [x for x in R.ev_methods() if x.body] + [l for x in R.ev_methods() for l in getattr(x, 'lambdas', [])]:
        if not f.body:
            continue
        g = prog.cfg(f)
        for c in g.calls(lambda e: SX.append_target(e) is not None and SX.is_this_member(SX.strip(SX.append_target(e)), m)):
            sites += 1
            args = [SX.strip(a) for a in SX.real_args(c.e)]
            if len(args) != 1 or not (SX.is_node(args[0]) and args[0].get('k') == 'ref'):
                return False
            xid = args[0].get('id')
            clears = [k for k in g.calls(lambda e: e['k'] == 'mcall' and SX.short(e.get('callee', '')) == 'clear' and SX.is_node(SX.strip(e.get('obj'))) and
                                         SX.strip(e['obj']).get('k') == 'member' and SX.strip(e['obj']).get('name') == sub and
                                         any(y.get('k') == 'ref' and y.get('id') == xid for y in SX.walk(SX.strip(e['obj']).get('base'))))]
            if not clears or not any(g.dominates(k, c) and not _writes_sub_between(g, k, c, xid, sub) for k in clears):
                return False
        # no other access path to the elements of m (subscripts, iteration) outside the destructor's clear()
        for n in SX.walk(f.body, into_lambdas=False):
            if n['k'] in ('index', 'forrange') and SX.is_this_member(SX.strip(n.get('base') or n.get('range')), m):
                return False
    return sites > 0


def _writes_sub_between(g, a, b, xid, sub):
    mid = g.reachable([a], avoid=[b]) & g.reachable([b], forward=False, avoid=[a])
    for i in mid:
        n = g.nodes[i]
        if n.kind in ('assign', 'call') and SX.is_node(n.e):
            for y in SX.walk(n.e):
                if y.get('k') == 'member' and y.get('name') == sub and any(z.get('k') == 'ref' and z.get('id') == xid for z in SX.walk(y.get('base'))):
                    return True
    return False


def _value_record(prog):
    c = [r for n, r in prog.facts.records.items() if any(f['type'] == 'std::shared_ptr<bloch::runtime::Object>' for f in r['fields'])
         and any('std::vector<std::shared_ptr<bloch::runtime::Object>' in f['type'] for f in r['fields'])]
    if len(c) != 1:
        raise AnalysisBroken('Value record not resolved (%d)' % len(c))
    return c[0]


def _loop_sources(body):
    """var id -> (range expr) for every range-for loop variable / structured binding in body."""
    src = {}
    for n in SX.walk(body, into_lambdas=False):
        if n['k'] == 'forrange':
            v = n['var']
            src[v['id']] = n
            for b in v.get('bindings', []):
                src[b['id']] = n
        if n['k'] == 'var' and n.get('init') is not None and n.get('isref'):
            # reference alias of something reachable from a loop variable / member
            src.setdefault(n['id'], {'range': n['init'], 'alias': True, 'body': None, 'var': n})
    return src


def _origin(e, src, depth=0):
    """(evaluator member, [field names along the way]) an expression is derived from, following range-for variables."""
    root, names = SX.member_chain(e)
    if not SX.is_node(root):
        return None, names
    if root['k'] == 'this':
        return (names[0] if names else None), names[1:]
    if root['k'] == 'ref' and root.get('id') in src and depth < 6:
        m, more = _origin(src[root['id']]['range'], src, depth + 1)
        return m, more + names
    if root['k'] == 'ref':
        return ('local:' + root['name']), names
    return None, names


def _full_range(loop):
    if loop.get('alias'):
        return True
    return not any(x['k'] in ('break', 'return', 'continue') for x in SX.walk(loop['body'], into_lambdas=False))


def run(prog, chk):
    R = Roles(prog)
    chk.rule('R11.1', 'every Object-owning member is a marking root over its full range; marking follows every Object reference')
    chk.rule('R11.2', 'collector is safe at any call site: conservative roots (use_count vs traced-reference count) dominate the sweep')
    chk.rule('R11.3', 'timer thread touches only atomic/mutex/condition_variable members and never reaches the collector')
    chk.rule('R11.4', 'timer thread stopped+joined first in the destructor and before the final collection; started only when not joinable')
    chk.rule('R11.5', 'the sweep never decides when an object it does not reclaim is destroyed: excluded objects, their referrers and referents are kept')
    gc = R.ev_method('runCycleCollector')
    markValue = R.ev_method('markValue')
    markObject = R.ev_method('markObject')
    valrec = _value_record(prog)
    objfields = [f['name'] for f in valrec['fields'] if 'std::shared_ptr<bloch::runtime::Object>' in f['type']]
    src = _loop_sources(gc.body)
    paths = _owner_paths(prog, R)
    chk.count('Object-owning root paths', len(paths), 3)

    # ---- R11.1 roots ---------------------------------------------------------------------------
    marks = [n for n in SX.walk(gc.body, into_lambdas=False) if n['k'] == 'mcall' and n['callee'] in (markValue.name, markObject.name)]
    from ..kernels import enclosing_stmts
    for m, sub in paths:
        hit = []
        for c in marks:
            a = SX.real_args(c)
            if not a:
                continue
            om, names = _origin(a[0], src)
            if om == m and (sub is None or sub in names):
                loops = [s for s in enclosing_stmts(gc.body, c) if s['k'] in ('forrange', 'for', 'while')]
                full = all(l['k'] == 'forrange' and _full_range(l) for l in loops)
                hit.append((c, full))
        ok = any(full for _, full in hit)
        chk.ob('R11.1', gc, hit[0][0].get('ln', gc.ln) if hit else gc.ln, ok,
               'root %s%s must be marked over its full range in the collector' % (m, '.' + sub if sub else ''), key='root:%s%s' % (m, '.' + sub if sub else ''))
    # marking functions follow every Object reference
    g = prog.cfg(markValue)
    for fld in objfields:
        refs = [n for n in SX.walk(markValue.body) if n['k'] == 'member' and n['name'] == fld]
        calls = [n for n in SX.walk(markValue.body) if n['k'] == 'mcall' and n['callee'] == markObject.name]
        ok = bool(refs) and bool(calls)
        chk.ob('R11.1', markValue, markValue.ln, ok, 'markValue must follow Value::%s into markObject' % fld, key='markValue:' + fld)
    msrc = _loop_sources(markObject.body)
    inner = [n for n in SX.walk(markObject.body) if n['k'] == 'mcall' and n['callee'] == markValue.name]
    rec_ok = False
    for c in inner:
        a = SX.real_args(c)
        om, names = _origin(a[0], msrc) if a else (None, [])
        loops = [s for s in enclosing_stmts(markObject.body, c) if s['k'] in ('forrange', 'for', 'while')]
        if 'fields' in names and loops and all(l['k'] == 'forrange' and _full_range(l) for l in loops):
            rec_ok = True
    chk.ob('R11.1', markObject, markObject.ln, rec_ok, 'markObject must mark every field of the object (full range-for over fields → markValue)', key='markObject:fields')
    gmo = prog.cfg(markObject)
    sets = [n for n, l, r, op in gmo.writes() if SX.member_chain(l)[1][-1:] == ['marked'] and SX.is_node(r) and r['k'] == 'bool' and r['v']]
    chk.ob('R11.1', markObject, markObject.ln, bool(sets), 'markObject sets the mark bit', key='markObject:sets')
    # early exits of markObject only for null / already marked
    after_set = gmo.reachable(sets) if sets else set()
    for cn in gmo.nodes:
        if cn.kind == 'cond' and cn.id not in after_set and not (SX.is_node(cn.e) and cn.e.get('k') == 'rangehas'):
            chk.ob('R11.1', markObject, cn.ln, _null_or_marked(cn.e), 'markObject may skip marking only for a null or already marked object (test: %s)' % SX.show(cn.e)[:50],
                   key='markObject:early')

    # ---- R11.2 conservative roots --------------------------------------------------------------
    gg = prog.cfg(gc)
    # the sweep: writes that clear fields / set skipDestructor on candidates
    sweep = [n for n, l, r, op in gg.writes() if SX.member_chain(l)[1][-1:] == ['skipDestructor']]
    wipes = []
    for n, l, r, op in gg.writes():
        root, names = SX.member_chain(l)
        om, nm = _origin(l, src)
        if SX.is_node(root) and root['k'] == 'ref' and root.get('id') in src and 'fields' in (nm or []):
            wipes.append(n)
    chk.ob('R11.2', gc, gc.ln, bool(sweep or wipes), 'collector sweep located (skipDestructor / field wipe)', key='sweep-found', nontrivial=False)
    # counting map: local of type unordered_map<const Object*, integral>
    cmaps = [n for n in SX.walk(gc.body, into_lambdas=False) if n['k'] == 'var' and 'unordered_map<const bloch::runtime::Object *' in n['type']]
    d3 = len(cmaps) == 1
    if not d3:
        chk.ob('R11.2', gc, gc.ln, False,
               'collector runs while evaluation results are held only by C++ temporaries (pending arguments, receivers, unreturned `new`), '
               'and has no conservative-root step (use_count vs traced count) nor a quiescence guard', key='design:conservative-roots')
    else:
        cm = cmaps[0]
        # the counter: a lambda (or inline code) that increments cm[...] for objectValue and each objectArray element
        counters = []
        for lf in gc.lambdas:
            incs = [n for n in SX.walk(lf.body) if n['k'] == 'un' and n['op'] == '++' and any(x['k'] == 'ref' and x.get('id') == cm['id'] for x in SX.walk(n['e']))]
            if incs:
                counters.append((lf, incs))
        if len(counters) != 1:
            raise AnalysisBroken('reference counter closure not recognised (%d candidates)' % len(counters))
        lf, incs = counters[0]
        for fld in objfields:
            ok = any(any(x['k'] == 'member' and x['name'] == fld for x in SX.walk(n['e'])) or
                     _inc_over_loop(lf, n, fld) for n in incs)
            chk.ob('R11.2', lf, lf.ln, ok, 'reference counter must count Value::%s' % fld, key='count-field:' + fld)
        # each increment adds exactly one per reference: `++traced[p]` (no +=k)
        par = None
        for n in SX.walk(gc.body, into_lambdas=False):
            if n['k'] == 'var' and SX.is_node(n.get('init')) and n['init'] is lf.node:
                par = n
        if par is None:
            raise AnalysisBroken('reference counter closure is not bound to a local')
        ccalls = [n for n in SX.walk(gc.body, into_lambdas=False) if n['k'] == 'opcall' and n['op'] == '()' and n['args'] and
                  SX.is_node(n['args'][0]) and n['args'][0].get('id') == par['id']]
        seen = {}
        for c in ccalls:
            om, names = _origin(c['args'][1], src)
            loops = [s for s in enclosing_stmts(gc.body, c) if s['k'] in ('forrange', 'for', 'while')]
            full = all(l['k'] == 'forrange' and _full_range(l) for l in loops)
            key = (om, tuple(x for x in names if x in ('staticStorage', 'fields', 'value')))
            seen.setdefault(key, []).append((c, full))
        # every owner path counted exactly once; candidates' fields counted exactly once
        want = [(m, sub) for m, sub in paths]
        for m, sub in want:
            ks = [k for k in seen if k[0] == m and (sub is None or sub in k[1])]
            n = sum(len(seen[k]) for k in ks)
            full = all(f for k in ks for _, f in seen[k])
            chk.ob('R11.2', gc, gc.ln, n == 1 and full,
                   'traced-reference count must include %s%s exactly once over its full range (found %d)' % (m, '.' + sub if sub else '', n),
                   key='count-root:%s%s' % (m, '.' + sub if sub else ''))
        # candidate vector: local vector<shared_ptr<Object>> filled from weak_ptr::lock()
        cand = [n for n in SX.walk(gc.body, into_lambdas=False) if n['k'] == 'var' and n['type'] == 'std::vector<std::shared_ptr<bloch::runtime::Object>>']
        cand_names = {'local:' + c['name'] for c in cand}
        ks = [k for k in seen if k[0] in cand_names and 'fields' in k[1]]
        n = sum(len(seen[k]) for k in ks)
        chk.ob('R11.2', gc, gc.ln, n == 1 and all(f for k in ks for _, f in seen[k]),
               'traced-reference count must include the fields of every candidate object exactly once (found %d)' % n, key='count-root:candidates.fields')
        extra = [k for k in seen if k[0] not in [m for m, _ in want] and not (k[0] in cand_names and 'fields' in k[1])]
        chk.ob('R11.2', gc, gc.ln, not extra, 'traced-reference count includes sources that are not owners: %s' % extra, key='count-extra')
        # the comparison: use_count() - k > traced[obj.get()]  guarding markObject(obj), with k = 1 for by-reference iteration
        conds = [cn for cn in gg.nodes if cn.kind == 'cond' and any(x['k'] == 'mcall' and SX.short(x['callee']) == 'use_count' for x in SX.walk(cn.e))]
        okc = False
        detail = 'no use_count comparison found'
        for cn in conds:
            cp = SX.cmp_parts(cn.e)
            if not cp:
                continue
            op, l, r = cp
            if op == '<':
                op, l, r = '>', r, l
            l = _peel(l)
            r = _peel(r)
            k = None
            uc = None
            if SX.is_node(l) and l['k'] == 'bin' and l['op'] == '-':
                from ..kdiv import int_const
                k = int_const(l['r'])
                uc = _peel(l['l'])
            if not (SX.is_node(uc) and uc['k'] == 'mcall' and SX.short(uc['callee']) == 'use_count'):
                continue
            ov = uc['obj']
            loopv = src.get(ov.get('id')) if SX.is_node(ov) and ov['k'] == 'ref' else None
            byref = bool(loopv) and loopv['var'].get('isref')
            need = 1 if byref else 2
            uses_map = any(x['k'] == 'ref' and x.get('id') == cm['id'] for x in SX.walk(r))
            same_obj = any(x['k'] == 'ref' and x.get('id') == ov.get('id') for x in SX.walk(r)) if SX.is_node(ov) else False
            mo = [c for c in gg.calls(lambda e: e['k'] == 'mcall' and e['callee'] == markObject.name) if any(
                ed is cn.succ[0] for _, _, ed in gg.guards(c))]
            okc = op == '>' and k == need and uses_map and same_obj and bool(mo) and bool(loopv) and _full_range(loopv) \
                and _origin(loopv['range'], src)[0] in cand_names
            detail = 'found `%s` (k=%s, need %s, marks=%d)' % (SX.show(cn.e)[:80], k, need, len(mo))
            if okc:
                # dominance over the sweep
                # the candidate loop precedes the sweep, and the comparison is the first thing every iteration does
                heads = [x for x in gg.nodes if x.kind == 'rangeinit' and x.e is loopv]
                body = loopv['body']
                first = body['body'][0] if body and body.get('k') == 'block' and body['body'] else body
                first_is_cmp = SX.is_node(first) and first['k'] == 'if' and first['c'] is cn.e
                dom = bool(heads) and first_is_cmp and all(gg.must_precede(heads, s) for s in (sweep + wipes))
                okc = okc and dom
                if not dom:
                    detail += '; does not precede the sweep on every path'
                # … and the marking pass is complete before anything is selected for the sweep: marking an object marks what it
                # reaches, possibly objects that come *earlier* in the candidate order — so no test of a mark bit and no selection
                # may sit inside the marking loop itself
                lh = [x for x in gg.nodes if x.kind == 'loophead' and x.e is loopv]
                if lh:
                    inloop = gg.reachable(lh) & gg.reachable(lh, forward=False)
                    early = [x for x in (sweep + wipes) if x.id in inloop]
                    early += [x for x in gg.nodes if x.kind == 'cond' and x.id in inloop and any(y['k'] == 'member' and y['name'] == 'marked' for y in SX.walk(x.e))]
                    if early:
                        okc = False
                        detail += '; objects are selected for the sweep (line %s) inside the marking loop: an object reachable only through a later candidate is swept before that candidate marks it' % early[0].ln
                break
        chk.ob('R11.2', gc, gc.ln, okc, 'candidate with more owners than traced references must be marked live before the sweep: ' + detail,
               key='conservative-compare')
        # candidates hold exactly one reference each: pushed once from the lock() temporary
        for c in cand:
            pushes = [n for n in SX.walk(gc.body, into_lambdas=False) if n['k'] == 'mcall' and SX.short(n['callee']) in ('push_back', 'emplace_back')
                      and SX.is_node(n['obj']) and n['obj'].get('id') == c['id']]
            if c['name'] in [x[6:] for x in cand_names] and ('local:' + c['name']) in [k[0] for k in ks]:
                chk.ob('R11.2', gc, gc.ln, len(pushes) == 1, 'candidate vector is filled by exactly one push per live object (found %d)' % len(pushes),
                       key='candidates-one-ref')

    # ---- R11.3 timer thread effects ---------------------------------------------------------
    entry = None
    for f in R.ev_methods():
        for lf in f.lambdas:
            pm = None
            for n in SX.walk(f.body, into_lambdas=False):
                if n['k'] == 'construct' and n['type'] == 'std::thread' and lf.node in n['args']:
                    entry = lf
    if entry is None:
        raise AnalysisBroken('timer thread entry lambda not found')
    _rule_sweep_closed(prog, chk, R, gc, markObject, objfields, entry)
    ftypes = {f['name']: f['type'] for f in R.ev['fields']}
    reach = prog.reach([entry])
    touched = {}
    for f in reach:
        if not f.body:
            continue
        for n in SX.walk(f.body):
            if n['k'] == 'member' and n.get('q', '').startswith(R.ev['name'] + '::') and n['name'] in ftypes:
                touched.setdefault(n['name'], f)
    chk.count('members touched by the timer thread', len(touched), 3)
    for m, f in sorted(touched.items()):
        ok = any(ftypes[m].startswith(s) for s in SYNC)
        chk.ob('R11.3', f, f.ln, ok, 'timer thread touches %s of type %s (must be atomic/mutex/condition_variable)' % (m, ftypes[m][:50]), key='thread-touches:' + m)
    bad = [f for f in reach if f.cls == R.ev['name'] and f.short in ('runCycleCollector', 'markValue', 'markObject', 'destroyObject', 'eval', 'exec')]
    chk.ob('R11.3', entry, entry.ln, not bad, 'timer thread must not reach %s' % [b.short for b in bad], key='thread-reach')

    # ---- R11.4 stop + join ------------------------------------------------------------------
    tfield = [f['name'] for f in R.ev['fields'] if f['type'] == 'std::thread']
    if len(tfield) != 1:
        raise AnalysisBroken('thread member not found')
    tfield = tfield[0]
    stopf = _stop_flag(entry)
    dtor = [f for f in R.ev_methods() if f.kind == 'dtor'][0]
    execute = R.ev_method('execute')
    for f, what in ((dtor, 'destructor'), (execute, 'execute')):
        g2 = prog.cfg(f)
        joins = [c for c in g2.calls(lambda e: e['k'] == 'mcall' and SX.short(e['callee']) == 'join' and SX.is_this_member(e.get('obj'), tfield))]
        stops = [n for n, l, r, op in g2.writes() if SX.is_this_member(SX.strip(l), stopf) and SX.is_node(r) and r['k'] == 'bool' and r['v']]
        notif = [c for c in g2.calls(lambda e: e['k'] == 'mcall' and SX.short(e['callee']) in ('notify_all', 'notify_one'))]
        ok = bool(joins) and bool(stops) and bool(notif) and all(g2.must_precede(stops, j) and g2.must_precede(notif, j) for j in joins)
        # join happens on every normal path unless not joinable / thread never started
        jconds = [cn for cn in g2.nodes if cn.kind == 'edge' and not cn.pol and any(
            x['k'] == 'mcall' and SX.short(x['callee']) == 'joinable' for x in SX.walk(cn.e))]
        started = [cn for cn in g2.nodes if cn.kind == 'edge' and not cn.pol and any(
            x['k'] == 'member' and 'Started' in x['name'] for x in SX.walk(cn.e))]
        on_all = bool(joins) and g2.must_follow(g2.entry, joins + jconds + started)
        chk.ob('R11.4', f, f.ln, ok and on_all, '%s: stop flag set and waiters notified before the join; join on every path where the thread is joinable' % what,
               key='join:' + what)
        if what == 'destructor' and joins:
            # nothing that can run interpreter code precedes the join
            before = [c for c in g2.calls() if c.e['k'] == 'mcall' and c.e['callee'].startswith(R.ev['name'] + '::') and any(
                c.id in g2.reachable([g2.entry], avoid=joins) for _ in [0])]
            before = [c for c in before if not g2.must_precede(joins + jconds, c)]
            chk.ob('R11.4', f, f.ln, not before, 'destructor must join the timer thread before calling %s' % [SX.short(c.e['callee']) for c in before],
                   key='join-first')
        if what == 'execute':
            finals = [c for c in g2.calls(lambda e: e['k'] == 'mcall' and e['callee'] == gc.name)]
            last = [c for c in finals if not any(o is not c and o.id in g2.reachable([c]) for o in finals)]
            ok2 = bool(last) and all(g2.must_precede(joins + jconds + started, c) for c in last)
            chk.ob('R11.4', f, f.ln, ok2, 'execute joins the timer thread before its final collection', key='join-before-final-gc')
    # thread assigned only under !joinable()
    for f in R.ev_methods():
        if not f.body:
            continue
        g3 = None
        for n in SX.walk(f.body, into_lambdas=False):
            w = SX.write_target(n)
            if w and SX.is_this_member(SX.strip(w[0]), tfield):
                g3 = g3 or prog.cfg(f)
                node = [cn for cn in g3.nodes if cn.e is n]
                ok = False
                if node:
                    for ce, pol, _ in g3.guards(node[0]):
                        if not pol and any(x['k'] == 'mcall' and SX.short(x['callee']) == 'joinable' for x in SX.walk(ce)):
                            ok = True
                chk.ob('R11.4', f, n.get('ln', f.ln), ok, 'timer thread may only be (re)started when the previous one is not joinable', key='start-guard:' + f.short)



def _conj(c):
    c = SX.strip(c)
    if SX.is_node(c) and c.get('k') == 'bin' and c['op'] == '&&':
        return _conj(c['l']) + _conj(c['r'])
    return [c]


def _rule_sweep_closed(prog, chk, R, gc, markObject, objfields, entry):
    """R11.5 — the sweep leaves alone unreachable objects whose class carries an exclusion flag (they own qubits / tracked state and
    are destroyed the ordinary, observable way when their last owner goes).  Clearing the fields of a swept object that refers to
    such an object would be that moment — decided by the collector's schedule — and whatever the excluded object still refers to
    must stay intact for its destructor.  So: (A) the excluded unreachable objects are collected in a set; (C) the set is closed
    under "refers to a member" by a fixpoint over the candidates, over every kind of object reference a Value can hold, skipped
    only by the collection at the end of the run; (B) every member is marked (and with it all it reaches) before anything is
    selected."""
    top = gc.body['body']
    src = _loop_sources(gc.body)

    def is_cand_loop(s):
        if not (SX.is_node(s) and s.get('k') == 'forrange' and _full_range(s)):
            return False
        r = SX.strip(s['range'])
        return SX.is_node(r) and r.get('k') == 'ref' and r.get('t', '').replace('const ', '') in ('std::vector<std::shared_ptr<bloch::runtime::Object>>',)

    def body_list(s):
        b = s.get('body') if s.get('k') != 'if' else s.get('t')
        if SX.is_node(b) and b.get('k') == 'block':
            return b['body']
        return [b] if b is not None else []

    def rooted_at(e, vid):
        root, _ = SX.member_chain(SX.strip(e))
        return SX.is_node(root) and root.get('k') == 'ref' and root.get('id') == vid

    def is_not_marked(c, vid):
        return SX.is_node(c) and c.get('k') == 'un' and c['op'] == '!' and SX.member_chain(SX.strip(c['e']))[1] == ['marked'] and rooted_at(c['e'], vid)

    def is_cls_nonnull(c, vid):
        return SX.is_node(c) and SX.member_chain(c)[1] == ['cls'] and rooted_at(c, vid)

    def cls_flag(c, vid):
        n_ = SX.member_chain(c)[1] if SX.is_node(c) else []
        return n_[1] if len(n_) == 2 and n_[0] == 'cls' and rooted_at(c, vid) else None

    # the selection
    sel = None
    for s in top:
        if not is_cand_loop(s):
            continue
        for i_ in SX.walk(s['body'], into_lambdas=False):
            if i_.get('k') == 'if' and any(w and SX.member_chain(SX.strip(w[0]))[1][-1:] == ['skipDestructor'] for x in SX.walk(i_['t'], into_lambdas=False)
                                           for w in [SX.write_target(x)]):
                sel = (s, i_)
    if sel is None:
        raise AnalysisBroken('the loop that selects objects for the sweep was not found')
    loop, iff = sel
    vid = loop['var']['id']
    excl = []
    for c in _conj(iff['c']):
        if is_not_marked(c, vid) or is_cls_nonnull(c, vid):
            continue
        if SX.is_node(c) and c.get('k') == 'un' and c['op'] == '!' and cls_flag(SX.strip(c['e']), vid):
            excl.append(cls_flag(SX.strip(c['e']), vid))
            continue
        raise AnalysisBroken('sweep selection: conjunct %s not understood' % SX.show(c)[:60])
    chk.extra['sweep_exclusions'] = excl
    if not excl:
        chk.ob('R11.5', gc, iff.get('ln', gc.ln), True, '', key='sweep-closed:no-exclusion', nontrivial=False)
        return
    if len(excl) != 1:
        raise AnalysisBroken('sweep selection excludes by several class flags: %s' % excl)
    F = excl[0]
    kept = [n for n in SX.walk(gc.body, into_lambdas=False) if n['k'] == 'var' and 'set<const bloch::runtime::Object *' in n['type']]
    elsewhere = [x for x in SX.walk(gc.body) if x.get('k') == 'member' and x.get('name') == F and not any(x is y for y in SX.walk(iff['c']))]
    why = ('unreachable objects whose class has %s are not reclaimed but destroyed the ordinary way (destructor, reset, tracked outcome) when their last '
           'owner goes; the sweep clears the fields of every other unreachable object, so one that refers to such an object destroys it at whatever '
           'statement the collector happens to run (and what the object itself refers to may have been cleared before its destructor looks at it)' % F)
    if not kept:
        if elsewhere:
            raise AnalysisBroken('the collector treats %s-objects specially in a form this rule does not model' % F)
        chk.ob('R11.5', gc, iff.get('ln', gc.ln), False, why + ': nothing keeps their referrers and referents', key='sweep-closed:design')
        return
    if len(kept) != 1:
        raise AnalysisBroken('several kept-sets in the collector')
    K = kept[0]

    def is_count(c, ovid, neg=False):
        c = SX.strip(c)
        if neg:
            cp0 = SX.cmp_parts(c) if SX.is_node(c) and c.get('k') == 'bin' else None
            if cp0 and cp0[0] == '==' and SX.is_node(SX.strip(cp0[2])) and SX.strip(cp0[2]).get('v') == 0:
                c = SX.strip(cp0[1])
                neg = False
            else:
                if not (SX.is_node(c) and c.get('k') == 'un' and c['op'] == '!'):
                    return False
                c = SX.strip(c['e'])
                neg = False
        cp_ = SX.cmp_parts(c) if SX.is_node(c) and c.get('k') == 'bin' else None
        if cp_ and SX.is_node(SX.strip(cp_[2])) and SX.strip(cp_[2]).get('k') == 'int' and SX.strip(cp_[2]).get('v') == 0:
            if (cp_[0] in ('!=', '>') and not neg) or (cp_[0] == '==' and neg):
                c = SX.strip(cp_[1])
                while SX.is_node(c) and c.get('k') == 'cast':
                    c = SX.strip(c['e'])
        if not (SX.is_node(c) and c.get('k') == 'mcall' and SX.short(c['callee']) in ('count', 'contains')):
            return False
        o = SX.strip(c['obj'])
        a = SX.real_args(c)
        return SX.is_node(o) and o.get('k') == 'ref' and o.get('id') == K['id'] and len(a) == 1 and (ovid is None or rooted_at(a[0], ovid))

    def inserts(stmts, ovid):
        for s in stmts:
            e = s.get('e') if SX.is_node(s) and s.get('k') == 'expr' else s
            e = SX.strip(e) if SX.is_node(e) else e
            if SX.is_node(e) and e.get('k') == 'mcall' and SX.short(e['callee']) in ('insert', 'emplace'):
                o = SX.strip(e['obj'])
                a = SX.real_args(e)
                if SX.is_node(o) and o.get('id') == K['id'] and len(a) == 1 and rooted_at(a[0], ovid):
                    return True
        return False

    idx = {id(s): i for i, s in enumerate(top)}
    pos_sel = idx[id(loop)]
    stop = _stop_flag(entry)

    def stop_polarity(c):
        """True: the condition holds exactly when the run is over (stop flag set); False: exactly while the program runs (a conjunct
        "there is something kept" aside); None: something else"""
        cj_ = [c_ for c_ in _conj(c) if not (SX.is_node(c_) and c_.get('k') == 'un' and c_['op'] == '!' and SX.is_node(SX.strip(c_['e'])) and SX.strip(c_['e']).get('k') == 'mcall'
                                              and SX.short(SX.strip(c_['e']).get('callee', '')) == 'empty' and SX.strip(SX.strip(c_['e']).get('obj')).get('id') == K['id'])]
        if len(cj_) != 1:
            return None
        c0, pol = SX.strip(cj_[0]), True
        while SX.is_node(c0) and c0.get('k') == 'un' and c0.get('op') == '!':
            c0, pol = SX.strip(c0['e']), not pol
        if SX.is_node(c0) and any(x.get('k') == 'member' and x.get('name') == stop for x in SX.walk(c0)) and not any(x.get('k') == 'ref' and not x.get('global') for x in SX.walk(c0)):
            return pol
        return None
    # the statements before the selection, by phase: 'both' (unconditional), 'mid' (only while the program runs), 'end' (only once the run is over)
    units = []
    for i, s in enumerate(top):
        if i >= pos_sel:
            break
        pol_ = stop_polarity(s['c']) if s.get('k') == 'if' else None
        if s.get('k') == 'block':
            units.append((list(s['body']), 'both', i))      # a bare block: its statements, unconditional
        elif pol_ is None:
            units.append(([s], 'both', i))
        else:
            units.append((body_list(s), 'end' if pol_ else 'mid', i))
            if s.get('e') is not None:
                eb = s['e']['body'] if SX.is_node(s['e']) and s['e'].get('k') == 'block' else [s['e']]
                units.append((eb, 'mid' if pol_ else 'end', i))
    # (A) seed: every candidate whose destruction is observable — reachable at the moment or not: a garbage cycle may share such an
    # object with a live variable, and breaking the cycle early or late then decides when (or whether) its destructor runs
    dest = R.ev_method('destroyObject')
    dmembers = set()
    for lp_ in SX.walk(dest.body, into_lambdas=False):
        if lp_.get('k') == 'for' and SX.is_node(lp_.get('inc')) and any(y.get('k') == 'member' and y.get('name') == 'base' for y in SX.walk(lp_['inc'])):
            for i_ in SX.walk(lp_['body'], into_lambdas=False):
                if i_.get('k') == 'if' and any(y.get('k') == 'continue' for y in SX.walk(i_['t'], into_lambdas=False)):
                    for y in SX.walk(i_['c']):
                        if y.get('k') == 'member' and 'RuntimeClass' in (y.get('q') or ''):
                            dmembers.add(y['name'])
    if len(dmembers) != 1:
        raise AnalysisBroken('the class member destroyObject consults for "has a destructor body" was not resolved: %s' % sorted(dmembers))
    D = next(iter(dmembers))
    seed = None             # (top index, position) of the seeding loop of the running phase
    seed_end = None         # … of the end-of-run phase
    seed_why = 'no seeding loop found'
    for stmts_, ph_, i in units:
      for j_, s in enumerate(stmts_):
        if is_cand_loop(s):
            b = body_list(s)
            v = s['var']['id']
            if len(b) == 1 and b[0].get('k') == 'if' and not b[0].get('e') and inserts(body_list(b[0]), v):
                cj = _conj(b[0]['c'])
                rest0 = [c for c in cj if not (is_not_marked(c, v) or is_cls_nonnull(c, v))]
                if ph_ in ('end', 'both') and len(rest0) == 1 and cls_flag(rest0[0], v) == F:
                    seed_end = (i, j_)       # exactly (or more than) what the sweep excludes: unreachable objects with the flag
                if ph_ == 'end':
                    continue
                if any(is_not_marked(c, v) for c in cj):
                    seed_why = 'only unreachable objects are seeded: a reachable object with observable destruction that a garbage cycle also refers to dies when the cycle is broken or when ' \
                               'its last variable goes, whichever the collector\'s timing makes later'
                    continue
                rest = [c for c in cj if not is_cls_nonnull(c, v)]
                if len(rest) != 1:
                    seed_why = 'seeding condition not understood'
                    continue
                pc = SX.strip(rest[0])
                lam = None
                if SX.is_node(pc) and pc.get('k') == 'opcall' and pc.get('op') == '()' and SX.is_node(pc['args'][0]) and pc['args'][0].get('k') == 'ref':
                    for lf in gc.lambdas:
                        for d in SX.walk(gc.body, into_lambdas=False):
                            if d['k'] == 'var' and d['id'] == pc['args'][0]['id'] and d.get('init') is lf.node:
                                lam = lf
                if lam is None or SX.member_chain(SX.strip(pc['args'][1]))[1] != ['cls'] or not rooted_at(pc['args'][1], v):
                    seed_why = 'the seeding condition is not a local closure applied to the candidate\'s class'
                    continue
                # the closure walks the base chain and answers true for the exclusion flag and for a destructor body
                walks = [l_ for l_ in SX.walk(lam.body, into_lambdas=False) if l_.get('k') == 'for' and SX.is_node(l_.get('inc')) and
                         any(y.get('k') == 'member' and y.get('name') == 'base' for y in SX.walk(l_['inc']))]
                lb = lam.body['body'] if lam.body.get('k') == 'block' else [lam.body]
                last_false = bool(lb) and lb[-1].get('k') == 'return' and SX.strip(lb[-1].get('e')).get('v') is False
                atoms = set()
                for l_ in walks:
                    for i_ in SX.walk(l_['body'], into_lambdas=False):
                        if i_.get('k') == 'if' and any(y.get('k') == 'return' and SX.strip(y.get('e')).get('v') is True for y in SX.walk(i_['t'], into_lambdas=False)):
                            def disj(c):
                                c = SX.strip(c)
                                if SX.is_node(c) and c.get('k') == 'bin' and c['op'] == '||':
                                    return disj(c['l']) + disj(c['r'])
                                return [c]
                            for dj in disj(i_['c']):
                                ms = [y['name'] for y in SX.walk(dj) if y.get('k') == 'member' and 'RuntimeClass' in (y.get('q') or '')]
                                if ms and not any(y.get('k') == 'un' and y.get('op') == '!' for y in SX.walk(dj)):
                                    atoms.add(ms[0])
                if walks and last_false and {F, D} <= atoms:
                    seed = (i, j_)
                    if ph_ == 'both':
                        seed_end = (i, j_)      # the chain closure covers what the sweep excludes
                else:
                    seed_why = 'the closure must walk the base chain and answer true for %s and for %s (found: chain walk %s, atoms %s)' % (F, D, bool(walks), sorted(atoms))
    chk.ob('R11.5', gc, K.get('ln', gc.ln), seed is not None,
           why + ': every candidate whose class chain has %s or a destructor body (%s) is put into %s by a full loop over the candidates before the selection (%s)' % (
               F, D, K['name'], 'ok' if seed is not None else seed_why), key='sweep-closed:seed')
    chk.ob('R11.5', gc, K.get('ln', gc.ln), seed_end is not None,
           why + ': in the end-of-run collection every unreachable object with %s — what the sweep leaves alone — is put into %s, so that what it refers to stays intact' % (F, K['name']),
           key='sweep-closed:seed-end')
    # (B) marking of the kept objects
    mark = None
    for stmts_, ph_, i in units:
      for j_, s in enumerate(stmts_):
        if ph_ == 'both' and is_cand_loop(s):
            b = body_list(s)
            v = s['var']['id']
            if len(b) == 1 and b[0].get('k') == 'if' and not b[0].get('e') and is_count(b[0]['c'], v):
                t = body_list(b[0])
                e = SX.strip(t[0].get('e')) if len(t) == 1 and t[0].get('k') == 'expr' else None
                if SX.is_node(e) and e.get('k') == 'mcall' and e.get('callee') == markObject.name and rooted_at(SX.real_args(e)[0], v):
                    mark = (i, j_)
    chk.ob('R11.5', gc, K.get('ln', gc.ln), mark is not None and (seed is None or mark > seed) and (seed_end is None or mark > seed_end),
           why + ': every member of %s is marked — and with it everything it reaches — by an unconditional full loop before the selection' % K['name'],
           key='sweep-closed:mark')
    # (C) the fixpoint
    fix = None
    detail = 'no fixpoint loop found'
    for inner, ph_, i in units:
        if ph_ == 'end':
            continue
        guarded = ph_ == 'mid'
        if ph_ == 'both' and len(inner) == 1 and inner[0].get('k') == 'if' and any(x.get('k') in ('while', 'do') for x in SX.walk(inner[0], into_lambdas=False)) and \
                any(x.get('k') == 'ref' and x.get('id') == K['id'] for x in SX.walk(inner[0])):
            detail = 'the closure is skipped under `%s`, which is not "the run is over"' % SX.show(inner[0]['c'])[:50]
            continue
        for j, w in enumerate(inner):
            if w.get('k') not in ('while', 'do'):
                continue
            g = SX.strip(w['c'])
            if not (SX.is_node(g) and g.get('k') == 'ref'):
                continue
            gid = g['id']
            gdecl = [d for x in inner[:j] if x.get('k') == 'decls' for d in x['d'] if d['id'] == gid]
            wb = body_list(w)
            if not gdecl or len(wb) != 2:
                detail = 'fixpoint loop not of the form `while (g) { g = false; for (…) … }`'
                continue
            init = SX.strip(gdecl[0].get('init')) if gdecl[0].get('init') is not None else None
            init_ok = SX.is_node(init) and ((init.get('k') == 'bool' and init.get('v') is True) or
                                            (init.get('k') == 'un' and init['op'] == '!' and SX.is_node(SX.strip(init['e'])) and SX.strip(init['e']).get('k') == 'mcall'
                                             and SX.short(SX.strip(init['e'])['callee']) == 'empty' and SX.strip(SX.strip(init['e'])['obj']).get('id') == K['id']))
            w0 = SX.write_target(wb[0].get('e')) if wb[0].get('k') == 'expr' else None
            clr = bool(w0) and SX.strip(w0[0]).get('id') == gid and w0[2] == '=' and SX.strip(w0[1]).get('v') is False
            lp = wb[1]
            if w.get('k') == 'do':
                init_ok = True      # the body runs before the flag is first tested
            if not (init_ok and clr and is_cand_loop(lp)):
                detail = 'fixpoint loop: flag initialised to %s, cleared first: %s, inner loop over all candidates: %s' % (SX.show(init)[:30], clr, is_cand_loop(lp))
                continue
            v = lp['var']['id']
            b = body_list(lp)
            if not (len(b) == 1 and b[0].get('k') == 'if' and not b[0].get('e')):
                detail = 'fixpoint loop body is not a single test'
                continue
            cj = _conj(b[0]['c'])
            if any(is_not_marked(c, v) for c in cj):
                detail = 'only unreachable referrers are added: a reachable object that owns one with observable destruction may itself be shared with a garbage cycle, whose early or late ' \
                         'collection then decides when that object dies'
                continue
            P = [c for c in cj if not is_count(c, v, neg=True)]
            has_notin = any(is_count(c, v, neg=True) for c in cj)
            t = body_list(b[0])
            sets = any(x.get('k') == 'expr' and (SX.write_target(x['e']) or [None])[0] is not None and SX.strip(SX.write_target(x['e'])[0]).get('id') == gid and
                       SX.strip(SX.write_target(x['e'])[1]).get('v') is True for x in t)
            if not (len(P) == 1 and has_notin and inserts(t, v) and sets):
                detail = 'fixpoint step must be `if (!marked && !%s.count(o) && refers(o)) { %s.insert(o); g = true; }`' % (K['name'], K['name'])
                continue
            pc = SX.strip(P[0])
            lam = None
            if SX.is_node(pc) and pc.get('k') == 'opcall' and pc.get('op') == '()' and SX.is_node(pc['args'][0]) and pc['args'][0].get('k') == 'ref':
                for lf in gc.lambdas:
                    for d in SX.walk(gc.body, into_lambdas=False):
                        if d['k'] == 'var' and d['id'] == pc['args'][0]['id'] and d.get('init') is lf.node:
                            lam = lf
            if lam is None or not rooted_at(pc['args'][1], v):
                detail = 'the "refers to a kept object" test is not a local closure applied to the candidate'
                continue
            fix = ((i, j), guarded, lam)
    ok_fix = fix is not None and (seed is None or fix[0] > seed) and (mark is None or fix[0] < mark)
    chk.extra['sweep_closure'] = {'found': fix is not None, 'skipped_when_run_is_over': bool(fix and fix[1]), 'kept_set': K['name'], 'line': K.get('ln')}
    chk.ob('R11.5', gc, K.get('ln', gc.ln), ok_fix,
           why + ': %s is closed under "refers to a member" by a fixpoint over all candidates between seeding and marking, skipped only when the run is over (%s)' % (
               K['name'], detail if fix is None else 'order'), key='sweep-closed:fixpoint')
    if fix is None:
        return
    lam = fix[2]
    # the closure: every kind of object reference of a Value is looked at; it answers true only through a membership test, false only at the end
    lsrc = _loop_sources(lam.body)
    pid = lam.params[0]['id'] if lam.params else None
    lb = lam.body['body'] if lam.body.get('k') == 'block' else [lam.body]
    rets = [x for x in SX.walk(lam.body, into_lambdas=False) if x['k'] == 'return']
    last_false = bool(lb) and lb[-1].get('k') == 'return' and SX.strip(lb[-1].get('e')).get('v') is False
    others_true = all(SX.strip(x.get('e')).get('v') is True for x in rets if x is not lb[-1])
    loops_full = all(not any(y['k'] in ('break', 'continue') for y in SX.walk(l['body'], into_lambdas=False)) for l in SX.walk(lam.body, into_lambdas=False) if l['k'] == 'forrange')
    for fld in objfields:
        hit = False
        for c in SX.walk(lam.body, into_lambdas=False):
            if is_count(c, None):
                a = SX.real_args(c)[0]
                root, names = SX.member_chain(SX.strip(a))
                chain = list(names)
                hops = 0
                while SX.is_node(root) and root.get('k') == 'ref' and root.get('id') in lsrc and hops < 4:
                    r2, n2 = SX.member_chain(SX.strip(lsrc[root['id']]['range']))
                    chain = n2 + chain
                    root = r2
                    hops += 1
                if SX.is_node(root) and root.get('k') == 'ref' and root.get('id') == pid and chain[:1] == ['fields'] and fld in chain:
                    # the test decides a `return true`
                    hit = True
        chk.ob('R11.5', lam, lam.ln, hit and last_false and others_true and loops_full,
               why + ': the closure test follows Value::%s of every field of the candidate (answers true on a member, false only after all fields)' % fld,
               key='sweep-closed:follows:' + fld)


def _inc_over_loop(lf, inc, fld):
    """`for (o : v.<fld>) ++traced[o.get()]` — the increment's operand is a loop variable ranging over the field."""
    src = _loop_sources(lf.body)
    for x in SX.walk(inc['e']):
        if x['k'] == 'ref' and x.get('id') in src:
            rng = src[x['id']]['range']
            if any(y['k'] == 'member' and y['name'] == fld for y in SX.walk(rng)) and _full_range(src[x['id']]):
                return True
    return False


def _null_or_marked(ce):
    """condition mentions only the object parameter (null test) and/or its mark bit"""
    for x in SX.walk(ce):
        if x['k'] == 'member' and x['name'] != 'marked':
            return False
        if x['k'] == 'ref' and x.get('kind') not in ('param',):
            return False
        if x['k'] in ('call',):
            return False
    return True


def _peel(e):
    while SX.is_node(e) and e['k'] in ('cast',):
        e = e['e']
    return e


def _stop_flag(entry):
    """The atomic<bool> member whose load() controls the thread loop."""
    for n in SX.walk(entry.body):
        if n['k'] in ('while', 'for') and SX.is_node(n.get('c')):
            for x in SX.walk(n['c']):
                if x['k'] == 'member' and 'atomic<bool>' in x.get('t', ''):
                    return x['name']
    raise AnalysisBroken('timer loop stop flag not found')
