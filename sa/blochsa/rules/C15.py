"""C15 — the lexer is lossless and token positions are exact."""
from .. import sx as SX
from ..facts import AnalysisBroken
from ..kprogress import Progress
from .. import kterm as KT
import re

EXPLANATION = (
    "Cursor accounting of the scanner decided on all paths: (R15.1) every token's text equals the characters consumed for it — a literal "
    "spelling whose characters are exactly the dispatch character plus the matched follow-up character, or the source span from the "
    "token's first character to the cursor; (R15.2) every consumption site is classified by the dominating tests on the character "
    "about to be consumed (lattice non-newline / newline / unknown): a site that may consume a newline is followed, before the next "
    "consumption, by line+1 and column:=1, and every line increment carries that column reset; the first character of a token is never "
    "a newline by the checked premise that tokenize() skips whitespace immediately before scanning; (R15.3) a scanner that can consume a "
    "newline inside a token builds the token from the line/column captured before its first consumption; (R15.4) the end-minus-length "
    "column formula is used only in scanners that consume no newline, with a text whose length equals the consumed count; (R15.5) the "
    "primitive steps move position and column together by one. Together these give 'reported position = position of the first "
    "character' and 'texts reproduce the source' for every input the lexer accepts.")

NL = 10


def run(prog, chk):
    LEX = 'bloch::compiler::Lexer'
    L = Progress(prog, LEX, 'm_position', False, None, ('m_source.size()',))
    fns = {f.short: f for f in L.fns if f.kind == 'method'}
    for need in ('advance', 'match', 'peek', 'makeToken', 'scanToken', 'tokenize', 'skipWhitespace'):
        if need not in fns:
            raise AnalysisBroken('lexer function %s not found' % need)
    chk.rule('R15.1', 'token text = consumed characters (literal spelling or source span from the token start)')
    chk.rule('R15.2', 'a consumed newline is followed by line+1 and column:=1 before the next consumption; line increments carry the column reset')
    chk.rule('R15.3', 'scanners that can consume a newline report the line/column captured before their first consumption')
    chk.rule('R15.4', 'the end-minus-length column formula is only used where no newline was consumed')
    chk.rule('R15.5', 'advance/match move position and column together by one')

    # ---- R15.5 primitives ------------------------------------------------------------------------
    for nm in ('advance', 'match'):
        f = fns[nm]
        g = prog.cfg(f)
        pos = [n for n, l, r, op in g.writes() if SX.is_this_member(SX.strip(l), 'm_position')]
        col = [n for n, l, r, op in g.writes() if SX.is_this_member(SX.strip(l), 'm_column')]
        okp = len(pos) == 1 and SX.write_target(pos[0].e)[2] == '++'
        okc = len(col) == 1 and SX.write_target(col[0].e)[2] == '++'
        # both on the same paths
        same = okp and okc and g.must_follow(pos[0], col) or (okp and okc and g.must_precede(col, pos[0]))
        chk.ob('R15.5', f, f.ln, okp and okc and same, '%s moves m_position and m_column by exactly one, together' % nm, key='step:' + nm)
    # … and nothing else moves the cursor on its own: any other write of m_position in the lexer (a scanner that skips a character with
    # `m_position++` instead of advance()) must carry the column with it — same step, on the same paths — or be the reset to the
    # start of the input
    nother = 0
    for f in L.fns:
        if f.short in ('advance', 'match') or not f.body:
            continue
        g = prog.cfg(f)
        for n, l, r, op in g.writes():
            if not SX.is_this_member(SX.strip(l), 'm_position'):
                continue
            nother += 1
            r0 = SX.strip(r) if r is not None else None
            if op == '=' and SX.is_node(r0) and r0.get('k') == 'int' and r0.get('v') == 0:
                ok = True           # rewinding to the start (tokenize / reset)
            else:
                cols = [c for c, l2, r2, op2 in g.writes() if SX.is_this_member(SX.strip(l2), 'm_column') and op2 == op and SX.show(SX.strip(r2) if r2 is not None else None) == SX.show(r0)]
                ok = bool(cols) and (g.must_follow(n, cols) or g.must_precede(cols, n))
            chk.ob('R15.5', f, n.ln or f.ln, ok, '%s moves m_position (%s) outside advance()/match(): the column must move with it by the same step' % (f.short, op),
                   key='raw-cursor-move:%s' % f.short)
    chk.extra['cursor_writes_outside_advance'] = nother
    mk = fns['makeToken']
    rets = [n for n in SX.walk(mk.body) if n['k'] == 'return']
    okmk = False
    if len(rets) == 1:
        e = SX.strip(rets[0]['e'])
        items = e.get('items') or SX.real_args(e)
        if len(items) == 4:
            t_ok = SX.strip(items[0]).get('id') == mk.params[0]['id'] and SX.strip(items[1]).get('id') == mk.params[1]['id']
            l_ok = SX.is_this_member(SX.strip(items[2]), 'm_line')
            c = SX.strip(items[3])
            c_ok = SX.is_node(c) and c.get('k') == 'bin' and c['op'] == '-' and SX.is_this_member(SX.strip(c['l']), 'm_column') and \
                any(x['k'] == 'mcall' and SX.short(x['callee']) in ('length', 'size') and SX.strip(x['obj']).get('id') == mk.params[1]['id'] for x in SX.walk(c['r']))
            okmk = t_ok and l_ok and c_ok
    chk.ob('R15.4', mk, mk.ln, okmk, 'makeToken reports (current line, current column − text length)', key='makeToken-formula')

    # ---- consumption sites and their character class ------------------------------------------------
    scanners = [f for f in L.fns if f.kind == 'method' and f.short not in ('advance', 'match', 'peek', 'peekNext', 'makeToken', 'reportError')]
    cls_by_fn = {}
    nsites = 0
    # single-step helpers that do the line/column bookkeeping themselves (`char c = advance(); if (c == '\n') { line++; column = 1; }`):
    # a call of one is a consumption site whose newline case is handled inside the helper — provided the helper's own
    # obligations below hold, which are checked like any other scanner's
    tracked = {}
    for f in scanners:
        if f.short in ('scanToken', 'tokenize', 'skipWhitespace'):
            continue
        g = prog.cfg(f)
        own = [c for c in g.calls(lambda e: e['k'] == 'mcall' and e['callee'] in (fns['advance'].name, fns['match'].name))]
        movers = [c for c in g.calls(lambda e: e['k'] == 'mcall' and L.callee_of(e) is not None and L.callee_of(e).key in L.moves)]
        toks = [c for c in g.calls(lambda e: e['k'] == 'mcall' and e['callee'] == mk.name)]
        if len(own) == 1 and len(movers) == 1 and own[0].e['callee'] == fns['advance'].name and not g.loops() and not toks \
                and not any('Token' in (n.e.get('e') or {}).get('type', '') for n in g.nodes if n.kind == 'return' and SX.is_node(n.e.get('e'))) \
                and g.must_precede(own, g.exit) and _helper_tracks(g, own[0]):
            tracked[f.name] = f
            L.ONE.add(f.key)
    for f in scanners:
        g = prog.cfg(f)
        L._g = g
        sites = [c for c in g.calls(lambda e: e['k'] == 'mcall' and e['callee'] in (fns['advance'].name, fns['match'].name) or (e['k'] == 'mcall' and e['callee'] in tracked))]
        classes = []
        for s in sites:
            nsites += 1
            k = _classify(prog, L, g, f, s, fns, sites)
            if s.e['callee'] in tracked and k != 'non-newline':
                k = 'tracked'
            if s.e['callee'] == fns['match'].name and SX.real_args(s.e):
                # a site fed from a table column stands for one site per row
                nsites += max(0, len(_table_rows(prog, f, SX.real_args(s.e)[0]) or []) - 1)
            classes.append((s, k))
        cls_by_fn[f.key] = classes
        for s, k in classes:
            if k == 'tracked':
                chk.ob('R15.2', f, s.ln, True, 'consumes one character through %s, which adjusts line/column itself when it is a newline' % SX.short(s.e['callee']),
                       key='site:%s:%s' % (f.short, _site_key(s)), nontrivial=False)
                continue
            if k == 'non-newline':
                chk.ob('R15.2', f, s.ln, True, 'consumes a character known not to be a newline', key='site:%s:%s' % (f.short, _site_key(s)), nontrivial=False)
                continue
            others = [x for x in sites if x is not s]
            incs = [n for n, l, r, op in g.writes() if SX.is_this_member(SX.strip(l), 'm_line') and op in ('++', '+=')]
            resets = [n for n, l, r, op in g.writes() if SX.is_this_member(SX.strip(l), 'm_column') and op == '=' and SX.is_node(SX.strip(r)) and SX.strip(r).get('v') == 1]
            if k == 'newline':
                start = s
            else:
                # unknown: the consumed character must be tested against '\n' right away
                start = None
                for e in g.nodes:
                    if e.kind == 'edge' and e.pol and _tests_newline_of(e.e, s, g):
                        start = e
                if start is None:
                    chk.ob('R15.2', f, s.ln, False, 'consumes an arbitrary character (possibly a newline) without testing it for \'\\n\' and adjusting line/column',
                           key='site:%s:%s' % (f.short, _site_key(s)))
                    continue
            # before the next consumption or exit: both the line increment and the column reset
            r_noinc = g.reachable([start], avoid=incs)
            r_nores = g.reachable([start], avoid=resets)
            bad = [x for x in others + [g.exit] if x.id in r_noinc or x.id in r_nores]
            if s.id in r_noinc or s.id in r_nores:
                bad.append(s)
            chk.ob('R15.2', f, s.ln, not bad and bool(incs) and bool(resets),
                   'a consumed newline must be followed by m_line+1 and m_column=1 before the next consumption or return (class: %s)' % k, key='site:%s:%s' % (f.short, _site_key(s)))
        # every line increment is paired with a column reset
        incs = [n for n, l, r, op in g.writes() if SX.is_this_member(SX.strip(l), 'm_line')]
        resets = [n for n, l, r, op in g.writes() if SX.is_this_member(SX.strip(l), 'm_column') and op == '=' and SX.is_node(SX.strip(r)) and SX.strip(r).get('v') == 1]
        for i, n in enumerate(incs):
            r = g.reachable([n], avoid=resets)
            bad = [x for x in sites + [g.exit] if x.id in r]
            if bad:
                # the reset may come first, in the same consumption-free segment
                for rs in resets:
                    if g.dominates(rs, n):
                        mid = g.reachable([rs], avoid=[n]) & g.reachable([n], forward=False, avoid=[rs])
                        if not any(x.id in mid for x in sites):
                            bad = []
            chk.ob('R15.2', f, n.ln, not bad, 'line increment and column reset to 1 happen together, before anything else is consumed', key='line-inc:%s#%d' % (f.short, i))
    chk.count('lexer consumption sites', nsites, 20)

    # ---- token constructions ---------------------------------------------------------------------
    ntok = 0
    st = fns['scanToken']
    for f in scanners:
        g = prog.cfg(f)
        may_nl = any(k != 'non-newline' for s, k in cls_by_fn[f.key])
        toks = [c for c in g.calls(lambda e: (e['k'] == 'mcall' and e['callee'] == mk.name))]
        aggs = [n for n in g.nodes if n.kind == 'return' and SX.is_node(SX.strip(n.e.get('e'))) and SX.strip(n.e['e']).get('k') in ('initlist', 'construct')
                and 'Token' in SX.strip(n.e['e']).get('type', '') and len(SX.strip(n.e['e']).get('items') or SX.real_args(SX.strip(n.e['e']))) == 4]
        for t in toks:
            ntok += 1
            chk.ob('R15.4', f, t.ln, not may_nl, 'makeToken (end-minus-length column) is used in %s, which %s' % (f.short, 'can consume a newline' if may_nl else 'consumes no newline'),
                   key='formula-use:%s' % f.short, nontrivial=may_nl)
            extra = _text_rule(prog, chk, L, g, f, t, SX.real_args(t.e)[1], fns, st)
            if extra is None:
                # one site standing for every row of a constant table through its token kind (`makeToken(op.type, <text>)`)
                extra = max(0, len(_table_rows(prog, f, SX.real_args(t.e)[0]) or []) - 1)
            ntok += extra
        for a in aggs:
            ntok += 1
            items = SX.strip(a.e['e']).get('items') or SX.real_args(SX.strip(a.e['e']))
            _text_rule(prog, chk, L, g, f, a, items[1], fns, st)
            ok, why = _captured_start(prog, g, f, items[2], items[3], fns, cls_by_fn[f.key])
            chk.ob('R15.3', f, a.ln, ok, 'token position: %s' % why, key='start-capture:%s' % f.short)
        if may_nl and not aggs and toks:
            chk.ob('R15.3', f, f.ln, False, '%s can consume a newline inside a token but never reports a captured start position' % f.short, key='start-capture:%s' % f.short)
    chk.count('token construction sites', ntok, 40)

    # ---- premise: the first character of a token is not whitespace --------------------------------
    tk = fns['tokenize']
    g = prog.cfg(tk)
    scan = [c for c in g.calls(lambda e: e['k'] == 'mcall' and e['callee'] == st.name)]
    skip = [c for c in g.calls(lambda e: e['k'] == 'mcall' and e['callee'] == fns['skipWhitespace'].name)]
    ok = bool(scan) and bool(skip) and all(g.must_precede(skip, s) and not any(x.kind == 'call' and L.callee_of(x.e) is not None and L.callee_of(x.e).key in L.moves and x not in skip
                                                                            for i in (g.reachable(skip, avoid=[s]) & g.reachable([s], forward=False)) for x in [g.nodes[i]]) for s in scan)
    chk.ob('R15.2', tk, tk.ln, ok, 'tokenize() runs skipWhitespace immediately before every scanToken (nothing consumed in between)', key='premise:skip-before-scan')
    sw = fns['skipWhitespace']
    gs = prog.cfg(sw)
    L._g = gs
    # skipWhitespace's normal exits: end of input, or a non-space character with nothing consumed afterwards
    brk = [n for n in gs.nodes if n.kind == 'break']
    okb = bool(brk)
    for b in brk:
        gd = gs.guards(b)
        nonspace = any((not pol) and SX.is_node(ce) and ce.get('k') == 'call' and SX.short(ce.get('callee', '')) == 'isspace' for ce, pol, _ in gd)
        okb = okb and nonspace
    chk.ob('R15.2', sw, sw.ln, okb, 'skipWhitespace stops only at end of input or at a character that is not whitespace (hence not a newline)', key='premise:skip-exit')


def _site_key(s):
    return SX.short(s.e['callee']) + (':' + SX.show(SX.real_args(s.e)[0]) if SX.real_args(s.e) else '') + '@' + str(s.ln and 0 or 0) + _ctx(s)


def _ctx(s):
    return ''


def _peek_like(L, e, g, node):
    e = SX.strip(e)
    while SX.is_node(e) and e['k'] == 'cast':
        e = e['e']
    L._node = node
    return L._is_peek_or_alias(e)


def _edge_fact(L, g, edge):
    """what a branch edge tells about the character at the cursor: 'NN' (not a newline), 'NL' (newline) or None"""
    c, pol = edge.e, edge.pol
    if SX.is_node(c) and c.get('k') == 'call' and SX.short(c.get('callee', '')) in ('isdigit', 'isalpha', 'isalnum', 'isxdigit', 'ispunct', 'isupper', 'islower') and pol:
        if any(_cur_char(L, x, g, edge) for a in c['args'] for x in SX.walk(a)):
            return 'NN'
    cp = SX.cmp_parts(c)
    if cp:
        op = cp[0] if pol else {'==': '!=', '!=': '=='}.get(cp[0], cp[0])
        for a, b in ((cp[1], cp[2]), (cp[2], cp[1])):
            b = SX.strip(b)
            if SX.is_node(b) and b.get('k') == 'char' and _cur_char(L, a, g, edge):
                if op == '==':
                    return 'NL' if b['v'] == NL else 'NN'
                if op == '!=' and b['v'] == NL:
                    return 'NN'
    return None


def _case_fact(L, g, n):
    """`switch (peek()) { case 'c': …` — the label, when entered from the switch itself (not by falling through from statements
    of an earlier case), is the same evidence as the comparison `peek() == 'c'`; stacked labels must all agree"""
    if n.label in (None, 'default') or not n.pred or not all(p.kind in ('switch', 'case') for p in n.pred):
        return None
    labels, cur, sw, hops = [n], n, [p for p in n.pred if p.kind == 'switch'], 0
    while hops < 40:
        nxt = [p for p in cur.pred if p.kind == 'case']
        if not nxt:
            break
        cur = nxt[0]
        if not all(p.kind in ('switch', 'case') for p in cur.pred):
            return None
        labels.append(cur)
        sw = sw or [p for p in cur.pred if p.kind == 'switch']
        hops += 1
    if not sw or not (SX.is_node(sw[0].e) and SX.is_node(sw[0].e.get('c'))) or not _cur_char(L, sw[0].e['c'], g, sw[0]):
        return None
    out = set()
    for c in labels:
        v = SX.strip(c.e.get('v')) if SX.is_node(c.e) else None
        if not (SX.is_node(v) and v.get('k') == 'char'):
            return None
        out.add('NL' if v['v'] == NL else 'NN')
    return out.pop() if len(out) == 1 else None


def _next_fact(L, edge):
    """peekNext() ==/!= 'c' on a branch edge → class of the character after the cursor"""
    cp = SX.cmp_parts(edge.e)
    if not cp:
        return None
    op = cp[0] if edge.pol else {'==': '!=', '!=': '=='}.get(cp[0], cp[0])
    for a, b in ((cp[1], cp[2]), (cp[2], cp[1])):
        a, b = SX.strip(a), SX.strip(b)
        while SX.is_node(a) and a['k'] == 'cast':
            a = a['e']
        t = L.callee_of(a) if SX.is_node(a) else None
        if t is not None and t.short == 'peekNext' and SX.is_node(b) and b.get('k') == 'char':
            if op == '==':
                return 'NL' if b['v'] == NL else 'NN'
            if op == '!=' and b['v'] == NL:
                return 'NN'
    return None


def _cur_char(L, e, g, node):
    """e denotes the character at the cursor: peek(), a local copied from it with no movement since, or m_source[m_position]"""
    e = SX.strip(e)
    while SX.is_node(e) and e['k'] == 'cast':
        e = e['e']
    if SX.is_node(e) and e.get('k') == 'index' and SX.is_this_member(SX.strip(e['base']), 'm_source') and SX.is_this_member(SX.strip(e['i']), 'm_position'):
        return True
    return _peek_like(L, e, g, node)


def _char_facts(L, g, sites):
    """forward dataflow: fact about the character at the cursor before each node ('NN' | 'NL' | 'U')"""
    fact = {g.entry.id: 'U'}
    nxt_in = {}
    nxt_out = {}
    order = list(g.nodes)
    siteids = {s.id for s in sites}
    changed = True
    it = 0
    outf = {}
    while changed and it < 50:
        changed = False
        it += 1
        for n in order:
            if n is g.entry:
                inn = 'U'
                nin = 'U'
            else:
                ins = [outf[p.id] for p in n.pred if p.id in outf]
                if not ins:
                    continue
                inn = ins[0] if all(x == ins[0] for x in ins) else 'U'
                nins = [nxt_out.get(p.id, 'U') for p in n.pred if p.id in outf]
                nin = nins[0] if all(x == nins[0] for x in nins) else 'U'
            if fact.get(n.id) != inn:
                fact[n.id] = inn
                changed = True
            out = inn
            nout = nin
            if n.kind == 'edge':
                f = _edge_fact(L, g, n)
                if f:
                    out = f
                f2 = _next_fact(L, n)
                if f2:
                    nout = f2
            if n.kind == 'case':
                f = _case_fact(L, g, n)
                if f:
                    out = f
            if n.id in siteids or (n.kind == 'call' and L.callee_of(n.e) is not None and L.callee_of(n.e).key in L.moves):
                t = L.callee_of(n.e)
                # a single-step consumption makes the (known) next character the current one
                out = nin if (t is not None and t.key in L.ONE) else 'U'
                nout = 'U'
            if nxt_out.get(n.id) != nout:
                nxt_out[n.id] = nout
                changed = True
            if outf.get(n.id) != out:
                outf[n.id] = out
                changed = True
    return fact


def _classify(prog, L, g, f, s, fns, sites):
    """character class of what site s consumes: 'non-newline' | 'newline' | 'unknown'"""
    if s.e['callee'] == fns['match'].name:
        a = SX.strip(SX.real_args(s.e)[0])
        if a.get('k') == 'char':
            return 'newline' if a['v'] == NL else 'non-newline'
        # match(rule.follow) for a row of a constant table: the class of every value the table holds in that column
        tb = _table_rows(prog, f, a)
        if tb is not None:
            vals = [SX.strip(r.get(a['name'])) for r in tb]
            if vals and all(SX.is_node(v) and v.get('k') == 'char' for v in vals):
                if all(v['v'] != NL for v in vals):
                    return 'non-newline'
        return 'unknown'
    # the first consumption of scanToken: premise checked separately (tokenize/skipWhitespace)
    if f.short == 'scanToken':
        before = g.reachable([s], forward=False)
        if not any(x.id in before for x in sites if x is not s):
            return 'non-newline'
    facts = getattr(g, '_charfacts', None)
    if facts is None:
        facts = g._charfacts = _char_facts(L, g, sites)
    return {'NN': 'non-newline', 'NL': 'newline'}.get(facts.get(s.id, 'U'), 'unknown')


def _tests_newline_of(ce, s, g=None):
    """condition `advance() == '\\n'` on the very call s, or `c == '\\n'` for a local `char c = advance()` (that call) never reassigned"""
    cp = SX.cmp_parts(ce)
    if not cp or cp[0] != '==':
        return False
    for a, b in ((cp[1], cp[2]), (cp[2], cp[1])):
        a, b = SX.strip(a), SX.strip(b)
        while SX.is_node(a) and a['k'] == 'cast':
            a = SX.strip(a['e'])
        if not (SX.is_node(b) and b.get('k') == 'char' and b['v'] == NL):
            continue
        if a is s.e:
            return True
        if g is not None and SX.is_node(a) and a.get('k') == 'ref' and a.get('kind') == 'var':
            for d in g.nodes:
                if d.kind == 'decl' and d.e.get('id') == a.get('id'):
                    i = SX.strip(d.e.get('init'))
                    while SX.is_node(i) and i['k'] == 'cast':
                        i = SX.strip(i['e'])
                    rew = [n for n, l, r, op in g.writes() if SX.is_node(SX.strip(l)) and SX.strip(l).get('id') == a.get('id')]
                    if i is s.e and not rew:
                        return True
    return False


def _helper_tracks(g, site):
    """the helper tests the character it consumed for a newline (its obligations are then checked like any scanner's)"""
    return any(e.kind == 'edge' and e.pol and _tests_newline_of(e.e, site, g) for e in g.nodes)


def _text_rule(prog, chk, L, g, f, node, text, fns, st):
    from ..kcanon import Canon
    raw = SX.strip(text)
    text = SX.strip(Canon(prog, f).expand(SX.strip(text)))
    # (a) literal spelling in scanToken
    lit = None
    if text.get('k') == 'str':
        lit = text['v']
    elif text.get('k') == 'construct' and len(SX.real_args(text)) == 1 and SX.strip(SX.real_args(text)[0]).get('k') == 'str':
        lit = SX.strip(SX.real_args(text)[0])['v']
    if lit is not None:
        if f.short == 'tokenize' and lit == '':
            chk.ob('R15.1', f, node.ln, True, 'Eof token has empty text', key='text:eof', nontrivial=False)
            return
        consumed = ''
        # dispatch character: the case label guarding this node; follow-ups: match('x') true edges
        chars = []
        for d in g.dominators(node):
            if d.kind == 'case' and d.label not in (None, 'default'):
                chars.append(('case', d.label))
            if d.kind == 'edge' and d.pol and SX.is_node(d.e) and d.e.get('k') == 'mcall' and d.e['callee'] == fns['match'].name:
                a = SX.strip(SX.real_args(d.e)[0])
                if a.get('k') == 'char':
                    chars.append(('match', chr(a['v'])))
        first = [c for k, c in chars if k == 'case']
        follow = [c for k, c in reversed(chars) if k == 'match']
        exp = None
        if len(first) == 1:
            c0 = first[0].strip("'")
            c0 = {'\\\'': "'", '\\x27': "'"}.get(c0, c0)
            exp = c0 + ''.join(follow)
        chk.ob('R15.1', f, node.ln, exp is not None and lit == exp, 'token text "%s" must be the consumed characters "%s"' % (lit, exp), key='text:literal:%s' % lit)
        return
    # (a') table-driven spelling: makeToken(rule.type, rule.text) for a row of a constant table
    tx = raw
    while SX.is_node(tx) and tx.get('k') in ('construct', 'cast') and (tx['k'] == 'cast' or len(SX.real_args(tx)) == 1):
        tx = SX.strip(tx['e'] if tx['k'] == 'cast' else SX.real_args(tx)[0])
    rows = _table_rows(prog, f, tx) if tx.get('k') == 'member' else None
    if rows is not None:
        ok, why = _table_text(prog, L, g, f, node, tx, rows, fns)
        chk.ob('R15.1', f, node.ln, ok, 'table-driven token text: %s' % why, key='text:table:%s' % tx['name'])
        return len(rows) - 1
    # (b) std::string(1, c) with c the consumed character
    if text.get('k') == 'construct' and len(SX.real_args(text)) == 2 and SX.strip(SX.real_args(text)[0]).get('v') == 1:
        c = SX.strip(SX.real_args(text)[1])
        d = [n for n in g.nodes if n.kind == 'decl' and n.e.get('id') == c.get('id')]
        ok = bool(d) and SX.is_node(SX.strip(d[0].e.get('init'))) and SX.strip(d[0].e['init']).get('k') == 'mcall' and SX.strip(d[0].e['init'])['callee'] == fns['advance'].name
        chk.ob('R15.1', f, node.ln, ok, 'single-character token text is the consumed character', key='text:char')
        return
    # (c) source span
    sub = None
    for x in SX.walk(text):
        if x['k'] == 'mcall' and SX.short(x['callee']) == 'substr' and SX.is_this_member(SX.strip(x.get('obj')), 'm_source'):
            sub = x
    if sub is None and text.get('k') in ('construct', 'ref', 'call'):
        # a local string_view holding the span
        for x in SX.walk(text):
            if x['k'] == 'ref' and x.get('kind') == 'var':
                d = [n for n in g.nodes if n.kind == 'decl' and n.e.get('id') == x.get('id')]
                if d:
                    for y in SX.walk(d[0].e.get('init')):
                        if y['k'] == 'mcall' and SX.short(y['callee']) == 'substr' and SX.is_this_member(SX.strip(y.get('obj')), 'm_source'):
                            sub = y
    if sub is None:
        raise AnalysisBroken('%s:%s token text is neither a literal nor a source span: %s' % (f.short, node.ln, SX.show(text)[:60]))
    # symbolic positions: P0 = m_position at function entry; token start = P0 - pre, pre = characters of the token consumed before entry
    pre = 1 if f.short != 'scanToken' else 0
    env = {}
    for d in g.nodes:
        if d.kind == 'decl' and (d.e.get('type') or '').replace('const ', '') in ('unsigned long', 'size_t', 'std::size_t') and SX.is_node(d.e.get('init')):
            # declared before any consumption of this function?
            before = g.reachable([d], forward=False)
            consumed_before = any(g.nodes[i].kind == 'call' and L.callee_of(g.nodes[i].e) is not None and L.callee_of(g.nodes[i].e).key in L.moves for i in before)
            F = KT.Folder(env)
            try:
                t = F.fold(d.e['init'])
            except KT.Unfoldable:
                continue
            if not consumed_before:
                t = _subst(t, KT.S('m_position'), KT.S('P0'))
            env[d.e['id']] = t
    F = KT.Folder(env)
    a = SX.real_args(sub)
    try:
        S_ = F.fold(a[0])
        Ln = F.fold(a[1]) if len(a) > 1 else None
    except KT.Unfoldable as e:
        raise AnalysisBroken('%s: span arguments not foldable: %s' % (f.short, e))
    tok_start = KT.op('+', KT.S('P0'), KT.I(-pre))
    ok_s = S_ == tok_start
    ok_l = Ln is not None and (Ln == KT.op('-', KT.S('m_position'), tok_start) or (Ln[0] == 'int' and f.short == 'scanChar' and Ln[1] == 3))
    chk.ob('R15.1', f, node.ln, ok_s and ok_l, 'token text is the source span [token start, cursor): start %s (expected %s), length %s' % (KT.show(S_), KT.show(tok_start), KT.show(Ln) if Ln else '?'),
           key='text:span:%s' % f.short)


def _subst(t, a, b):
    if t == a:
        return b
    if t[0] == 'op':
        return KT.op(t[1], *[_subst(x, a, b) for x in t[2]]) if t[1] in ('+', '|', '*', '-', '<<') else ('op', t[1], tuple(_subst(x, a, b) for x in t[2]))
    return t


def _captured_start(prog, g, f, line_e, col_e, fns, classes):
    """line/column arguments are const locals initialised, before any consumption in this function, from m_line and m_column − 1"""
    le, ce = SX.strip(line_e), SX.strip(col_e)
    if not (le.get('k') == 'ref' and ce.get('k') == 'ref'):
        return False, 'line/column are not captured locals (%s, %s)' % (SX.show(le)[:20], SX.show(ce)[:20])
    dl = [n for n in g.nodes if n.kind == 'decl' and n.e.get('id') == le.get('id')]
    dc = [n for n in g.nodes if n.kind == 'decl' and n.e.get('id') == ce.get('id')]
    if not dl or not dc:
        return False, 'captured locals not found'
    sites = [s for s, k in classes]
    for d in (dl[0], dc[0]):
        before = g.reachable([d], forward=False)
        if any(s.id in before for s in sites):
            return False, 'position captured after something was already consumed in %s' % f.short
    li = SX.strip(dl[0].e.get('init'))
    ci = SX.strip(dc[0].e.get('init'))
    okl = SX.is_this_member(li, 'm_line')
    okc = SX.is_node(ci) and ci.get('k') == 'bin' and ci['op'] == '-' and SX.is_this_member(SX.strip(ci['l']), 'm_column') and SX.strip(ci['r']).get('v') == 1
    # not reassigned
    rew = [n for n, l, r, op in g.writes() if SX.is_node(SX.strip(l)) and SX.strip(l).get('id') in (le.get('id'), ce.get('id'))]
    if okl and okc and not rew:
        return True, 'captured at entry: line = m_line, column = m_column − 1 (the opening character was consumed by the dispatcher)'
    return False, 'captured values are line=%s, column=%s (expected m_line, m_column − 1)' % (SX.show(li)[:20], SX.show(ci)[:24])


def _table_rows(prog, f, m):
    """m = <v>.<field> with v the variable of a range-for over a constant global array of records → the rows as {field: sx}"""
    m = SX.strip(m)
    if not (SX.is_node(m) and m.get('k') == 'member'):
        return None
    b = SX.strip(m.get('base'))
    if not (SX.is_node(b) and b.get('k') == 'ref' and b.get('kind') == 'var'):
        return None
    for lp in SX.walk(f.body, into_lambdas=False):
        if lp['k'] != 'forrange' or lp['var'].get('id') != b.get('id'):
            continue
        rng = SX.strip(lp['range'])
        if not (SX.is_node(rng) and rng.get('k') == 'ref' and rng.get('global')):
            return None
        # the loop variable must not be written (a const reference or a copy never assigned)
        if any((SX.write_target(n) or [None])[0] is not None and SX.member_chain(SX.strip(SX.write_target(n)[0]))[1] is not None
               and SX.strip(SX.member_chain(SX.strip(SX.write_target(n)[0]))[1] or {}).get('id') == b.get('id') for n in SX.walk(lp['body'])):
            return None
        gls = [gl for gl in prog.facts.globals.values() if gl['name'] == rng['name'] or gl['name'].split('::')[-1] == rng['name'].split('::')[-1]]
        gls = [gl for gl in gls if gl['file'] == f.file or gl['file'].endswith(f.file.split('/')[-1])] or gls
        if len(gls) != 1 or not SX.is_node(gls[0].get('init')) or 'const' not in gls[0].get('type', ''):
            return None
        ty = re.sub(r'\b(const|constexpr)\b|&|\[\d*\]', '', gls[0].get('type', '')).strip()
        rec = None
        for name, r in prog.facts.records.items():
            if name == ty or name.split('::')[-1] == ty.split('::')[-1]:
                rec = r
        if rec is None:
            return None
        fields = [x['name'] for x in rec.get('fields', [])]
        init = SX.strip(gls[0]['init'])
        rows = []
        for row in init.get('items') or init.get('args') or []:
            row = SX.strip(row)
            items = row.get('items') or row.get('args') or []
            if not SX.is_node(row) or row.get('k') not in ('initlist', 'construct') or len(items) != len(fields):
                return None
            rows.append(dict(zip(fields, items)))
        return rows or None
    return None


def _table_text(prog, L, g, f, node, tx, rows, fns):
    """every path from the loop head to the token construction fixes which columns were consumed: the dispatch character
    (edge `rule.<lead> == c`), plus the column matched by a true match(rule.<follow>) edge; boolean columns tested on the path
    select the rows the path applies to.  On each path every selected row's text must be those characters."""
    bid = SX.strip(tx['base']).get('id')
    head = [d for d in g.dominators(node) if d.kind == 'decl' and d.e.get('id') == bid]
    if not head:
        return False, 'row variable not bound on the way to the token'
    head = head[0]
    # the dispatch character: a local bound to the first advance() of the function
    def is_dispatch(e):
        e = SX.strip(e)
        while SX.is_node(e) and e['k'] == 'cast':
            e = SX.strip(e['e'])
        if SX.is_node(e) and e.get('k') == 'ref' and e.get('kind') == 'var':
            d = [n for n in g.nodes if n.kind == 'decl' and n.e.get('id') == e.get('id')]
            i = SX.strip(d[0].e.get('init')) if d else None
            return SX.is_node(i) and i.get('k') == 'mcall' and i['callee'] == fns['advance'].name and g.dominates(d[0], head)
        return False

    def col(e):
        e = SX.strip(e)
        while SX.is_node(e) and e['k'] == 'cast':
            e = SX.strip(e['e'])
        if SX.is_node(e) and e.get('k') == 'member' and SX.strip(e['base']).get('id') == bid:
            return e['name']
        return None
    paths = []

    def back(n, acc):
        if len(paths) > 400:
            return
        if n is head:
            paths.append(list(reversed(acc)))
            return
        for p in n.pred:
            if p in acc or p.kind == 'loophead':
                continue
            back(p, acc + [p])
    back(node, [node])
    if not paths or len(paths) > 400:
        return False, 'paths from the loop head to the token not enumerable'
    npaths = 0
    for path in paths:
        lead = None
        follow = []
        sel = {}
        consumed_other = False
        for n in path:
            if n.kind == 'edge':
                cp = SX.cmp_parts(n.e)
                if cp:
                    op = cp[0] if n.pol else {'==': '!=', '!=': '=='}.get(cp[0], cp[0])
                    for a, b in ((cp[1], cp[2]), (cp[2], cp[1])):
                        if col(a) and is_dispatch(b) and op == '==':
                            lead = col(a)
                elif col(n.e):
                    sel[col(n.e)] = n.pol
                elif SX.is_node(n.e) and n.e.get('k') == 'mcall' and n.e['callee'] == fns['match'].name:
                    a = SX.real_args(n.e)[0]
                    if n.pol:
                        if col(a):
                            follow.append(col(a))
                        else:
                            consumed_other = True
            elif n.kind == 'call' and L.callee_of(n.e) is not None and L.callee_of(n.e).key in L.moves and n.e['callee'] != fns['match'].name:
                consumed_other = True
        if lead is None or consumed_other:
            return False, 'a path reaches the token without fixing the dispatch character by a table column (or consumes outside the table)'
        npaths += 1
        for r in rows:
            if any(not (SX.is_node(SX.strip(r.get(c_))) and SX.strip(r[c_]).get('k') == 'bool' and bool(SX.strip(r[c_])['v']) == pol) for c_, pol in sel.items()):
                continue
            try:
                exp = ''.join(chr(SX.strip(r[c_])['v']) for c_ in [lead] + follow)
            except Exception:
                return False, 'table columns %s are not characters' % ([lead] + follow)
            t = SX.strip(r.get(tx['name']))
            if not (SX.is_node(t) and t.get('k') == 'str' and t['v'] == exp):
                return False, 'row text %s is not the consumed characters "%s" (columns %s)' % (SX.show(t), exp, '+'.join([lead] + follow))
    return True, '%d rows × %d paths: text = %s column (+ matched follow column)' % (len(rows), npaths, 'lead')
