"""C06 — a measured qubit cannot be operated on until reset, through any access path.

All access paths (variable, array element, parameter, object field) evaluate to a Value whose qubit
index reaches the simulator only through the evaluator→simulator call sites; the property reduces to
pairing/ordering obligations at those sites plus the two flag state machines."""
from .. import sx as SX
from ..facts import AnalysisBroken
from ..roles import Roles
from ..kcanon import Canon
from ..kernels import ArgSummary, arg, arg_text, full_range_for, size_of, enclosing_stmts, must_follow_modulo_bounds

EXPLANATION = (
    "Static decision of C06 over the resolved program: (R06.1) every evaluator call of a simulator gate is dominated, for each "
    "qubit operand, by a call that establishes 'ensure-active' for the same operand expression (wrapper summaries by least "
    "fixpoint) with the AST node's own line/column; (R06.2) every simulator measure call is dominated by ensure and followed "
    "on all normal paths by 'mark measured' of the same operand; (R06.3) every simulator reset call is followed by "
    "'unmark'/release of the same operand; (R06.4) loops around measure/reset sites visit the full index range with no early "
    "exit; (R06.5) simulator typestate: each gate/measure reaches the simulator guard on its own qubit parameter(s) before "
    "touching the amplitude vector, measure sets and reset/allocate clear the simulator flag, both guards throw a Runtime "
    "BlochError exactly under the measured test; (R06.6) no other function writes either flag. CFG paths, not executions, are "
    "enumerated; nothing is run.")


def _guard_param_index(f, cond_exprs, flag):
    """Index of the parameter used to subscript the bookkeeping vector in a `.measured` test."""
    for ce in cond_exprs:
        for x in SX.walk(ce):
            if x['k'] == 'member' and x['name'] == flag:
                b = x['base']
                if SX.is_node(b) and b['k'] == 'index':
                    i = b['i']
                    while SX.is_node(i) and i['k'] == 'cast':
                        i = i['e']
                    if SX.is_node(i) and i['k'] == 'ref' and i.get('kind') == 'param':
                        for k, p in enumerate(f.params):
                            if p['id'] == i['id']:
                                return k
    return None


def _is_runtime_bloch_throw(n):
    e = n.get('e')
    if not (SX.is_node(e) and e['k'] == 'construct' and e['type'].endswith('BlochError')):
        return False
    a = e['args']
    return bool(a) and SX.is_node(a[0]) and a[0]['k'] == 'ref' and a[0]['name'].endswith('ErrorCategory::Runtime')


def run(prog, chk):
    R = Roles(prog)
    sim = R.sim_classify()
    gates = {g.short: g for g in sim['gates']}
    rec, flag, vec = R.qinfo
    evfns = [f for f in R.ev_methods() if f.body]

    chk.rule('R06.1', 'gate call dominated by ensure-active(same operand, node line/column) for every qubit operand')
    chk.rule('R06.2', 'simulator measure dominated by ensure-active and followed by mark-measured of the same operand')
    chk.rule('R06.3', 'simulator reset followed by unmark/release of the same operand')
    chk.rule('R06.4', 'loops around measure/reset sites cover the whole container with no early exit')
    chk.rule('R06.5', 'simulator typestate: guard before amplitude access; measure sets, reset/allocate clear the flag; guards throw Runtime')
    chk.rule('R06.6', 'only mark/unmark/allocate roles write the measured flags')
    chk.rule('R06.7', 'a recycled qubit index is reset in the simulator before it is handed out (both measured flags clear)')

    # ---- roles: ensure / mark / unmark ----------------------------------------------------
    ens_base = []
    for f in R.ev_ensure_active():
        g = prog.cfg(f)
        conds = [n for n in g.nodes if n.kind == 'cond' and any(x['k'] == 'member' and x['name'] == flag for x in SX.walk(n.e))]
        # (the element may be reached through a reference local: `const QubitInfo& info = m_qubits[index]; if (!info.measured) …`)
        from ..kcanon import Canon
        _cn = Canon(prog, f)
        idx = _guard_param_index(f, [_cn.expand(SX.strip(c.e)) for c in conds], flag)
        if idx is None:
            raise AnalysisBroken('ensure-active %s: measured test does not subscript by a parameter' % f.name)
        # the test is on every normal path, and its true edge only leads to a Runtime throw
        test_on_all = g.must_follow(g.entry, conds)
        chk.ob('R06.5', f, f.ln, test_on_all, 'measured test of %s must be on every normal path' % f.short, key='ev-ensure-test-on-all-paths')
        for c in conds:
            tedge = c.succ[0]
            r = g.reachable([tedge])
            only_throw = g.exit.id not in r
            throws = [g.nodes[i] for i in r if g.nodes[i].kind == 'throw']
            ok = only_throw and throws and all(_is_runtime_bloch_throw(t.e) for t in throws)
            chk.ob('R06.5', f, c.ln, ok, 'measured==true must lead only to throw BlochError(Runtime,…)', key='ev-ensure-throws')
            for t in throws:
                a = t.e['e']['args']
                locok = len(a) >= 3 and all(SX.is_node(x) and x['k'] == 'ref' and x.get('kind') == 'param' for x in a[1:3]) \
                    and a[1]['id'] != a[2]['id']
                chk.ob('R06.5', f, t.ln, locok, 'diagnostic must carry the caller-supplied line and column parameters', key='ev-ensure-located')
        ens_base.append((f, [idx]))
    ENS = ArgSummary(prog, ens_base, evfns)

    writers = R.flag_writers()
    mark_base, unmark_base, alloc_fns = [], [], []
    inline_marks = {}
    allocname = sim['allocate'].name
    for key, (f, ws) in writers.items():
        vals = {v for v, _ in ws}
        calls_alloc = any(n['k'] == 'mcall' and n['callee'] == allocname for n in SX.walk(f.body))
        if calls_alloc:
            ok = vals == {'false'}
            chk.ob('R06.6', f, f.ln, ok, 'allocation role may only clear the flag (writes %s)' % sorted(vals), key='alloc-clears')
            alloc_fns.append(f)
            continue
        l_ = ws[0][1]['l'].get('base') if SX.is_node(ws[0][1].get('l')) else None
        sub_is_param = SX.is_node(l_) and l_.get('k') == 'index' and SX.is_node(l_.get('i')) and l_['i'].get('kind') == 'param'
        if len(f.params) == 1 and vals in ({'true'}, {'false'}) and (sub_is_param or vals == {'false'} or f.params[0]['type'] == 'int'):
            g = prog.cfg(f)
            n = [x for x in g.nodes if x.kind == 'assign' and x.e is ws[0][1]]
            # subscript is the parameter
            l = ws[0][1]['l']['base']
            isparam = SX.is_node(l) and l['k'] == 'index' and SX.is_node(l['i']) and l['i'].get('kind') == 'param'
            # only bounds guards
            gs = g.guards(n[0]) if n else []
            only_bounds = all(_only_bounds(ce, f.params[0]['id'], vec) for ce, pol, _ in gs)
            chk.ob('R06.6', f, f.ln, isparam and only_bounds,
                   '%s must set flag[param] under bounds guards only' % f.short, key='role-' + ('mark' if vals == {'true'} else 'unmark'))
            (mark_base if vals == {'true'} else unmark_base).append((f, [0]))
            continue
        # a measurement whose marking is written in place (the measure sequence extracted into one helper, or expanded where it is
        # used): `flags[x].measured = true` right after `sim.measure(x)`, skipped only by bounds tests on x — a marking site, not a role
        if vals == {'true'}:
            g = prog.cfg(f)
            cn_ = Canon(prog, f)
            sites_ok = True
            found = []
            for _v, wn in ws:
                l = SX.strip(wn['l'].get('base'))
                node_ = [x for x in g.nodes if x.kind == 'assign' and x.e is wn]
                if not (SX.is_node(l) and l.get('k') == 'index' and node_):
                    sites_ok = False
                    break
                t_ = cn_.text(l['i'])
                meas = [x for x in g.calls(lambda e: R.is_sim_call(e, (sim['measure'].short,))) if cn_.text(arg(x.e, 0)) == t_ and g.dominates(x, node_[0])]
                outer_ = {id(ed2) for m_ in meas for _c2, _p2, ed2 in g.guards(m_)}
                bounds_only = all(_only_bounds_text(ce, l['i'], vec) for ce, pol, ed in g.guards(node_[0]) if id(ed) not in outer_)
                if not (meas and bounds_only):
                    sites_ok = False
                    break
                found.append((node_[0], t_))
            if sites_ok and found:
                inline_marks[f.key] = found
                continue
        chk.ob('R06.6', f, f.ln, False, 'unexpected writer of %s::%s (values %s)' % (rec['name'].split('::')[-1], flag, sorted(vals)),
               key='writer:' + f.short)
    # role first, today's name second: a role that no function fulfils any more is a violation when the function
    # that used to fulfil it is still there (its effect changed), analysis-broken only when it vanished as well
    for base, nm, what in ((mark_base, 'markMeasured', 'set'), (unmark_base, 'unmarkMeasured', 'clear')):
        if not base and nm == 'markMeasured' and inline_marks:
            continue      # every measurement marks in place
        if not base:
            c = [f for f in evfns if f.short == nm and len(f.params) == 1]
            if not c:
                raise AnalysisBroken('mark/unmark roles not resolved by effect nor by name')
            chk.ob('R06.6', c[0], c[0].ln, False, '%s no longer %ss the measured flag of its argument' % (nm, what), key='role-effect:' + nm)
            base.append((c[0], [0]))
    # the allocation role is whoever calls the simulator's allocator, whether or not it also writes the flag itself
    for f in evfns:
        if f not in alloc_fns and any(n['k'] == 'mcall' and n['callee'] == allocname for n in SX.walk(f.body, into_lambdas=False)):
            alloc_fns.append(f)
    if not alloc_fns:
        raise AnalysisBroken('allocation role not resolved')
    for f in alloc_fns:
        res = _ev_alloc_table(prog, R, f, rec, flag, vec, sim)
        if res[0] is None:
            chk.note('evaluator allocation table not evaluated: %s' % res[1])
            # the obligation cannot vanish silently: without other violations this run is analysis-broken
            chk.vacuous.append('evaluator allocation table of %s could not be evaluated (%s)' % (f.short, res[1]))
        else:
            chk.ob('R06.6', f, f.ln, not res[0],
                   'a handed-out qubit index is unmeasured in the evaluator\'s bookkeeping, for a recycled and for a fresh index (%d abstract states); counterexamples: %s' % (res[1], res[0][:3]),
                   key='alloc-table:' + f.short)
    MARK = ArgSummary(prog, mark_base, evfns, modulo_bounds=True)
    UNMARK = ArgSummary(prog, unmark_base, evfns, modulo_bounds=True)
    chk.count('flag writer functions', len(writers), 2)

    # ---- evaluator call sites -------------------------------------------------------------
    n_gate = n_meas = n_reset = n_alloc = 0
    from ..kcanon import inline_closures
    for f in evfns:
        # local closures that are called as plain statements (`auto resetAndRelease = [&](int q) {…}; … resetAndRelease(q);`) are
        # read where they are called
        f = inline_closures(prog, f)
        if not any(R.is_sim_call(n) for n in SX.walk(f.body, into_lambdas=False)):
            continue
        g = prog.cfg(f)
        canon = Canon(prog, f)
        for node in g.calls(lambda e: R.is_sim_call(e)):
            c = node.e
            nm = SX.short(c['callee'])
            if nm in gates:
                n_gate += 1
                gd = gates[nm]
                for j, prm in enumerate(gd.params):
                    if prm['type'] != 'int':
                        continue
                    t = canon.text(arg(c, j))
                    ens = [x for x in g.calls() if ENS.establishes_canon(x.e, t, canon)]
                    ok = bool(ens) and g.must_precede(ens, node)
                    path = None
                    if not ok:
                        p = g.witness_path(g.entry, node, avoid=ens)
                        path = [repr(x) for x in (p or [])][-12:]
                    chk.ob('R06.1', f, node.ln, ok, 'sim.%s(%s): operand %d needs a dominating ensure-active(%s)' % (nm, SX.show(c)[-60:], j, t),
                           key='%s#%d' % (nm, j), path=path)
                    if ok:
                        near = [x for x in ens if g.dominates(x, node)]
                        for x in near[:1] or ens[:1]:
                            chk.ob('R06.1', f, x.ln, _located(g, x, ENS.inner_establishing(x.e, t, canon), canon), 'ensure-active must report the call node\'s own line/column', key='%s#%d-loc' % (nm, j))
            elif nm == sim['measure'].short:
                n_meas += 1
                t = canon.text(arg(c, 0))
                ens = [x for x in g.calls() if ENS.establishes_canon(x.e, t, canon)]
                ok = bool(ens) and g.must_precede(ens, node)
                chk.ob('R06.2', f, node.ln, ok, 'sim.measure(%s) needs a dominating ensure-active(%s)' % (t, t), key='measure-ensure:' + _sitekey(g, node))
                if ok:
                    for x in [x for x in ens if g.dominates(x, node)][:1]:
                        chk.ob('R06.2', f, x.ln, _located(g, x, ENS.inner_establishing(x.e, t, canon), canon), 'ensure-active must report the measure node\'s own line/column',
                               key='measure-loc:' + _sitekey(g, node))
                mk = [x for x in g.calls() if MARK.establishes_canon(x.e, t, canon)]
                inl_ = [x for x in g.nodes if x.kind == 'assign' and any(x.e is n_.e and t_ == t for n_, t_ in inline_marks.get(f.key, []))]
                mk += inl_
                avoid_ = list(mk)
                if inl_:
                    # a marking written in place sits under the bounds test the role function would hold: leaving through the false
                    # edge of a pure bounds test on the same operand is the one way past it
                    for e_ in g.nodes:
                        if e_.kind == 'edge' and SX.is_node(e_.e) and SX.cmp_parts(e_.e) and _only_bounds_text(e_.e, arg(c, 0), vec) and any(y.get('k') == 'ref' for y in SX.walk(e_.e)):
                            rr_ = g.reachable([e_], avoid=[node])
                            if not any(a_.id in rr_ for a_ in inl_):
                                avoid_.append(e_)
                ok2 = bool(mk) and g.must_follow(node, avoid_)
                path = None
                if not ok2:
                    p = g.witness_path(node, g.exit, avoid=mk)
                    path = [repr(x) for x in (p or [])][:12]
                chk.ob('R06.2', f, node.ln, ok2, 'sim.measure(%s) must be followed on all normal paths by mark-measured(%s)' % (t, t),
                       key='measure-mark:' + _sitekey(g, node), path=path)
                _loop_rule(chk, f, g, node, c)
            elif nm == sim['reset'].short:
                n_reset += 1
                t = canon.text(arg(c, 0))
                um = [x for x in g.calls() if UNMARK.establishes_canon(x.e, t, canon)]
                ok = bool(um) and g.must_follow(node, um)
                chk.ob('R06.3', f, node.ln, ok, 'sim.reset(%s) must be followed on all normal paths by unmark/release(%s)' % (t, t),
                       key='reset-unmark:' + _sitekey(g, node))
            elif nm == sim['allocate'].short:
                n_alloc += 1
                chk.ob('R06.6', f, node.ln, f in alloc_fns, 'simulator allocate only from the allocation role', key='alloc-site')
    # ---- R06.7: an index handed out by the allocation role is usable in BOTH copies of the state machine ----------------------
    # (the evaluator's flag and the simulator's flag are separate; a recycled index whose simulator flag is still set is refused
    # by the simulator although the evaluator considers it fresh).  In every function that calls the simulator's allocate, each
    # other value given to the returned index variable (the free-list path) is followed on all normal paths by sim.reset(index).
    n_hand = 0
    for f in alloc_fns:
        g = prog.cfg(f)
        acalls = [c for c in g.calls(lambda e: R.is_sim_call(e, (sim['allocate'].short,)))]
        rets = [n for n in g.nodes if n.kind == 'return' and SX.is_node(SX.strip(n.e.get('e'))) and SX.strip(n.e['e']).get('k') == 'ref']
        ids = {SX.strip(n.e['e']).get('id') for n in rets}
        if len(ids) != 1:
            continue
        rid = ids.pop()
        for n, l, r, op in g.writes():
            l0 = SX.strip(l)
            if not (op == '=' and SX.is_node(l0) and l0.get('k') == 'ref' and l0.get('id') == rid):
                continue
            if any(x is c.e for c in acalls for x in SX.walk(r)):
                continue            # a fresh index: the simulator's allocate starts it unmeasured (R06.5)
            n_hand += 1
            rs = [c for c in g.calls(lambda e: R.is_sim_call(e, (sim['reset'].short,)) and SX.is_node(SX.strip(SX.real_args(e)[0])) and SX.strip(SX.real_args(e)[0]).get('id') == rid)]
            ok = bool(rs) and g.must_follow(n, rs)
            chk.ob('R06.7', f, n.ln, ok, 'a recycled index (%s = %s) is handed out only after sim.%s(%s): otherwise the simulator still holds it measured while the '
                   'evaluator marks it fresh' % (l0.get('name'), SX.show(r)[:40], sim['reset'].short, l0.get('name')), key='handout-reset:%s' % f.short)
    chk.count('recycled-index handouts', n_hand, 1)
    chk.count('gate call sites', n_gate, 8)
    chk.count('measure call sites', n_meas, 3)
    chk.count('reset call sites', n_reset, 3)
    chk.count('allocate call sites', n_alloc, 1)

    # ---- simulator typestate --------------------------------------------------------------
    se = R.sim_ensure()
    mf = R.sim_measured_field
    amp = R.amp_field
    simfns = [f for f in R.sim_methods() if f.body]
    SENS = ArgSummary(prog, [(se, [0])], simfns)
    g = prog.cfg(se)
    conds = [n for n in g.nodes if n.kind == 'cond' and any(x['k'] == 'index' and SX.is_node(x['base']) and x['base'].get('name') == mf
                                                           for x in SX.walk(n.e))]
    chk.ob('R06.5', se, se.ln, bool(conds) and must_follow_modulo_bounds(g, g.entry, conds, se.params[0]['id']),
           'simulator measured test on every normal path (modulo range tests)', key='sim-ensure-test')
    for c in conds:
        r = g.reachable([c.succ[0]])
        throws = [g.nodes[i] for i in r if g.nodes[i].kind == 'throw']
        ok = g.exit.id not in r and throws and all(_is_runtime_bloch_throw(t.e) for t in throws)
        # subscript must be the parameter
        sub = [x for x in SX.walk(c.e) if x['k'] == 'index' and SX.is_node(x['base']) and x['base'].get('name') == mf]
        okp = bool(sub) and all(SX.is_node(x['i']) and x['i'].get('kind') == 'param' for x in sub)
        chk.ob('R06.5', se, c.ln, ok and okp, 'simulator guard: m_measured[param] true ⇒ throw BlochError(Runtime)', key='sim-ensure-throws')
        # … and only then: every path to that throw takes the true edge of the flag test (an unmeasured qubit is never refused)
        tedges = [x for x in c.succ if x.kind == 'edge' and x.pol]
        only = bool(throws) and bool(tedges) and all(g.must_precede(set(tedges), t) for t in throws)
        chk.ob('R06.5', se, c.ln, only, 'simulator guard refuses a qubit only when its measured flag is set (the refusal is reachable only through the flag test\'s true edge)',
               key='sim-ensure-only-measured')
    for f in list(sim['gates']) + [sim['measure']]:
        g = prog.cfg(f)
        touch = [n for n in g.nodes if n.kind in ('call', 'assign', 'cond', 'decl', 'incdec') and _mentions_member(n, amp)]
        for j, prm in enumerate(f.params):
            if prm['type'] != 'int':
                continue
            ens = [x for x in g.calls() if SENS.establishes(x.e, lambda a, pid=prm['id']: SX.is_node(a) and a['k'] == 'ref' and a.get('id') == pid)]
            if touch:
                ok = bool(ens) and all(g.must_precede(ens, t) for t in touch)
            else:
                ok = bool(ens) and g.must_follow(g.entry, ens)
            chk.ob('R06.5', f, f.ln, ok, 'simulator %s: guard on parameter %s before any amplitude access' % (f.short, prm['name']),
                   key='sim-guard:%s#%d' % (f.short, j))
    # flag setters: private helpers `set(int q, bool v) { if (in range) flag[q] = v; }` — a call with a literal is that write
    setters = {}
    for f in simfns:
        if len(f.params) == 2 and f.params[0]['type'] == 'int' and f.params[1]['type'] == 'bool' and f not in (sim['measure'], sim['reset'], sim['allocate']):
            gs_ = prog.cfg(f)
            ws_ = [(n, l, r) for n, l, r, op in gs_.writes() if SX.member_chain(l)[1][:1] == [mf] and op == '=']
            if len(ws_) == 1:
                n_, l_, r_ = ws_[0]
                l0 = SX.strip(l_)
                i0 = SX.strip(l0.get('i')) if SX.is_node(l0) and l0.get('k') == 'index' else None
                while SX.is_node(i0) and i0.get('k') == 'cast':
                    i0 = SX.strip(i0['e'])
                if SX.is_node(i0) and i0.get('id') == f.params[0]['id'] and SX.is_node(SX.strip(r_)) and SX.strip(r_).get('id') == f.params[1]['id'] and \
                        all(_only_bounds(ce, f.params[0]['id'], mf) for ce, pol, _ in gs_.guards(n_)):
                    setters[f.key] = f

    def setter_call(e, want=None):
        if not (SX.is_node(e) and e.get('k') == 'mcall'):
            return False
        if (e.get('callee', '') + e.get('sig', '')) not in setters:
            return False
        a = SX.real_args(e)
        v_ = SX.strip(a[1]) if len(a) == 2 else None
        return SX.is_node(v_) and v_.get('k') == 'bool' and (want is None or v_['v'] == want)
    # flag writes in the simulator
    for f in simfns:
        if f.key in setters:
            continue
        for n in SX.walk(f.body):
            if n['k'] == 'mcall' and (n.get('callee', '') + n.get('sig', '')) in setters:
                a_ = SX.real_args(n)
                lit = SX.strip(a_[1]) if len(a_) == 2 else None
                val = ('true' if lit['v'] else 'false') if SX.is_node(lit) and lit.get('k') == 'bool' else 'other'
                want = 'true' if f is sim['measure'] else ('false' if f in (sim['reset'], sim['allocate']) else None)
                chk.ob('R06.6', f, n.get('ln', f.ln), want is not None and val == want, 'simulator flag write (through %s) in %s (value %s)' % (SX.short(n['callee']), f.short, val),
                       key='sim-flag-write:' + f.short)
            w = SX.write_target(n)
            if w:
                root, names = SX.member_chain(w[0])
                if names[:1] == [mf]:
                    v = w[1]
                    val = ('true' if v['v'] else 'false') if SX.is_node(v) and v['k'] == 'bool' else 'other'
                    want = 'true' if f is sim['measure'] else ('false' if f in (sim['reset'], sim['allocate']) else None)
                    chk.ob('R06.6', f, n.get('ln', f.ln), want is not None and val == want,
                           'simulator flag write in %s (value %s)' % (f.short, val), key='sim-flag-write:' + f.short)
    res = _alloc_flag_table(prog, chk, R, sim, mf)
    if res[0] is None:
        chk.note('allocate flag table not evaluated: ' + str(res[1]))
        chk.vacuous.append('simulator allocate flag table could not be evaluated (%s)' % (res[1],))
    else:
        chk.ob('R06.5', sim['allocate'], sim['allocate'].ln, not res[0],
               'allocate returns the old count, increments it, and leaves flag[index] present and false on all %d abstract (count, flag-vector length) states; counterexamples: %s' % (res[1], res[0][:3]),
               key='sim-alloc-table')
    for f, want in ((sim['measure'], True), (sim['reset'], False), (sim['allocate'], False)):
        g = prog.cfg(f)
        ws = [n for n, l, r, op in g.writes() if SX.member_chain(l)[1][:1] == [mf] and op == '='
              and SX.is_node(r) and r['k'] == 'bool' and r['v'] == want]
        ws += [n for n in g.calls(lambda e, want=want: setter_call(e, want)) if SX.strip(SX.real_args(n.e)[0]).get('id') == (f.params[0]['id'] if f.params else None)]
        resize = [n for n in g.nodes if n.kind == 'call' and n.e['k'] == 'mcall' and SX.short(n.e['callee']) == 'resize'
                  and SX.member_chain(n.e['obj'])[1][:1] == [mf]]
        # every normal path sets the flag for in-range q: paths avoiding the write may only pass through bounds tests
        ok = bool(ws) and (must_follow_modulo_bounds(g, g.entry, ws + (resize if not want else []), f.params[0]['id']) if f.params
                            else g.must_follow(g.entry, ws + resize))
        chk.ob('R06.5', f, f.ln, ok, 'simulator %s must %s the measured flag of its qubit on every normal path' % (f.short, 'set' if want else 'clear'),
               key='sim-flag:%s' % f.short)


def _ev_alloc_table(prog, R, f, rec, flag, vec, sim):
    """abstract evaluation of the evaluator's allocation function: recycled index (free list non-empty, stale measured flag and
    stale last-measurement) and fresh index (free list empty)"""
    from ..kabs import Interp, Obj, Unsupported, OutOfRange
    free = [x['name'] for x in R.ev['fields'] if x['type'] == 'std::vector<int>' and 'free' in x['name'].lower()]
    last = [x['name'] for x in R.ev['fields'] if x['type'] == 'std::vector<int>' and 'last' in x['name'].lower()]
    if len(free) != 1 or len(last) != 1:
        return None, 'free list / last-measurement vector not resolved'
    free, last = free[0], last[0]
    simf = R.ev_sim_field
    bad, n = [], 0
    for recycled in (True, False):
        for nq in (1, 2):
            n += 1
            qs = [Obj({'name': 'old%d' % i, flag: True}) for i in range(nq)]
            this = Obj({free: [nq - 1] if recycled else [], vec: qs, last: [1] * nq, simf: Obj()})
            models = {'reset': lambda it, e, env: None, SX.short(sim['allocate'].name): lambda it, e, env, nq=nq: nq}
            try:
                idx = Interp(prog, models, max_steps=4000).call_fn_env(f, ['fresh'], {'this': this})
            except OutOfRange as ex:
                bad.append('%s nq=%d: %s' % ('recycled' if recycled else 'fresh', nq, ex))
                continue
            except Unsupported as ex:
                return None, str(ex)
            want = nq - 1 if recycled else nq
            ok = idx == want and len(this[vec]) > idx and isinstance(this[vec][idx], Obj) and this[vec][idx].get(flag) is False and \
                len(this[last]) > idx and this[last][idx] == -1 and (not recycled or this[free] == [])
            if not ok:
                bad.append('%s nq=%d: index %r, flag %r, last %r' % ('recycled' if recycled else 'fresh', nq, idx,
                                                                      this[vec][idx].get(flag) if isinstance(idx, int) and idx < len(this[vec]) else '?',
                                                                      this[last][idx] if isinstance(idx, int) and idx < len(this[last]) else '?'))
    # two free indices, two allocations in a row: each hands out an index of the free list and removes exactly that one — two
    # live qubits never share an index (and with it one measured flag)
    for order in ([0, 2], [2, 0]):
        n += 1
        qs = [Obj({'name': 'old%d' % i, flag: True}) for i in range(3)]
        this = Obj({free: list(order), vec: qs, last: [1] * 3, simf: Obj()})
        models = {'reset': lambda it, e, env: None, SX.short(sim['allocate'].name): lambda it, e, env: 3}
        try:
            i1 = Interp(prog, models, max_steps=4000).call_fn_env(f, ['a'], {'this': this})
            left = list(this[free])
            i2 = Interp(prog, models, max_steps=4000).call_fn_env(f, ['b'], {'this': this})
        except OutOfRange as ex:
            bad.append('two free indices %s: %s' % (order, ex))
            continue
        except Unsupported as ex:
            return None, str(ex)
        if not (i1 in order and i1 not in left and len(left) == 1 and i2 == left[0] and i1 != i2 and this[free] == []):
            bad.append('free list %s: first allocation returns %r leaving %s, second returns %r leaving %s — an index handed out must leave the free list' % (
                order, i1, left, i2, this[free]))
    return bad, n


def _alloc_flag_table(prog, chk, R, sim, mf):
    """allocate() leaves the new qubit unmeasured whatever the length of the flag vector was (shorter than, equal to, or longer
    than the qubit count — the longer case holds stale flags of recycled registers): exact evaluation of its syntax tree over
    the small abstract states (qubit count n ∈ {0,1,2}, flag vector length ∈ {0,n−1,n,n+1,n+3} filled with `true`)"""
    from ..kabs import Interp, Obj, Unsupported, OutOfRange
    f = sim['allocate']
    cnt, amp = R.sim_count_field, R.amp_field
    bad = []
    n_states = 0
    for n in (0, 1, 2):
        for L in sorted({0, max(0, n - 1), n, n + 1, n + 3}):
            n_states += 1
            this = Obj({cnt: n, mf: [True] * L, amp: [1] + [0] * (2 ** n - 1)})
            try:
                ret = Interp(prog, {}).call_fn_env(f, [], {'this': this})
            except OutOfRange as ex:
                bad.append('n=%d flags=%d: %s' % (n, L, ex))
                continue
            except Unsupported as ex:
                return None, str(ex)
            ok = ret == n and this[cnt] == n + 1 and len(this[mf]) > n and this[mf][n] is False
            if not ok:
                bad.append('n=%d flags=%d: returned %r, count %r, flag %s' % (n, L, ret, this[cnt], (this[mf][n] if len(this[mf]) > n else 'missing')))
    return bad, n_states


def _mentions_member(n, name):
    e = n.e
    if n.kind == 'decl':
        e = e.get('init')
    if n.kind == 'call':
        # only the call's own immediate operands (sub-calls have their own nodes)
        parts = [e.get('obj')] + list(e.get('args', [])) + [e.get('base'), e.get('i')]
        return any(_mentions_shallow(p, name) for p in parts if p is not None)
    return _mentions_shallow(e, name)


def _mentions_shallow(e, name):
    for x in SX.walk(e, into_lambdas=False):
        if x['k'] == 'member' and x['name'] == name and SX.is_node(x['base']) and x['base']['k'] == 'this':
            return True
    return False


def _only_bounds_text(ce, idx_expr, vec):
    """Condition mentions only the subscript expression (any spelling of the same variable/path), integer literals and <vec>.size()."""
    want = {x.get('id') for x in SX.walk(idx_expr) if x.get('k') == 'ref'}
    for x in SX.walk(ce):
        k = x['k']
        if k == 'ref' and x.get('id') not in want and not x.get('global'):
            return False
        if k == 'member' and x['name'] != vec and not (SX.is_node(x['base']) and x['base']['k'] == 'this') and not any(x is y for y in SX.walk(idx_expr)) \
                and x['name'] not in {y.get('name') for y in SX.walk(idx_expr) if y.get('k') == 'member'}:
            return False
        if k in ('call',):
            return False
        if k == 'mcall' and SX.short(x['callee']) != 'size':
            return False
    return True


def _only_bounds(ce, pid, vec):
    """Condition mentions only the parameter, integer literals and <vec>.size()."""
    for x in SX.walk(ce):
        k = x['k']
        if k == 'ref' and x.get('id') != pid:
            return False
        if k == 'member' and x['name'] != vec and not (SX.is_node(x['base']) and x['base']['k'] == 'this'):
            return False
        if k in ('call',):
            return False
        if k == 'mcall' and SX.short(x['callee']) != 'size':
            return False
    return True


def _must_follow_modulo_bounds(g, ws, f):
    """Every entry→exit path avoiding ws must take the false edge of a pure bounds test on the parameter
    (i.e. the only way to skip the write is an out-of-range index)."""
    pid = f.params[0]['id'] if f.params else None
    avoid = set(ws)
    # treat false... simply: remove ws; if exit still reachable, every witness must cross an edge whose cond is bounds-only
    bounds_edges = [n for n in g.nodes if n.kind == 'edge' and _bounds_cond(n.e, pid)]
    r = g.reachable([g.entry], avoid=list(avoid) + [e for e in bounds_edges if _skips(g, e, ws)])
    return g.exit.id not in r


def _bounds_cond(ce, pid):
    if pid is None:
        return False
    for x in SX.walk(ce):
        k = x['k']
        if k == 'ref' and x.get('id') != pid and x.get('kind') != 'enum':
            return False
        if k == 'call':
            return False
        if k == 'mcall' and SX.short(x['callee']) != 'size':
            return False
    return any(x['k'] == 'ref' and x.get('id') == pid for x in SX.walk(ce))


def _skips(g, edge, ws):
    """edge is the branch of a bounds test from which no write in ws is reachable before exit."""
    r = g.reachable([edge])
    return not any(w.id in r for w in ws)


def _located(g, x, inner=None, canon=None):
    """ensure call x passes (<node>->line, <node>->column) of one AST-node variable that is bound by a
    dominating dynamic_cast guard or is a parameter.  When x invokes a local closure, `inner` is the ensure call inside it
    (closures capture the handler's node variable by reference, so the same dominance test applies at x)."""
    a = SX.real_args(inner if inner is not None else x.e)
    if len(a) < 3:
        return False
    l, c = a[-2], a[-1]
    if canon is not None and SX.is_node(SX.strip(l)) and SX.strip(l).get('k') == 'ref' and SX.is_node(SX.strip(c)) and SX.strip(c).get('k') == 'ref':
        # a position handed through locals (value parameters of an inlined helper) is the expression they were initialised with
        vl, vc = canon.vars.get(SX.strip(l).get('id')), canon.vars.get(SX.strip(c).get('id'))
        if vl is not None and vc is not None and vl['id'] not in canon.written and vc['id'] not in canon.written and \
                SX.is_node(vl.get('init')) and SX.is_node(vc.get('init')):
            l, c = SX.strip(vl['init']), SX.strip(vc['init'])
    if not (SX.is_node(l) and SX.is_node(c) and l['k'] == 'member' and c['k'] == 'member'):
        return False
    if l['name'] != 'line' or c['name'] != 'column':
        return False
    bl, bc = SX.show(l['base']), SX.show(c['base'])
    if bl != bc:
        return False
    root, _ = SX.member_chain(l)
    if not SX.is_node(root) or root['k'] != 'ref':
        return False
    if root.get('kind') == 'param':
        return True
    # a dominating dynamic_cast guard variable (the AST node being handled, or the sub-node it was reached through)
    for ce, pol, _e in g.guards(x):
        if pol and SX.is_node(ce) and ce['k'] == 'ref' and SX.is_node(ce.get('cvinit')) and _has_dyncast(ce['cvinit']):
            if ce.get('id') == root.get('id'):
                return True
    return False


def _has_dyncast(e):
    return any(n['k'] == 'dyncast' for n in SX.walk(e))


def _sitekey(g, node):
    """Stable key of a site: the innermost dynamic_cast guard type (AST node kind being handled) + operand."""
    for ce, pol, _e in g.guards(node):
        if pol and SX.is_node(ce) and ce['k'] == 'ref' and SX.is_node(ce.get('cvinit')):
            for n in SX.walk(ce['cvinit']):
                if n['k'] == 'dyncast':
                    return '%s/%s' % (n['type'].split('::')[-1].replace(' *', ''), arg_text(node.e, 0))
    return '%s/%s' % (g.fn.short, arg_text(node.e, 0))


def _loop_rule(chk, f, g, node, c):
    chain = enclosing_stmts(f.body, c)
    loops = [s for s in chain if s['k'] in ('for', 'while', 'do', 'forrange')]
    for lp in loops:
        ok = False
        why = ''
        if lp['k'] == 'forrange':
            ok = True
        elif lp['k'] == 'for':
            fr = full_range_for(lp)
            if fr:
                cont = size_of(fr[1])
                ok = cont is not None
                why = 'bound ' + SX.show(fr[1])
        early = [n for n in SX.walk(lp['body'], into_lambdas=False) if n['k'] in ('break', 'return', 'continue')]
        chk.ob('R06.4', f, lp.get('ln', node.ln), ok and not early,
               'loop around sim.%s must run over the whole container (0..size) without break/return/continue %s' % (SX.short(c['callee']), why),
               key='loop:' + _sitekey(g, node))
