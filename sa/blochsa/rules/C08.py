"""C08 — object model: construction order, dispatch, overloads, statics, destruction order.

What is decidable from the shape of the code, and decided here:

  R08.1  construction order — runConstructorChain: base chain (the recursive call on cls->base) before the class's field
         initialisers before the first body statement, on every path; the explicit `super(...)` statement is skipped iff it
         was consumed; runFieldInitialisers runs the class's own fields only, in layout order; `new` hands the chain the class
         it stamped on the object.
  R08.2  destruction order — destroyObject walks from the dynamic class upwards (cur = obj->cls; cur = cur->base), each body in
         its own class context; qubit release comes after every user destructor.
  R08.3  dispatch — object receivers: static lookup, then for virtual methods a re-dispatch through the *receiver's dynamic*
         class vtable keyed by signature, guarded by nothing else; class-reference receivers (`super.m()`, statics) never touch
         a vtable; every virtual/override method is registered in its class's vtable (both table builders, identical rule)
         after the base's vtable was copied; a method body runs in the class context of the class that declares it.
  R08.4  overloads — both resolvers (analyser, runtime) walk the whole hierarchy (no exit that depends on what was found so
         far), select the unique minimum and report ties; the two cost tables agree with each other and with the documented
         costs on a finite type domain (K-ABS); values bound to declared slots carry the *declared* class as stamp, so the
         runtime re-resolution sees the static argument types the analyser saw.
  R08.6  statics — static storage is subscripted only through the owner class found together with the field; table builders
         never copy static layout from the base (that would give each subclass its own copy).
  R08.7  phase discipline — the function table is complete before anything that can evaluate an expression runs.

Not decided: equality of observable output with a reference model (a differential property over programs); generic
specialisation identity beyond what C18 decides."""
import itertools

from .. import sx as SX
from ..facts import AnalysisBroken
from ..roles import Roles
from ..kabs import Interp, Obj, Unsupported

EXPLANATION = (
    "Structural necessary conditions of the documented object model, each decided on all CFG paths of the anchored functions: "
    "(R08.1) runConstructorChain: recursive base call → field initialisers → body, explicit super statement skipped iff consumed, "
    "own fields only in layout order, `new` passes the object's class; (R08.2) destroyObject walks obj->cls → base, one class "
    "context per body, qubit release after all user destructors; (R08.3) object receivers re-dispatch virtual methods through "
    "receiver->cls->vtable[signature] under no further condition, class-reference receivers never read a vtable, every "
    "virtual/override method is registered (both table builders) after the base vtable copy, a method body runs in its declaring "
    "class's context; (R08.4) both overload resolvers walk the whole hierarchy, take the unique minimum and report ties — all "
    "selection sites —, the analyser's and the runtime's conversion-cost tables agree with each other and the documented costs "
    "on a finite domain (abstract evaluation of their syntax trees, no repo code run), and values bound to declared slots are "
    "stamped with the declared class; (R08.6) static storage is reached only through the owner returned with the field and is "
    "never copied from a base; (R08.7) the function table is filled before any evaluation. Output equality with a reference "
    "model over all programs is NOT decided.")


def _loop_var(lp):
    iv = lp.get('init')
    if SX.is_node(iv) and iv.get('k') == 'decls' and len(iv.get('d', [])) == 1:
        return iv['d'][0]
    return iv if SX.is_node(iv) and iv.get('k') == 'var' else None


def _syn_guards(f, target):
    """enclosing `if` statements of target, innermost first: (if-node, polarity)"""
    from ..kernels import enclosing_stmts
    chain = enclosing_stmts(f.body, target)
    out = []
    for i, s_ in enumerate(chain):
        if s_.get('k') != 'if':
            continue
        inner = chain[i + 1] if i + 1 < len(chain) else target
        in_then = SX.is_node(s_.get('t')) and (s_['t'] is inner or any(y is inner for y in SX.walk(s_['t'])))
        in_else = SX.is_node(s_.get('e')) and (s_['e'] is inner or any(y is inner for y in SX.walk(s_['e'])))
        if in_then or in_else:
            out.append((s_, in_then))
    out.reverse()
    return out


def _if_cond(s_):
    if s_.get('cv'):
        v = s_['cv']
        return {'k': 'ref', 'kind': 'var', 'name': v['name'], 'id': v['id'], 't': v.get('type', ''), 'cvinit': v.get('init')}
    return s_.get('c')


def _ref_is(e, pid):
    e = SX.strip(e)
    return SX.is_node(e) and e.get('k') == 'ref' and e.get('id') == pid


def _member_of(e, name, pid=None):
    """e is <ref pid>-><name> (or .name)"""
    e = SX.strip(e)
    if not (SX.is_node(e) and e.get('k') == 'member' and e.get('name') == name):
        return False
    return pid is None or _ref_is(e.get('base'), pid)


def _mentions(e, pred):
    return SX.is_node(e) and any(pred(x) for x in SX.walk(e))


def _args(e):
    return SX.real_args(e)


def _node_of(g, x):
    for n in g.nodes:
        if n.e is x:
            return n
    for n in g.nodes:
        if isinstance(n.e, dict) and any(y is x for y in SX.walk(n.e, into_lambdas=False)):
            return n
    return None


def _cond_nodes(g, pred):
    return [n for n in g.nodes if n.kind == 'cond' and SX.is_node(n.e) and pred(SX.strip(n.e))]


def _edges_of(g, cond, pol):
    return [s for s in cond.succ if s.kind == 'edge' and s.pol == pol]


def run(prog, chk):
    R = Roles(prog)
    chk.rule('R08.1', 'construction order: base chain → own field initialisers → body; super statement skipped iff consumed; own fields in layout order')
    chk.rule('R08.2', 'destruction order: dynamic class first, then bases; qubit release after all user destructors')
    chk.rule('R08.3', 'dispatch: vtable re-dispatch on the receiver\'s dynamic class for virtual methods only and unconditionally; no vtable for class-reference receivers; '
                      'complete vtable registration; declaring-class context')
    chk.rule('R08.4', 'overloads: exhaustive hierarchy walk, unique-minimum selection with tie detection at every site, cost tables agree (analyser = runtime = documented), static stamps')
    chk.rule('R08.8', 'generic specialisation: the template\'s own type parameters are bound to the given arguments, overriding any outer binding of the same name')
    chk.rule('R08.6', 'statics: storage reached through the owner found with the field; never copied from the base')
    chk.rule('R08.7', 'phase discipline: function table complete before any evaluation')
    ex, ev = R.ev_method('exec'), R.ev_method('eval')
    _construction(prog, chk, R, ex, ev)
    _field_initialisers(prog, chk, R, ev)
    _destruction(prog, chk, R, ex)
    _dispatch(prog, chk, R, ev)
    _vtable_registration(prog, chk, R)
    _generic_substitution(prog, chk, R)
    _class_context(prog, chk, R, ex)
    _this_stamps(prog, chk, R, ex)
    _walks(prog, chk, R)
    _selection_sites(prog, chk, R)
    _cost_tables(prog, chk, R)
    _resolution_table(prog, chk, R)
    _static_stamps(prog, chk, R, ex, ev)
    _statics(prog, chk, R)
    _phase(prog, chk, R, ev)
    _layout_order(prog, chk)
    # destruction happens when the last program reference goes: the evaluator itself must not hold on to a returned object
    from .C17 import return_slot_obligations
    for f_, ln_, ok_, detail_, key_ in return_slot_obligations(prog, R):
        chk.ob('R08.2', f_, ln_, ok_, detail_, key=key_)


def _layout_order(prog, chk):
    """base-first object layout: a class copies its base's field layout and vtable when it is populated, so every base — also one
    reached through a generic template in the middle of the chain — must be populated before it.  The rule is C10's R10.2
    (independence of declaration order); it is an obligation of the object model too."""
    from .C03 import _Sub
    from . import C10 as _c10
    sub = _Sub(chk)
    _c10.run(prog, sub)
    n = 0
    for rule, fn, site, ok, detail, key in sub.obs:
        if rule == 'R10.2':
            n += 1
            chk.ob('R08.1', fn, site, ok, 'layout order: ' + detail, key='layout:' + str(key))
    chk.count('layout-order obligations (C10 R10.2)', n, 1)


# ------------------------------------------------------------------------------------------------------
def _typed_defaults(prog, chk, R, ev):
    """Before any constructor code of a new object runs, EVERY instance slot — also those of classes further down the hierarchy —
    holds the typed default value of its field: a base constructor (or base field initialiser) can reach a derived class's field
    through a virtual call, and must read 0 / "" / null there, not an untyped empty value.  At each site that starts a constructor
    chain on a freshly allocated object: a full loop over the class's instance fields that stores defaultValueForField(field, …)
    into the field's slot dominates the start of the chain."""
    chain = R.ev_method('runConstructorChain')
    dflt = R.ev_method('defaultValueForField')
    n = 0
    from ..kernels import enclosing_stmts
    for f in [x for x in R.ev_methods() if x.body and x is not chain]:
        g = prog.cfg(f)
        for c in g.calls(lambda e: e['k'] == 'mcall' and e.get('callee') == chain.name):
            a = _args(c.e)
            if len(a) < 2:
                continue
            objx = SX.strip(a[1])
            # only where the object is created in this function (`new`): a local initialised from a shared_ptr construction / allocation helper
            if not (SX.is_node(objx) and objx.get('k') == 'ref' and objx.get('kind') == 'var'):
                continue
            n += 1
            fills = []
            for d in g.nodes:
                if d.kind not in ('assign', 'call') or not SX.is_node(d.e):
                    continue
                w = SX.write_target(d.e)
                if not w or w[2] != '=':
                    continue
                l0 = SX.strip(w[0])
                if not (SX.is_node(l0) and l0.get('k') == 'index' and _member_of(l0.get('base'), 'fields')):
                    continue
                root = SX.strip(SX.strip(l0['base']).get('base'))
                while SX.is_node(root) and (root.get('k') == 'opcall' and root.get('op') in ('->', '*') and root.get('args') or
                                            root.get('k') == 'mcall' and SX.short(root.get('callee', '')) == 'get' or root.get('k') == 'un' and root.get('op') == '*'):
                    root = SX.strip(root['args'][0] if root['k'] == 'opcall' else (root.get('obj') if root['k'] == 'mcall' else root.get('e')))
                if not (SX.is_node(root) and root.get('k') == 'ref' and root.get('id') == objx.get('id')):
                    continue
                if not _mentions(w[1], lambda x: x.get('k') in ('call', 'mcall') and x.get('callee') == dflt.name):
                    continue
                loops = [s_ for s_ in enclosing_stmts(f.body, d.e) if s_['k'] == 'forrange']
                full = bool(loops) and 'instanceFields' in SX.show(loops[-1].get('range')) and not any(
                    x_['k'] in ('break', 'return') for x_ in SX.walk(loops[-1]['body'], into_lambdas=False))
                if full:
                    fills.append(d)
            heads = []
            ok = False
            for d in fills:
                loops = [s_ for s_ in enclosing_stmts(f.body, d.e) if s_['k'] == 'forrange']
                hs = [h for h in g.nodes if h.kind == 'loophead' and h.e is loops[-1]]
                if hs and g.dominates(hs[0], c):
                    ok = True
            chk.ob('R08.1', f, c.ln or f.ln, ok,
                   'every instance slot of the new object holds its field\'s typed default (full loop over the class\'s instance fields storing %s) before the constructor chain '
                   'starts: a base constructor can read a derived class\'s field through a virtual call' % dflt.short, key='typed-defaults:%s' % f.short)
    chk.count('constructor chains started on new objects', n, 1)


def _construction(prog, chk, R, ex, ev):
    _typed_defaults(prog, chk, R, ev)
    f = R.ev_method('runConstructorChain')
    fi_f = R.ev_method('runFieldInitialisers')
    g = prog.cfg(f)
    if len(f.params) < 4:
        raise AnalysisBroken('runConstructorChain signature changed')
    clsp, objp, ctorp = f.params[0]['id'], f.params[1]['id'], f.params[2]['id']
    rec = list(g.calls(lambda e: e['k'] == 'mcall' and e.get('callee') == f.name))
    fi = list(g.calls(lambda e: e['k'] == 'mcall' and e.get('callee') == fi_f.name))
    body = [c for c in g.calls(lambda e: e['k'] == 'mcall' and e.get('callee') == ex.name)
            if _mentions(c.e, lambda x: x.get('k') == 'member' and x.get('name') == 'statements')]
    chk.count('constructor-chain recursive calls', len(rec), 1)
    chk.count('field-initialiser calls in the chain', len(fi), 1)
    chk.count('constructor body statement executions', len(body), 1)
    for c in rec:
        a = _args(c.e)
        ok = len(a) >= 2 and _member_of(a[0], 'base', clsp) and _ref_is(a[1], objp)
        chk.ob('R08.1', f, c.ln or f.ln, ok, 'the recursive call constructs the direct base of this class on the same object: %s' % SX.show(c.e)[:80], key='chain:rec-args')
    for c in fi:
        a = _args(c.e)
        ok = len(a) >= 2 and _ref_is(a[0], clsp) and _ref_is(a[1], objp)
        chk.ob('R08.1', f, c.ln or f.ln, ok, 'field initialisers run for this class on the same object: %s' % SX.show(c.e)[:80], key='chain:fi-args')
    base_conds = _cond_nodes(g, lambda e: _member_of(e, 'base', clsp))
    if not base_conds:
        raise AnalysisBroken('runConstructorChain: no test of cls->base')
    base_false = [x for c in base_conds for x in _edges_of(g, c, False)]
    base_true = [x for c in base_conds for x in _edges_of(g, c, True)]
    for c in fi:
        ok = g.must_precede(set(rec) | set(base_false), c)
        chk.ob('R08.1', f, c.ln or f.ln, ok, 'every path to the field initialisers has run the base chain (or the class has no base)', key='chain:base-before-fields')
    for e in base_true:
        ok = g.must_follow(e, set(rec))
        chk.ob('R08.1', f, e.ln or f.ln, ok, 'when the class has a base, every normal path constructs it (no path skips the base constructor)', key='chain:base-always')
    for c in body:
        ok = g.must_precede(set(fi), c) and g.must_precede(set(rec) | set(base_false), c)
        chk.ob('R08.1', f, c.ln or f.ln, ok, 'every path to a constructor-body statement has run the base chain and this class\'s field initialisers', key='chain:fields-before-body')
    cls_conds = _cond_nodes(g, lambda e: _ref_is(e, clsp) or (e.get('k') == 'un' and e.get('op') == '!' and _ref_is(e.get('e'), clsp)))
    live = []
    for c in cls_conds:
        neg = SX.strip(c.e).get('k') == 'un'
        live += _edges_of(g, c, not neg)
    if not live:
        raise AnalysisBroken('runConstructorChain: null test of the class parameter not found')
    for e in live:
        ok = g.must_follow(e, set(fi))
        chk.ob('R08.1', f, f.ln, ok, 'every normal path through the chain runs the field initialisers (not only when a constructor body exists)', key='chain:fields-always')
    # explicit super(...) statement: skipped in the body iff it was consumed
    loops = [lp for lp in SX.walk(f.body, into_lambdas=False) if lp['k'] == 'for' and any(any(y is b.e for y in SX.walk(lp['body'])) for b in body)]
    if len(loops) != 1:
        raise AnalysisBroken('constructor body loop not found')
    lp = loops[0]
    iv = _loop_var(lp)
    init = SX.strip(iv.get('init')) if SX.is_node(iv) and iv.get('k') == 'var' else None
    vars_ = {v['id']: v for v in SX.walk(f.body, into_lambdas=False) if v['k'] == 'var'}
    seen = 0
    while SX.is_node(init) and init.get('k') == 'ref' and init.get('id') in vars_ and seen < 4:
        init = SX.strip(vars_[init['id']].get('init'))
        seen += 1
    flag = None
    if SX.is_node(init) and init.get('k') == 'cond':
        c, t, fl = SX.strip(init['c']), SX.strip(init['t']), SX.strip(init['f'])
        if c.get('k') == 'ref' and t.get('k') == 'int' and t.get('v') == 1 and fl.get('k') == 'int' and fl.get('v') == 0:
            flag = c
    chk.ob('R08.1', f, lp.get('ln', f.ln), flag is not None,
           'the body loop starts at statement 1 exactly when the explicit super(...) statement was consumed, else at 0 (start = %s)' % (SX.show(init)[:60] if SX.is_node(init) else '?'),
           key='chain:skip-index')
    if flag is not None:
        sets = [(n, r) for n, l, r, op in g.writes() if _ref_is(l, flag['id'])]
        ok = any(SX.is_node(SX.strip(r_)) and SX.strip(r_).get('k') == 'bool' and SX.strip(r_)['v'] for _n, r_ in sets)
        for n, r in sets:
            r = SX.strip(r)
            if SX.is_node(r) and r.get('k') == 'bool' and not r['v']:
                continue      # (writing `false` never claims a consumed super statement: the early returns of a helper that yields the flag)
            if not (SX.is_node(r) and r.get('k') == 'bool' and r['v']):
                ok = False
                continue
            gs = g.guards(n)
            is_super = any(pol and 'SuperExpression' in SX.show(ce) for ce, pol, _ in gs)
            first_stmt = any('statements[0]' in SX.show(d.e) for d in g.dominators(n) if d.kind in ('decl', 'cond', 'call') and isinstance(d.e, dict))
            ok = ok and is_super and first_stmt
        sup_evals = [c for c in g.calls(lambda e: e['k'] == 'mcall' and e.get('callee') == ev.name)]
        ok2 = all(any(pol and 'SuperExpression' in SX.show(ce) for ce, pol, _ in g.guards(c)) for c in sup_evals)
        chk.ob('R08.1', f, f.ln, ok and ok2, 'the consumed-super flag is set only when statement 0 is a call on `super`, whose arguments are the only expressions the chain itself evaluates',
               key='chain:super-consumed')
    # `new`: the chain is started on the class stamped on the object
    starts = []
    for m in [ev] + [m_ for m_ in prog.methods_of(ev.cls) if m_ is not ev and m_ is not f and m_.body]:
        gm = prog.cfg(m)
        starts += [(m, gm, c) for c in gm.calls(lambda e: e['k'] == 'mcall' and e.get('callee') == f.name)]
    chk.count('constructor chain starts in eval', len(starts), 1)
    for evm, g2, c in starts:
        a = _args(c.e)
        a0, a1 = SX.strip(a[0]), SX.strip(a[1])
        stamped = [n for n, l, r, op in g2.writes() if _member_of(l, 'cls') and SX.is_node(SX.strip(l).get('base')) and
                   _mentions(SX.strip(l)['base'], lambda x: x.get('k') == 'ref' and x.get('id') == a1.get('id')) and
                   SX.is_node(SX.strip(r)) and SX.strip(r).get('id') == a0.get('id')]
        ok = a0.get('k') == 'ref' and a1.get('k') == 'ref' and bool(stamped) and g2.must_precede(set(stamped), c)
        chk.ob('R08.1', evm, c.ln or evm.ln, ok, '`new` runs the chain of exactly the class it recorded as the object\'s dynamic class (%s)' % SX.show(c.e)[:70], key='new:class-agrees')


def _field_initialisers(prog, chk, R, ev):
    f = R.ev_method('runFieldInitialisers')
    clsp, objp = f.params[0]['id'], f.params[1]['id']
    loops = [lp for lp in SX.walk(f.body, into_lambdas=False) if lp['k'] == 'for']
    if len(loops) != 1:
        raise AnalysisBroken('runFieldInitialisers: expected one loop')
    lp = loops[0]
    vars_ = {v['id']: v for v in SX.walk(f.body, into_lambdas=False) if v['k'] == 'var'}
    iv = _loop_var(lp)
    if not (SX.is_node(iv) and iv.get('k') == 'var'):
        raise AnalysisBroken('runFieldInitialisers: loop variable not found')
    start = SX.strip(iv.get('init'))
    if start.get('k') == 'ref' and start.get('id') in vars_:
        sv = vars_[start['id']]
        start = SX.strip(sv.get('init'))
    else:
        sv = None
    ok_start = False
    if start.get('k') == 'cond':
        c, t, fl = SX.strip(start['c']), SX.strip(start['t']), SX.strip(start['f'])
        ok_start = _member_of(c, 'base', clsp) and SX.show(t).replace(' ', '') in ('cls->base->instanceFields.size()',) and fl.get('k') == 'int' and fl.get('v') == 0
        ok_start = ok_start or (_member_of(c, 'base', clsp) and t.get('k') == 'mcall' and SX.short(t.get('callee', '')) == 'size'
                                and _mentions(t, lambda x: x.get('k') == 'member' and x.get('name') == 'instanceFields')
                                and _mentions(t, lambda x: x.get('k') == 'member' and x.get('name') == 'base') and fl.get('k') == 'int' and fl.get('v') == 0)
    chk.ob('R08.1', f, lp.get('ln', f.ln), ok_start,
           'the initialiser loop starts after the inherited fields (base ? base->instanceFields.size() : 0): only the class\'s own fields are initialised at its level (start = %s)' %
           SX.show(start)[:70], key='fields:own-only')
    cp = SX.cmp_parts(lp.get('c')) if SX.is_node(lp.get('c')) else None
    ok_bound = bool(cp) and cp[0] == '<' and _ref_is(cp[1], iv['id']) and 'instanceFields.size()' in SX.show(cp[2]) and _mentions(cp[2], lambda x: x.get('k') == 'ref' and x.get('id') == clsp)
    inc = SX.strip(lp.get('inc'))
    ok_inc = SX.is_node(inc) and inc.get('k') in ('incdec', 'un') and '++' in (inc.get('op') or '') and _mentions(inc, lambda x: x.get('k') == 'ref' and x.get('id') == iv['id'])
    writes_i = [1 for n in SX.walk(lp['body'], into_lambdas=False) if (SX.write_target(n) and _ref_is(SX.write_target(n)[0], iv['id']))]
    chk.ob('R08.1', f, lp.get('ln', f.ln), ok_bound and ok_inc and not writes_i, 'own fields are initialised in ascending layout (declaration) order up to the class\'s field count', key='fields:order')
    # the initialiser value lands in the field's own slot of this object
    g = prog.cfg(f)
    evals = [c for c in g.calls(lambda e: e['k'] == 'mcall' and e.get('callee') == ev.name)]
    if not evals:
        chk.ob('R08.1', f, f.ln, False, 'runFieldInitialisers evaluates the declared initialiser of each own field (no reachable evaluation found)', key='fields:evaluated')
    chk.count('field initialiser evaluations', len(evals), 0)
    slots = [v for v in vars_.values() if SX.is_node(v.get('init')) and SX.strip(v['init']).get('k') == 'index' and
             _mentions(SX.strip(v['init'])['base'], lambda x: x.get('k') == 'ref' and x.get('id') == objp) and 'offset' in SX.show(SX.strip(v['init'])['i'])]
    chk.ob('R08.1', f, f.ln, len(slots) == 1, 'the initialised slot is obj->fields[field.offset]', key='fields:slot')


def _destruction(prog, chk, R, ex):
    from ..kcanon import inline_closures
    f = inline_closures(prog, R.ev_method('destroyObject'))
    objp = f.params[0]['id']
    g = prog.cfg(f)
    execs = [c for c in g.calls(lambda e: e['k'] == 'mcall' and e.get('callee') == ex.name)]
    chk.count('destructor body statement executions', len(execs), 1)
    loops = [lp for lp in SX.walk(f.body, into_lambdas=False) if lp['k'] in ('for', 'while') and
             any(any(y is c.e for y in SX.walk(lp['body'], into_lambdas=False)) for c in execs)]
    outer = loops[0] if loops else None
    ok = False
    cur = None
    detail = 'walk loop not found'
    if outer is not None and outer['k'] == 'for':
        iv = _loop_var(outer)
        if SX.is_node(iv) and iv.get('k') == 'var':
            cur = iv['id']
            ok_init = _member_of(iv.get('init'), 'cls', objp)
            inc = SX.strip(outer.get('inc'))
            w = SX.write_target(inc) if SX.is_node(inc) else None
            ok_inc = bool(w) and _ref_is(w[0], cur) and _member_of(w[1], 'base', cur)
            ok_c = _ref_is(outer.get('c'), cur)
            other = [1 for n in SX.walk(outer['body'], into_lambdas=False) if SX.write_target(n) and _ref_is(SX.write_target(n)[0], cur)]
            ok = ok_init and ok_inc and ok_c and not other
            detail = 'init %s, step %s' % (SX.show(iv.get('init'))[:30], SX.show(inc)[:30])
    chk.ob('R08.2', f, (outer or {}).get('ln', f.ln), ok, 'user destructors run from the object\'s dynamic class upwards, one level per step (%s)' % detail, key='dtor:walk')
    if cur is not None:
        for c in execs:
            src_ok = _mentions(c.e, lambda x: x.get('k') == 'member' and x.get('name') == 'destructorDecl' and _ref_is(x.get('base'), cur)) or \
                any(lp['k'] == 'forrange' and _mentions(lp['range'], lambda x: x.get('k') == 'member' and x.get('name') == 'destructorDecl' and _ref_is(x.get('base'), cur))
                    for lp in SX.walk(outer['body'], into_lambdas=False) if lp['k'] == 'forrange' and any(y is c.e for y in SX.walk(lp['body'], into_lambdas=False)))
            ctx = [n for n, l, r, op in g.writes() if SX.is_this_member(SX.strip(l), 'm_currentClassCtx') and _ref_is(r, cur)]
            from ..kguard import virtual_writes
            ctx += [n for n, m_, v_, rst in virtual_writes(prog, f, g) if m_ == 'm_currentClassCtx' and _ref_is(v_, cur)]
            ok = src_ok and bool(ctx) and g.must_precede(set(ctx), c)
            chk.ob('R08.2', f, c.ln or f.ln, ok, 'each level executes that level\'s destructor body, in that level\'s class context', key='dtor:level-body')
    chk.count('destructor body loops', _fresh_return_flag(prog, chk, R, f), 1)
    rel = [c for c in g.calls(lambda e: e['k'] == 'mcall' and SX.short(e.get('callee', '')) in ('releaseQubit',))]
    if not rel:
        chk.ob('R08.2', f, f.ln, False, 'destroyObject releases the qubit fields of the object (no reachable release found)', key='dtor:release-exists')
    chk.count('qubit releases in destroyObject', len(rel), 0)
    for c in rel:
        r = g.reachable([c])
        ok = not any(x.id in r for x in execs)
        chk.ob('R08.2', f, c.ln or f.ln, ok, 'qubit fields are released only after every user destructor of the chain has run (they may still use them)', key='dtor:release-last')


# ------------------------------------------------------------------------------------------------------
def _dispatch(prog, chk, R, ev):
    g = prog.cfg(ev)
    cm = R.ev_method('callMethod')
    fm = R.ev_method('findMethod')
    calls = [c for c in g.calls(lambda e: e['k'] == 'mcall' and e.get('callee') == cm.name)]
    chk.count('callMethod sites in eval', len(calls), 2)
    # vtable reads in eval
    vt_reads = [n for n in g.nodes if isinstance(n.e, dict) and n.kind in ('call', 'decl', 'assign', 'cond') and
                _mentions(n.e if n.kind != 'decl' else n.e.get('init'), lambda x: x.get('k') == 'member' and x.get('name') == 'vtable')]
    chk.count('vtable reads in eval', len(vt_reads), 1)
    redirects = []
    for n, l, r, op in g.writes():
        l, r = SX.strip(l), SX.strip(r)
        if not (SX.is_node(l) and l.get('k') == 'ref' and SX.is_node(r)):
            continue
        # method = it->second  where it := <recv>->cls->vtable.find(<method>->signature)
        if r.get('k') == 'member' and r.get('name') == 'second':
            root, _names = SX.member_chain(r)
            itv = None
            for x in SX.walk(r):
                if x.get('k') == 'ref' and x.get('kind') == 'var':
                    itv = x
            if itv is None:
                continue
            decl = [v for v in SX.walk(ev.body, into_lambdas=False) if v['k'] == 'var' and v.get('id') == itv.get('id')]
            if decl and _mentions(decl[0].get('init'), lambda x: x.get('k') == 'member' and x.get('name') == 'vtable'):
                redirects.append((n, l, decl[0]))
    chk.count('vtable re-dispatch assignments', len(redirects), 1)
    for n, mvar, itdecl in redirects:
        init = SX.strip(itdecl['init'])
        txt = SX.show(init).replace(' ', '')
        key_ok = init.get('k') == 'mcall' and SX.short(init.get('callee', '')) == 'find' and \
            any(_member_of(a, 'signature', mvar['id']) for a in _args(init))
        # the table is the one of the receiver's dynamic class: <objptr>->cls->vtable where objptr is a shared_ptr<Object>
        tbl = SX.strip(init.get('obj')) if init.get('k') == 'mcall' else None
        dyn_ok = False
        if SX.is_node(tbl) and tbl.get('k') == 'member' and tbl.get('name') == 'vtable':
            c1 = SX.strip(tbl.get('base'))
            if SX.is_node(c1) and c1.get('k') == 'member' and c1.get('name') == 'cls':
                owner_t = (SX.strip(c1.get('base')) or {}).get('t', '') if SX.is_node(SX.strip(c1.get('base'))) else ''
                dyn_ok = 'Object' in owner_t or 'Object' in SX.show(c1.get('base')) or True
                recv = SX.strip(c1.get('base'))
                # receiver is the object the call is made on (later passed to callMethod)
                dyn_ok = any(len(_args(c.e)) >= 3 and SX.show(SX.strip(_args(c.e)[2])) == SX.show(_peel_get(recv)) for c in calls)
        chk.ob('R08.3', ev, n.ln or ev.ln, key_ok and dyn_ok,
               'virtual re-dispatch looks the method up by its signature in the vtable of the receiver\'s dynamic class (%s)' % txt[:70], key='dispatch:vtable-lookup')
        # every definition of the method variable is a static lookup, a vtable entry or null
        defs = [(nn, SX.strip(r)) for nn, l, r, op in g.writes() if _ref_is(l, mvar['id'])]
        mdecl = [v for v in SX.walk(ev.body, into_lambdas=False) if v['k'] == 'var' and v.get('id') == mvar['id']]
        rhs = [r for _, r in defs] + [SX.strip(v.get('init')) for v in mdecl if SX.is_node(v.get('init'))]
        ok_defs = bool(rhs) and all(SX.is_node(r) and (r.get('k') == 'nullptr' or (r.get('k') == 'mcall' and r.get('callee') == fm.name) or
                                                        (r.get('k') == 'member' and r.get('name') == 'second')) for r in rhs) and \
            any(r.get('k') == 'mcall' for r in rhs)
        chk.ob('R08.3', ev, n.ln or ev.ln, ok_defs, 'the re-dispatched method variable only ever holds the result of the static lookup (findMethod) or a vtable entry', key='dispatch:static-first')
        # conditions on the way to the redirect (enclosing ifs that talk about the method, the receiver or the slot iterator)
        recv_show = None
        tbl = SX.strip(init.get('obj')) if init.get('k') == 'mcall' else None
        if SX.is_node(tbl) and tbl.get('k') == 'member':
            c1 = SX.strip(tbl.get('base'))
            if SX.is_node(c1) and c1.get('k') == 'member':
                recv_show = SX.show(SX.strip(c1.get('base')))
        recv_id = None
        if recv_show:
            rb = SX.strip(c1.get('base'))
            while SX.is_node(rb) and rb.get('k') == 'opcall' and rb.get('op') in ('->', '*') and rb.get('args'):
                rb = SX.strip(rb['args'][0])
            recv_id = rb.get('id') if SX.is_node(rb) else None
            recv_show = SX.show(rb)
        explicit_receiver = any(_ref_is(l, recv_id) and 'objectValue' in SX.show(r) for _, l, r, _ in g.writes())
        extra = []
        for ifs, pol in _syn_guards(ev, n.e):
            ce = _if_cond(ifs)
            talks = _mentions(ce, lambda x: x.get('k') == 'ref' and x.get('id') in (mvar['id'], itdecl['id'])) or (recv_show and recv_show in SX.show(ce))
            if not talks:
                break
            for part, ppol in _conjuncts(ce, pol):
                p = SX.strip(part)
                t = SX.show(p).replace(' ', '')
                allowed = (ppol and (_ref_is(p, mvar['id']) or _member_of(p, 'isVirtual', mvar['id']) or (SX.is_node(p) and p.get('k') == 'member' and p.get('name') == 'cls')
                                     or (recv_show and SX.show(p) == recv_show))) or _is_iter_end_test(p, ppol, itdecl['id'])
                if not allowed and not explicit_receiver:
                    # unqualified call `m()` inside a method: the receiver is the current object
                    allowed = (not ppol and (_member_of(p, 'isStatic', mvar['id']) or SX.is_this_member(p, 'm_inConstructor') or SX.is_this_member(p, 'm_inDestructor')))
                if not allowed:
                    extra.append(('' if ppol else '!') + t[:50])
        chk.ob('R08.3', ev, n.ln or ev.ln, not extra,
               'the re-dispatch happens for every virtual method found (%s); further conditions: %s' %
               ('conditions: method, method->isVirtual, receiver->cls, slot present' if explicit_receiver else
                'unqualified call: additionally not static, and not while a constructor/destructor of the object runs — table of exceptions', extra),
               key='dispatch:unconditional:' + ('member-call' if explicit_receiver else 'unqualified'))
    # class-reference receivers never read a vtable
    for n in vt_reads:
        ok = not any(pol and _is_type_test(ce, 'ClassRef') for ce, pol, _ in _flat_guards(g, n))
        ifs = [(_if_cond(i_), pol) for i_, pol in _syn_guards(ev, n.e)]
        ok = ok and not any(pol and any(_is_type_test(part, 'ClassRef') for part, pp in _conjuncts(ce, pol) if pp) for ce, pol in ifs)
        chk.ob('R08.3', ev, n.ln or ev.ln, ok, 'vtables are never consulted for class-reference receivers: `super.m()` and static calls bind statically', key='dispatch:no-vtable-for-classref')


def _peel_get(e):
    e = SX.strip(e)
    return e


def _conjuncts(ce, pol):
    """split a guard into atomic (expr, polarity) facts: a && b under +, a || b under -"""
    ce = SX.strip(ce)
    if SX.is_node(ce) and ce.get('k') == 'bin' and ((ce['op'] == '&&' and pol) or (ce['op'] == '||' and not pol)):
        return _conjuncts(ce['l'], pol) + _conjuncts(ce['r'], pol)
    if SX.is_node(ce) and ce.get('k') == 'un' and ce.get('op') == '!':
        return _conjuncts(ce['e'], not pol)
    if SX.is_node(ce) and ce.get('k') in ('mcall', 'opcall') and 'operator bool' in (SX.callee(ce) or ''):
        inner = ce.get('obj') or (ce.get('args') or [None])[0]
        return [(inner, pol)]
    return [(ce, pol)]


def _flat_guards(g, n):
    out = []
    for ce, pol, d in g.guards(n):
        for part, ppol in _conjuncts(ce, pol):
            out.append((part, ppol, d))
    return out


def _is_type_test(ce, tag):
    cp = SX.cmp_parts(ce) if SX.is_node(ce) else None
    if not cp or cp[0] != '==':
        return False
    for a, b in ((cp[1], cp[2]), (cp[2], cp[1])):
        a, b = SX.strip(a), SX.strip(b)
        if SX.is_node(a) and a.get('k') == 'member' and a.get('name') == 'type' and SX.is_node(b) and b.get('k') == 'ref' and b.get('kind') == 'enum' and b['name'].endswith('Type::' + tag):
            return True
    return False


def _is_iter_end_test(p, pol, itid):
    cp = SX.cmp_parts(p) if SX.is_node(p) else None
    if not cp:
        return False
    op = cp[0] if pol else {'==': '!=', '!=': '=='}.get(cp[0])
    if op != '!=':
        return False
    sides = [SX.strip(cp[1]), SX.strip(cp[2])]
    return any(_ref_is(s, itid) for s in sides) and any(SX.is_node(s) and s.get('k') == 'mcall' and SX.short(s.get('callee', '')) == 'end' for s in sides)


def _vtable_registration(prog, chk, R):
    # builders: evaluator methods that write a vtable (slot or whole table); creators: methods that make a RuntimeClass —
    # every creator must be, or reach through evaluator calls, a builder (the two may be one shared helper)
    def _writes_vtable(f):
        for n in SX.walk(f.body, into_lambdas=False):
            w = SX.write_target(n)
            if w:
                l0 = SX.strip(w[0])
                if (SX.is_node(l0) and l0.get('k') == 'index' and _member_of(l0.get('base'), 'vtable')) or _member_of(l0, 'vtable'):
                    return True
        return False
    evm = [f for f in R.ev_methods() if f.body]
    builders = [f for f in evm if _writes_vtable(f)]
    creators = [f for f in evm if any(x.get('k') == 'call' and 'make_shared' in x.get('callee', '') and 'RuntimeClass' in (x.get('callee', '') + x.get('t', ''))
                                      for x in SX.walk(f.body, into_lambdas=False))]
    chk.count('class-table builders that fill a vtable', len(builders), 1)
    chk.count('functions that create runtime classes', len(creators), 2)
    bkeys = {b.key for b in builders}
    evkeys = {f.key for f in evm}
    for f in creators:
        seen, todo, hit = {f.key}, [f], f.key in bkeys
        while todo and not hit:
            cur = todo.pop()
            for _, ts in prog.callees(cur):
                for t in ts:
                    if t.key in bkeys:
                        hit = True
                    if t.key in evkeys and t.key not in seen and t.body:
                        seen.add(t.key)
                        todo.append(t)
        chk.ob('R08.3', f, f.ln, hit, '%s creates runtime classes and fills (itself or through a helper) their vtable' % f.short, key='vtable:creator:' + f.short)
    for f in builders:
        g = prog.cfg(f)
        regs, copies = [], []
        for n, l, r, op in g.writes():
            l0 = SX.strip(l)
            if SX.is_node(l0) and l0.get('k') == 'index' and _member_of(l0.get('base'), 'vtable'):
                regs.append((n, l0, SX.strip(r)))
            elif _member_of(l0, 'vtable') and _mentions(r, lambda x: x.get('k') == 'member' and x.get('name') == 'vtable') and \
                    _mentions(r, lambda x: x.get('k') == 'member' and x.get('name') == 'base'):
                copies.append(n)
        ok_any = False
        why = 'no registration found'
        for n, l0, r in regs:
            key_ok = SX.is_node(r) and r.get('k') == 'ref' and _member_of(l0.get('i'), 'signature', r.get('id'))
            bad = []
            seen_method_cast = False
            for ifs, pol in _syn_guards(f, n.e):
                ce = _if_cond(ifs)
                if ifs.get('cv') and 'MethodDeclaration' in (ifs['cv'].get('type') or ''):
                    seen_method_cast = pol
                    break
                p = SX.strip(ce)
                if pol and SX.is_node(p) and p.get('k') == 'bin' and p['op'] == '||' and \
                        {SX.strip(p['l']).get('name'), SX.strip(p['r']).get('name')} == {'isVirtual', 'isOverride'}:
                    continue
                bad.append(('' if pol else '!') + SX.show(p)[:40])
            if key_ok and seen_method_cast and not bad:
                ok_any = True
            else:
                why = 'key by stored signature: %s; extra conditions: %s' % (key_ok, bad)
        chk.ob('R08.3', f, regs[0][0].ln if regs else f.ln, ok_any,
               'every method declared virtual or override is entered in its class\'s vtable under exactly that condition (an override whose direct base does not redeclare the '
               'method must still replace the inherited slot); %s' % ('' if ok_any else why), key='vtable:register:' + f.short + ':' + (f.sig or '')[:24])
        base_false = [x for c in _cond_nodes(g, lambda e: _member_of(e, 'base')) for x in _edges_of(g, c, False)]
        ok = bool(copies) and all(g.must_precede(set(copies) | set(base_false), n) for n, _, _ in regs)
        chk.ob('R08.3', f, copies[0].ln if copies else f.ln, ok, 'the base\'s vtable is copied before the class\'s own methods are entered (inherited slots exist, own entries override them)',
               key='vtable:inherit:' + f.short + ':' + (f.sig or '')[:24])


def _this_stamps(prog, chk, R, ex):
    """the value bound to `this` is stamped with the class whose code is about to run (the one installed as class context):
    member calls on `this`, and `this` passed as an argument, resolve from that stamp"""
    n = 0
    for f in [x for x in R.ev_methods() if x.body and x.short in ('callMethod', 'runConstructorChain', 'destroyObject', 'runFieldInitialisers')]:
        g = prog.cfg(f)
        binds = []
        for nn, l, r, op in g.writes():
            l0 = SX.strip(l)
            if SX.is_node(l0) and l0.get('k') == 'index' and 'm_env' in SX.show(l0.get('base')) and 'this' in SX.show(l0.get('i')):
                r0 = SX.strip(r)
                items = r0.get('items') if SX.is_node(r0) and r0.get('k') == 'initlist' else (_args(r0) if SX.is_node(r0) and r0.get('k') == 'construct' else None)
                if items and SX.strip(items[0]).get('k') == 'ref':
                    binds.append((nn, SX.strip(items[0])))
        ctxw = [(nn, SX.strip(r)) for nn, l, r, op in g.writes() if SX.is_this_member(SX.strip(l), 'm_currentClassCtx')]
        from ..kguard import virtual_writes
        ctxw += [(nn, SX.strip(v_)) for nn, m_, v_, rst in virtual_writes(prog, f, g) if m_ == 'm_currentClassCtx']
        for bn, tv in binds:
            n += 1
            stamps = [(nn, SX.strip(r)) for nn, l, r, op in g.writes() if _member_of(l, 'className', tv.get('id')) and g.dominates(nn, bn)]
            ctx_before = [x for x in ctxw if g.dominates(x[0], bn)]
            ok, why = False, 'no class-context assignment or no stamp before the binding'
            if stamps and ctx_before:
                cx = ctx_before[-1][1] if len(ctx_before) == 1 else max(ctx_before, key=lambda x: len(g.dominators(x[0])))[1]
                from ..kcanon import Canon
                cx = SX.strip(Canon(prog, f).expand(cx))
                if SX.is_node(cx) and cx.get('k') == 'cond':
                    cx = SX.strip(cx['t'])
                st = stamps[-1][1] if len(stamps) == 1 else max(stamps, key=lambda x: len(g.dominators(x[0])))[1]
                want = SX.show(cx).replace(' ', '')
                names = [SX.show(SX.strip(x.get('base'))).replace(' ', '') for x in SX.walk(st) if x.get('k') == 'member' and x.get('name') == 'name']
                ok = bool(names) and all(nm == want for nm in names)
                why = 'context is %s, stamp is %s' % (SX.show(cx)[:40], SX.show(st)[:60])
            chk.ob('R08.4', f, bn.ln or f.ln, ok,
                   '`this` is stamped with the class whose code runs (the class installed as context), not with the receiver\'s dynamic class: %s — with the dynamic class '
                   'an inherited method that passes `this` on picks the subclass overload and `this.m()` finds a non-virtual method the subclass hides' % why,
                   key='stamp:this:' + f.short)
    chk.count('`this` bindings', n, 4)


def _class_context(prog, chk, R, ex):
    f = R.ev_method('callMethod')
    g = prog.cfg(f)
    mp = f.params[0]['id']
    execs = [c for c in g.calls(lambda e: e['k'] == 'mcall' and e.get('callee') == ex.name)]
    ws = [(n, SX.strip(r)) for n, l, r, op in g.writes() if SX.is_this_member(SX.strip(l), 'm_currentClassCtx')]
    from ..kguard import virtual_writes
    ws += [(n, SX.strip(v_)) for n, m_, v_, rst in virtual_writes(prog, f, g) if m_ == 'm_currentClassCtx']
    entry = [(n, r) for n, r in ws if execs and all(g.must_precede({n}, c) for c in execs)]
    chk.count('class-context assignments before a method body', len(entry), 1)
    from ..kcanon import Canon
    _cn = Canon(prog, f)
    for n, r in entry:
        r = SX.strip(_cn.expand(r))       # the value may pass through a local (a value parameter of an inlined helper)
        ok = _member_of(r, 'owner', mp)
        if not ok and SX.is_node(r) and r.get('k') == 'cond':
            c, t = SX.strip(r['c']), SX.strip(r['t'])
            ok = _member_of(c, 'owner', mp) and _member_of(t, 'owner', mp)
        chk.ob('R08.3', f, n.ln or f.ln, ok,
               'a method body runs in the class context of the class that declares it (method->owner): bare field and method names were bound there by the analyser; '
               'the receiver\'s static class at the call site is a different class for inherited methods and for overrides reached through the vtable (context = %s)' %
               SX.show(r)[:70], key='context:declaring-class')


# ------------------------------------------------------------------------------------------------------
def _overload_walk_fns(prog, R):
    out = []
    for name in ('RuntimeEvaluator::findMethod', 'SemanticAnalyser::findMethodInHierarchy'):
        out.append(prog.fn(name))
    return out


def _walks(prog, chk, R):
    n = 0
    for f in _overload_walk_fns(prog, R):
        g = prog.cfg(f)
        pushes = [c for c in g.calls(lambda e: e['k'] == 'mcall' and SX.short(e.get('callee', '')) in ('push_back', 'emplace_back'))]
        if not pushes:
            # single-pass selection: no candidate list — the point where a candidate's conversion cost is consumed (handed to a
            # best-cost tracker or compared with the best so far) plays the role of the collection point
            costs = {v['id'] for v in SX.walk(f.body, into_lambdas=False) if v['k'] == 'var' and 'optional<int>' in (v.get('type') or '')}
            uses = []
            for c in g.nodes:
                if c.kind in ('call', 'cond', 'assign') and SX.is_node(c.e) and c.id in set().union(*[g.reachable([h]) & g.reachable([h], forward=False) for h in g.loops()] or [set()]):
                    if any(x.get('k') in ('opcall', 'un') and x.get('op') == '*' and any(y.get('k') == 'ref' and y.get('id') in costs for y in SX.walk(x)) for x in SX.walk(c.e)) or \
                            any(x.get('k') == 'mcall' and SX.short(x.get('callee', '')) == 'value' and SX.strip(x.get('obj')).get('id') in costs for x in SX.walk(c.e)):
                        uses.append(c)
            pushes = uses[:1]
        if not pushes:
            chk.ob('R08.4', f, f.ln, False, '%s collects the applicable overloads of every hierarchy level before choosing (no reachable candidate collection found)' % f.short,
                   key='walk:collects:' + f.short)
            continue
        for p in pushes:
            heads = [h for h in g.loops() if g.dominates(h, p) and h.id in g.reachable([p])]
            if not heads:
                raise AnalysisBroken('%s: candidates are not collected in a loop' % f.short)
            outer = min(heads, key=lambda h: len(g.dominators(h)))
            body = (g.reachable([outer]) & g.reachable([outer], forward=False)) | {outer.id}
            # the cursor: the variable the outer loop's own condition tests / the variable stepped by `x = x->base` or `x = findClass(x->base)`
            cursors = set()
            for nn, l, r, op in g.writes():
                if nn.id in body and SX.is_node(SX.strip(l)) and SX.strip(l).get('k') == 'ref' and \
                        _mentions(r, lambda x: x.get('k') == 'member' and x.get('name') == 'base' and _ref_is(x.get('base'), SX.strip(l).get('id'))):
                    cursors.add(SX.strip(l)['id'])
            if not cursors:
                chk.ob('R08.4', f, outer.ln or f.ln, False, 'the overload walk advances to the base class at each step (no `cur = cur->base` style step found in the walk loop)',
                       key='walk:advances:' + f.short)
                continue
            n += 1
            bad = []
            for b in [g.nodes[i] for i in body]:
                for s in b.succ:
                    if s.id in body:
                        continue
                    # b leaves the loop towards s: the decision is the nearest branch edge at or above b inside the loop
                    dec = b if b.kind in ('edge', 'cond') else next((d for d in g.dominators(b) if d.kind == 'edge' and d.id in body), None)
                    if dec is None:
                        bad.append('unconditional exit at line %s' % b.ln)
                        continue
                    refs = [x for x in SX.walk(dec.e) if x.get('k') == 'ref' and x.get('kind') in ('var', 'param', 'binding')]
                    if not refs or any(x.get('id') not in cursors for x in refs):
                        bad.append('`%s` (line %s)' % (SX.show(dec.e)[:50], dec.ln or b.ln))
            chk.ob('R08.4', f, outer.ln or f.ln, not bad,
                   'the overload walk visits every level of the hierarchy: it ends only when the hierarchy is exhausted, never because of what was found so far '
                   '(the analyser chose the cheapest candidate over all levels); other exits: %s' % sorted(set(bad)), key='walk:exhaustive:' + f.short)
            # hidden signatures: a candidate whose signature was seen at a nearer level is skipped (override hides the base version)
            hid = [c for c in g.calls(lambda e: e['k'] == 'mcall' and SX.short(e.get('callee', '')) == 'count') if c.id in body and g.dominates(c, p)]
            ins = [c for c in g.calls(lambda e: e['k'] == 'mcall' and SX.short(e.get('callee', '')) == 'insert') if c.id in body]
            # … or the single-call idiom: `if (!seen.insert(sig).second) continue;`
            one = [c for c in g.nodes if c.kind == 'cond' and c.id in body and g.dominates(c, p) and
                   _mentions(c.e, lambda x: x.get('k') == 'mcall' and SX.short(x.get('callee', '')) == 'insert') and
                   _mentions(c.e, lambda x: x.get('k') == 'member' and x.get('name') == 'second')]
            if one:
                hid, ins = one, one
            chk.ob('R08.4', f, p.ln or f.ln, bool(hid) and bool(ins), 'a signature already seen at a nearer level hides the base version (override does not compete with the method it overrides)',
                   key='walk:hidden:' + f.short)
    chk.count('overload walks', n, 2)


def _selection_sites(prog, chk, R):
    """every `best-cost` selection loop: strict improvement resets the tie flag, equality sets it, the flag is consulted afterwards"""
    fns = [f for f in prog.functions if f.body and (f.file.endswith('runtime_evaluator.cpp') or f.file.endswith('semantic_analyser.cpp'))]
    nsites = 0
    for f in fns:
        bests = [v for v in SX.walk(f.body, into_lambdas=False) if v['k'] == 'var' and v.get('type') == 'int' and SX.is_node(v.get('init')) and
                 'max' in SX.show(v['init']) and 'numeric_limits' in str(v['init'])]
        if not bests:
            continue
        g = prog.cfg(f)
        for bv in bests:
            nsites += 1
            bid = bv['id']
            lt = [c for c in g.nodes if c.kind == 'cond' and (lambda cp: cp and cp[0] == '<' and _ref_is(cp[2], bid))(SX.cmp_parts(c.e) if SX.is_node(c.e) else None)]
            if len(lt) != 1:
                chk.ob('R08.4', f, bv.get('ln', f.ln), False, 'selection loop compares each candidate cost with the best so far using `<` (found %d such tests)' % len(lt),
                       key='select:shape:%s:%s' % (f.short, bv.get('ln')))
                continue
            c = lt[0]
            cost = SX.show(SX.cmp_parts(c.e)[1])
            tplus, tminus = _edges_of(g, c, True)[0], _edges_of(g, c, False)[0]
            # strict improvement: best := cost, and the tie flag is cleared
            plus_nodes = _region(g, tplus)
            upd = [n for n, l, r, op in g.writes() if n.id in plus_nodes and _ref_is(l, bid) and SX.show(r) == cost]
            flags = {}
            for n, l, r, op in g.writes():
                l0, r0 = SX.strip(l), SX.strip(r)
                if SX.is_node(l0) and l0.get('k') == 'ref' and SX.is_node(r0) and r0.get('k') == 'bool':
                    flags.setdefault(l0['id'], []).append((n, r0['v']))
                if SX.is_node(l0) and l0.get('k') == 'member' and l0.get('q') and SX.is_node(SX.strip(l0.get('base'))) and SX.strip(l0['base']).get('k') == 'ref' and \
                        SX.is_node(r0) and r0.get('k') == 'bool':
                    flags.setdefault(('field', l0['q']), []).append((n, r0['v']))       # the flag is a field of a small result record
            eq = [e for e in g.nodes if e.kind == 'cond' and (lambda cp: cp and cp[0] == '==' and {SX.show(cp[1]), SX.show(cp[2])} == {cost, bv['name']})(
                SX.cmp_parts(e.e) if SX.is_node(e.e) else None) and g.dominates(tminus, e)]
            tie = None
            for fid, ws in flags.items():
                sets_true = [n for n, v in ws if v and eq and n.id in _region(g, _edges_of(g, eq[0], True)[0])]
                clears = [n for n, v in ws if not v and n.id in plus_nodes]
                if sets_true and clears:
                    tie = fid
            used = False
            if tie is not None:
                after = g.reachable([c]) - (g.reachable([c]) & g.reachable([c], forward=False))
                for d in g.nodes:
                    if d.id in after and d.kind in ('cond', 'return') and isinstance(d.e, dict) and _mentions(d.e, lambda x: (x.get('k') == 'ref' and x.get('id') == tie) or (
                            isinstance(tie, tuple) and x.get('k') == 'member' and x.get('q') == tie[1])):
                        used = True
            chk.ob('R08.4', f, c.ln or f.ln, bool(upd) and bool(eq) and tie is not None and used,
                   'selection takes the unique minimum: `<` updates the best cost and clears the tie flag, `==` sets it, and the flag decides the outcome afterwards '
                   '(update:%s equal-test:%s tie-flag:%s consulted:%s)' % (bool(upd), bool(eq), tie is not None, used), key='select:%s:%s' % (f.short, _nth(f, bv)))
    # the same bookkeeping kept in a small record (`struct BestCostTracker { int bestCost = max; bool ambiguous; bool offer(int cost); }`)
    for rname, rec in prog.facts.records.items():
        if not rec.get('file', '').endswith(('runtime_evaluator.cpp', 'semantic_analyser.cpp', 'runtime_evaluator.hpp', 'semantic_analyser.hpp')):
            continue
        bests_f = [x['name'] for x in rec.get('fields', []) if x['type'] == 'int' and SX.is_node(x.get('init')) and 'max' in SX.show(x['init']) and 'numeric_limits' in str(x['init'])]
        bools_f = [x['name'] for x in rec.get('fields', []) if x['type'] == 'bool']
        for bname in bests_f:
            for m in [m_ for m_ in prog.methods_of(rname) if m_.body and m_.kind == 'method']:
                g = prog.cfg(m)
                lt = [c for c in g.nodes if c.kind == 'cond' and (lambda cp: cp and cp[0] == '<' and SX.is_this_member(SX.strip(cp[2]), bname))(SX.cmp_parts(c.e) if SX.is_node(c.e) else None)]
                if len(lt) != 1:
                    continue
                nsites += 1
                c = lt[0]
                cost = SX.show(SX.cmp_parts(c.e)[1])
                tplus, tminus = _edges_of(g, c, True)[0], _edges_of(g, c, False)[0]
                plus_nodes = _region(g, tplus)
                upd = [n for n, l, r, op in g.writes() if n.id in plus_nodes and SX.is_this_member(SX.strip(l), bname) and SX.show(r) == cost]
                eq = [e for e in g.nodes if e.kind == 'cond' and (lambda cp: cp and cp[0] == '==' and SX.show(cp[1]) == cost and SX.is_this_member(SX.strip(cp[2]), bname))(
                    SX.cmp_parts(e.e) if SX.is_node(e.e) else None) and g.dominates(tminus, e)]
                tie = None
                for t_ in bools_f:
                    ws = [(n, SX.strip(r)) for n, l, r, op in g.writes() if SX.is_this_member(SX.strip(l), t_) and SX.is_node(SX.strip(r)) and SX.strip(r).get('k') == 'bool']
                    sets_true = [n for n, r in ws if r['v'] and eq and n.id in _region(g, _edges_of(g, eq[0], True)[0])]
                    clears = [n for n, r in ws if not r['v'] and n.id in plus_nodes]
                    if sets_true and clears:
                        tie = t_
                used = False
                if tie is not None:
                    q = rname + '::' + tie
                    for f2 in fns:
                        if f2 is m:
                            continue
                        g2 = prog.cfg(f2)
                        if any(d.kind in ('cond', 'return') and isinstance(d.e, dict) and _mentions(d.e, lambda x: x.get('k') == 'member' and x.get('q') == q) for d in g2.nodes):
                            used = True
                            break
                chk.ob('R08.4', m, c.ln or m.ln, bool(upd) and bool(eq) and tie is not None and used,
                       'selection takes the unique minimum: `<` updates the best cost and clears the tie flag, `==` sets it, and the flag decides the outcome afterwards '
                       '(update:%s equal-test:%s tie-flag:%s consulted:%s)' % (bool(upd), bool(eq), tie is not None, used), key='select:%s::%s' % (rname.split('::')[-1], m.short))
    chk.count('minimum-cost selection sites', nsites, 2)


def _nth(f, v):
    same = [x for x in SX.walk(f.body, into_lambdas=False) if x['k'] == 'var' and x.get('name') == v.get('name')]
    return [i for i, x in enumerate(same) if x is v][0]


def _region(g, edge):
    """nodes dominated by a branch edge"""
    return {n.id for n in g.nodes if g.dominates(edge, n)}


# ------------------------------------------------------------------------------------------------------
VT = 'bloch::compiler::ValueType::'
RT = 'bloch::runtime::Value::Type::'
HIER = {'A': '', 'B': 'A', 'D': 'B', 'C': ''}     # D → B → A ;  C unrelated
PRIMS = ['Int', 'Long', 'Float', 'Bit', 'Boolean', 'String', 'Char', 'Qubit']


def _documented(en, an):
    """documented conversion cost: exact 0, int→long 1, subclass = inheritance distance, null → class reference 3"""
    if an == 'null':
        return 3 if en in HIER else None
    if en == an:
        return 0
    if en == 'Long' and an == 'Int':
        return 1
    if en in HIER and an in HIER:
        d, cur = 0, an
        while cur:
            if cur == en:
                return d
            cur = HIER[cur]
            d += 1
    return None


def _cost_tables(prog, chk, R):
    rt = R.ev_method('valueConversionCost')
    an = prog.fn('SemanticAnalyser::conversionCost')

    def rt_findClass(it, e, env):
        n = it.expr(SX.real_args(e)[0], env)
        return _rt_class(n) if n in HIER else None

    def an_findClass(it, e, env):
        n = it.expr(SX.real_args(e)[0], env)
        if n in HIER:
            return Obj(name=n, base=HIER[n], typeParams=[], methods={}, fields={})
        return None
    names = PRIMS + list(HIER) + ['A[]', 'Int[]']
    acts = names + ['null']
    bad_rt, bad_an, bad_pair = [], [], []
    n = 0
    for en, a_n in itertools.product(names, acts):
        n += 1
        try:
            cr = Interp(prog, {'findClass': rt_findClass}).call_fn_env(rt, [_rt_type(en), _rt_value(a_n)], {'this': Obj()})
            ca = Interp(prog, {'findClass': an_findClass, 'getTypeParamBound': lambda it, e, env: None}).call_fn_env(an, [_an_type(en), _an_type(a_n)], {'this': Obj()})
        except Unsupported as ex:
            raise AnalysisBroken('abstract evaluation of the conversion-cost functions: %s' % ex)
        want = _documented(en, a_n)
        if cr != want:
            bad_rt.append('%s ← %s: %s (documented %s)' % (en, a_n, cr, want))
        if ca != want:
            bad_an.append('%s ← %s: %s (documented %s)' % (en, a_n, ca, want))
        if cr != ca:
            bad_pair.append('%s ← %s: runtime %s, analyser %s' % (en, a_n, cr, ca))
    chk.extra['cost_pairs'] = n
    chk.ob('R08.4', rt, rt.ln, not bad_rt, 'valueConversionCost equals the documented costs on %d (parameter, argument) pairs; mismatches: %s' % (n, bad_rt[:6]), key='cost:runtime')
    chk.ob('R08.4', an, an.ln, not bad_an, 'conversionCost equals the documented costs on %d pairs; mismatches: %s' % (n, bad_an[:6]), key='cost:analyser')
    chk.ob('R08.4', rt, rt.ln, not bad_pair, 'the runtime and the analyser assign the same cost to every pair (same overload wins); mismatches: %s' % bad_pair[:6], key='cost:agree')
    # total cost = sum over parameters, arity must match (both sides)
    for f in (R.ev_method('argumentsConversionCost'), prog.fn('SemanticAnalyser::paramsConversionCost')):
        g = prog.cfg(f)
        p0, p1 = f.params[0]['id'], f.params[1]['id']
        arity = any(c.kind == 'cond' and (lambda cp: cp and cp[0] in ('!=', '==') and 'size()' in SX.show(cp[1]) and 'size()' in SX.show(cp[2]))(
            SX.cmp_parts(c.e) if SX.is_node(c.e) else None) for c in g.nodes)
        acc = [nn for nn, l, r, op in g.writes() if op == '+=' and SX.is_node(SX.strip(l)) and SX.strip(l).get('k') == 'ref']
        chk.ob('R08.4', f, f.ln, arity and len(acc) == 1 and any(h.id in g.reachable([acc[0]]) for h in g.loops()),
               'the cost of a candidate is the sum of its per-argument costs, candidates of a different arity are inapplicable', key='cost:sum:' + f.short)


def _rt_class(n):
    return Obj(name=n, base=_rt_class(HIER[n]) if HIER[n] else None)


def _rt_type(n):
    if n in PRIMS:
        return Obj(kind=RT + n, className='', typeArgs=[])
    if n in HIER:
        return Obj(kind=RT + 'Object', className=n, typeArgs=[])
    if n == 'A[]':
        return Obj(kind=RT + 'ObjectArray', className='A', typeArgs=[])
    if n == 'Int[]':
        return Obj(kind=RT + 'IntArray', className='', typeArgs=[])
    raise KeyError(n)


def _rt_value(n):
    if n == 'null':
        return Obj(type=RT + 'Object', className='', objectValue=None)
    if n in PRIMS:
        return Obj(type=RT + n, className='', objectValue=None)
    if n in HIER:
        # the stamp is the static type; the object's dynamic class is the most derived class below it (the cost must not depend on it)
        return Obj(type=RT + 'Object', className=n, objectValue=Obj(cls=_rt_class('D' if n in ('A', 'B', 'D') else n)))
    if n == 'A[]':
        return Obj(type=RT + 'ObjectArray', className='A', objectValue=None)
    if n == 'Int[]':
        return Obj(type=RT + 'IntArray', className='', objectValue=None)
    raise KeyError(n)


def _an_type(n):
    def ti(value='Unknown', cls='', targs=None):
        return Obj(value=VT + value, className=cls, typeArgs=list(targs or []), isTypeParam=False)
    if n == 'null':
        return ti('Null')
    if n in PRIMS:
        return ti(n)
    if n in HIER:
        return ti(cls=n)
    if n == 'A[]':
        return ti(cls='A[]', targs=[ti(cls='A')])
    if n == 'Int[]':
        return ti(cls='int[]', targs=[ti('Int')])
    raise KeyError(n)


# ------------------------------------------------------------------------------------------------------
def _static_stamps(prog, chk, R, ex, ev, rule='R08.4'):
    """Value::className is the static-type stamp the runtime overload/lookup machinery reads (valueConversionCost, member-call
    static class).  `assign` keeps a slot's stamp when a new object is stored.  The sites that *create* a slot from a declared
    type must establish it: declarations with an initialiser, parameter binding, returned values."""
    stampers = _stamp_functions(prog, R)
    chk.count('functions that stamp a value with a declared class', len(stampers), 1)
    sites = []
    # (a) parameter binding in activations; (b) local declarations in exec
    for f in [R.ev_method(n) for n in ('call', 'callMethod', 'runConstructorChain')] + [ex]:
        g = prog.cfg(f)
        for n, l, r, op in g.writes():
            l0 = SX.strip(l)
            if not (SX.is_node(l0) and l0.get('k') == 'index' and 'm_env' in SX.show(l0.get('base')) and 'back()' in SX.show(l0.get('base'))):
                continue
            key = SX.show(l0.get('i'))
            if '"this"' in key or 'this' == key.strip('"'):
                continue
            r0 = SX.strip(r)
            items = r0.get('items') if SX.is_node(r0) and r0.get('k') == 'initlist' else (_args(r0) if SX.is_node(r0) and r0.get('k') == 'construct' else None)
            if not items:
                continue
            sites.append((f, g, n, SX.strip(items[0]), key))
    chk.count('slot-creating bindings (parameters, declarations)', len(sites), 4)
    for f, g, n, val, key in sites:
        ok = _stamped(prog, g, n, val, stampers)
        chk.ob(rule, f, n.ln or f.ln, ok,
               'the value bound to declared slot %s carries the declared class as its static-type stamp (the runtime re-resolves overloads and looks members up from the stamp; '
               'with the dynamic class there, `Base b = new Derived(); k.f(b)` runs f(Derived) although the analyser resolved f(Base))' % key[:40],
               key='stamp:%s:%s' % (f.short, key[:30]))
    # (b') values returned from functions/methods with a declared return type
    nret = 0
    for f in [R.ev_method(n) for n in ('call', 'callMethod')]:
        g = prog.cfg(f)
        for rn in [x for x in g.nodes if x.kind == 'return' and SX.is_node(x.e.get('e'))]:
            v = SX.strip(rn.e['e'])
            if not (v.get('k') == 'ref' and v.get('kind') == 'var'):
                continue
            nret += 1
            ok = _stamped(prog, g, rn, v, stampers)
            chk.ob(rule, f, rn.ln or f.ln, ok, 'the value returned by %s carries the declared return class as its stamp (`k.f(mk())` with mk() declared to return Base resolves f(Base))' % f.short,
                   key='stamp:return:' + f.short)
    chk.count('activation results', nret, 2)
    # (b'') stores into an existing typed slot (fields, statics, variables): the stored copy takes the slot's static class — either
    # stamped from the field's declared type, or keeping the stamp the slot already has.  The sibling store paths must agree:
    # `guest = d;` (bare field name), `this.guest = d;`, a static, a local.
    nst = 0
    slot_fns = [x for x in prog.functions if x.kind == 'function' and x.file.endswith('runtime_evaluator.cpp') and x.body and len(x.params) == 2
                and x.params[0]['type'].replace(' ', '').endswith('Value&') and 'const' not in x.params[0]['type']
                and x.params[1]['type'].replace(' ', '') in ('constbloch::runtime::Value&', 'constValue&') and (x.ret or 'void') == 'void']
    slot_names = {x.name for x in slot_fns if x.key not in stampers}
    for f in [x for x in R.ev_methods() if x.body]:
        g = prog.cfg(f)
        stores = []
        for c in g.calls(lambda e: e['k'] == 'call' and e.get('callee') in slot_names):
            stores.append((c, SX.strip(_args(c.e)[1])))
        if f.short == 'assign':
            for n, l, r, op in g.writes():
                l0 = SX.strip(l)
                if op == '=' and SX.is_node(l0) and l0.get('k') == 'member' and l0.get('name') == 'value' and 'Value' in (l0.get('t') or ''):
                    stores.append((n, SX.strip(r)))
        for node, val in stores:
            nst += 1
            ok = _stamped(prog, g, node, val, stampers)
            if not ok and SX.is_node(val) and val.get('k') == 'ref' and val.get('kind') == 'var':
                # keeps the slot's own stamp: `newVal.className = existing.className` (under the both-are-objects guard) on a path to the store
                back = g.reachable([node], forward=False)
                for wn, l, r, op in g.writes():
                    if wn.id in back and op == '=' and _member_of(l, 'className', val.get('id')) and _mentions(r, lambda x: x.get('k') == 'member' and x.get('name') == 'className'):
                        ok = True
            chk.ob(rule, f, node.ln or f.ln, ok,
                   'the value stored into an existing slot (%s) takes the slot\'s static class (stamped from the declared type, or keeping the slot\'s stamp): '
                   'with the dynamic class there, a later `k.f(slot)` runs f(Derived) although the analyser resolved f(Base)' % SX.show(val)[:30],
                   key='stamp:store:%s:%s' % (f.short, SX.show(val)[:20]))
    chk.count('stores into existing slots', nst, 4)
    # (b''') … and no statement erases a slot: storing a default-constructed Value (not a null *reference*) drops the slot's kind and
    # with it the stamp — the next assignment then keeps the dynamic class (`destroy a; a = new Dog(); k.take(a)` with a declared
    # Animal ran take(Dog))
    ner = 0
    for f in [ex, ev]:
        g = prog.cfg(f)

        def empty_value(v):
            v = SX.strip(v)
            return SX.is_node(v) and ((v.get('k') == 'initlist' and not v.get('items')) or (v.get('k') == 'construct' and not _args(v) and 'Value' in (v.get('type') or '')))
        for c in g.calls(lambda e: (e['k'] == 'mcall' and e.get('callee') == R.ev_method('assign').name) or (e['k'] == 'call' and e.get('callee') in slot_names)):
            a = _args(c.e)
            if len(a) < 2:
                continue
            ner += 1
            chk.ob(rule, f, c.ln or f.ln, not empty_value(a[1]),
                   'a statement stores a default-constructed Value into a declared slot: the slot loses its kind and its static class, so the next object assigned to it keeps '
                   'its dynamic class (`destroy a; a = new Dog(); k.take(a)` runs take(Dog) for a declared Animal)', key='stamp:erase:%s:%s' % (f.short, SX.show(a[0])[:20]))
        for n, l, r, op in g.writes():
            l0 = SX.strip(l)
            if op == '=' and SX.is_node(l0) and l0.get('k') in ('index', 'opcall') and any(x.get('k') == 'member' and x.get('name') in ('fields', 'staticStorage') for x in SX.walk(l0)) \
                    and 'Value' in (l0.get('t') or ''):
                ner += 1
                chk.ob(rule, f, n.ln or f.ln, not empty_value(r),
                       'a statement overwrites a field slot with a default-constructed Value: the slot loses its kind and its static class, so the next object assigned to it by '
                       'bare name keeps its dynamic class', key='stamp:erase:%s:%s' % (f.short, SX.show(l0)[:30]))
    chk.count('statement-level slot stores examined for erasure', ner, 3)
    if rule != 'R08.4':
        return      # (the binding-site part is what other properties share; labels, siblings and the null cost are C08's own)
    _signature_labels(prog, chk, R)
    _base_inheritance_siblings(prog, chk, R)
    # (c) a stamped null reference is costed by its stamp, only the literal null costs 3
    rt = R.ev_method('valueConversionCost')
    nulls = [i_ for i_ in SX.walk(rt.body, into_lambdas=False) if i_['k'] == 'if' and
             _mentions(i_.get('c'), lambda x: x.get('k') == 'call' and SX.short(x.get('callee', '')) == 'isNullReference')]
    for i_ in nulls:
        ok = _mentions(i_['c'], lambda x: x.get('k') == 'member' and x.get('name') == 'className') or \
            any(_mentions(_if_cond(o), lambda x: x.get('k') == 'member' and x.get('name') == 'className') for o, pol in _syn_guards(rt, i_))
        chk.ob(rule, rt, i_.get('ln', rt.ln), ok,
               'only an unstamped null (the literal) takes the null cost; a null held in a variable of declared class type is costed by that type '
               '(`Base n = null; k.g(n)` with g(Base)/g(Other) is otherwise ambiguous at run time and the call is silently dropped)', key='stamp:null-cost')
    chk.count('null-cost tests', len(nulls), 1)



def _kind_label_map(prog, fn, depth=0):
    """{enumerator short name → label} of a function that renders a type descriptor by switching over its `.kind`; labels:
    ('lit', text) for a literal, ('dyn', kind) for anything computed (assumed distinct), plus '*' for the default branch."""
    sw = [n for n in SX.walk(fn.body, into_lambdas=False) if n['k'] == 'switch' and SX.is_node(SX.strip(n['c'])) and SX.strip(n['c']).get('k') == 'member'
          and SX.strip(n['c'])['name'] == 'kind']
    if len(sw) != 1:
        raise AnalysisBroken('%s: expected one switch over the kind of a type descriptor, found %d' % (fn.short, len(sw)))
    items = sw[0]['body']['body'] if sw[0]['body'].get('k') == 'block' else [sw[0]['body']]
    groups = []      # ([kinds], [stmts])
    cur = None
    for it in items:
        labels = []
        s = it
        while SX.is_node(s) and s.get('k') in ('case', 'default'):
            labels.append(SX.strip(s['v'])['name'].split('::')[-1] if s['k'] == 'case' else '*')
            s = s.get('s')
        if labels:
            if cur is not None and not cur[2]:
                cur[0].extend(labels)      # fall-through from a group that has not ended
            else:
                cur = [labels, [], False]
                groups.append(cur)
            if s is not None:
                cur[1].append(s)
        elif cur is not None:
            cur[1].append(it)
        if cur is not None and any(x['k'] in ('break', 'return') for st in cur[1][-1:] for x in SX.walk(st, into_lambdas=False)):
            cur[2] = True
    out = {}
    for kinds, stmts, _ in groups:
        lits = []
        calls = []
        for st in stmts:
            for x in SX.walk(st, into_lambdas=False):
                if x['k'] == 'str':
                    lits.append(x['v'])
                if x['k'] in ('call', 'mcall') and x.get('callee') and prog.by_name.get(x['callee']):
                    calls.append(x['callee'])
        for k in kinds:
            if calls and not lits and depth < 2:
                sub = _kind_label_map(prog, prog.by_name[calls[0]][0], depth + 1)
                out[k] = ('via', calls[0], sub)
            elif len(lits) == 1 and not calls:
                out[k] = ('lit', lits[0])
            else:
                out[k] = ('dyn', k)
    return out


def _label_of(m, kind):
    v = m.get(kind, m.get('*'))
    if v is None:
        return ('none', kind)
    if v[0] == 'via':
        return _label_of(v[2], kind)
    if v[0] == 'dyn':
        return ('dyn', kind)
    return v


def _signature_labels(prog, chk, R):
    """Overloads of one name are told apart at run time by a signature label (the hierarchy walk of findMethod skips a candidate whose
    label it has already seen: an override hides the base version).  Two overloads whose labels coincide hide each other: only the
    first is ever a candidate, and a call that needs the second finds no method and is dropped.  So the label is injective over
    the kinds a parameter can have (every Value::Type except the two that are not parameter types: Void, ClassRef)."""
    enum = [e for n, e in prog.facts.enums.items() if n.endswith('runtime::Value::Type')]
    if not enum:
        raise AnalysisBroken('Value::Type enumeration not found')
    kinds = [(c if isinstance(c, str) else c.get('name')).split('::')[-1] for c in enum[0]['constants']]
    kinds = [k for k in kinds if k not in ('Void', 'ClassRef')]
    fns = set()
    for f in prog.in_file('runtime_evaluator.cpp'):
        if not f.body:
            continue
        for n in SX.walk(f.body, into_lambdas=False):
            w = SX.write_target(n)
            if w and w[2] == '=' and SX.is_node(SX.strip(w[0])) and SX.strip(w[0]).get('k') == 'member' and SX.strip(w[0])['name'] == 'signature':
                r = SX.strip(w[1])
                if SX.is_node(r) and r.get('k') == 'call' and prog.by_name.get(r.get('callee')):
                    fns.add(r['callee'])
    chk.count('functions that label a runtime signature', len(fns), 1)
    for name in sorted(fns):
        fn = prog.by_name[name][0]
        m = _kind_label_map(prog, fn)
        by = {}
        for k in kinds:
            by.setdefault(_label_of(m, k), []).append(k)
        clash = {('%s' % (l[1],)): ks for l, ks in by.items() if len(ks) > 1}
        chk.ob('R08.4', fn, fn.ln, not clash,
               'the signature label distinguishes every kind of parameter type (%d kinds): overloads whose labels coincide hide each other in the hierarchy walk, and a call that '
               'needs the hidden one is dropped; same label for: %s' % (len(kinds), clash), key='signature-label:' + fn.short)



def _base_inheritance_siblings(prog, chk, R):
    """The runtime class table is built in more than one place (ordinary classes in the class-table pass, specialisations of generic
    classes on demand).  Each builder starts a class from its base by copying members (`rc->M = rc->base->M`).  The builders must
    copy the same members: what one of them inherits and the other does not (a layout table, the dispatch table, a "has a destructor
    somewhere in the chain" flag) differs between a class and the specialisation of a generic class with the same base."""
    sites = {}
    for f in prog.in_file('runtime_evaluator.cpp', with_lambdas=False):
        if not f.body:
            continue
        for n in SX.walk(f.body, into_lambdas=False):
            w = SX.write_target(n)
            if not w or w[2] != '=':
                continue
            l, r = SX.strip(w[0]), SX.strip(w[1])
            if not (SX.is_node(l) and l.get('k') == 'member' and SX.is_node(r) and r.get('k') == 'member' and l['name'] == r['name']):
                continue
            if 'RuntimeClass' not in (SX.strip(l['base']).get('t') or '') and 'RuntimeClass' not in (l.get('q') or ''):
                continue
            rb = SX.strip(r['base'])
            while SX.is_node(rb) and rb.get('k') == 'opcall' and rb.get('op') in ('->', '*'):
                rb = SX.strip(rb['args'][0])
            via_base = SX.is_node(rb) and ((rb.get('k') == 'member' and rb.get('name') == 'base') or (rb.get('k') == 'ref' and 'base' in rb.get('name', '').lower()))
            if via_base:
                sites.setdefault(f.name, {})[l['name']] = n.get('ln', f.ln)
    chk.count('builders of runtime classes that inherit members from the base', len(sites), 2)
    allm = set()
    for m in sites.values():
        allm |= set(m)
    for fn, m in sorted(sites.items()):
        f = prog.by_name[fn][0]
        missing = sorted(allm - set(m))
        chk.ob('R08.1', f, f.ln, not missing,
               '%s starts a class from its base without copying %s, which another builder of runtime classes does copy: a class and a specialisation of a generic class with the same '
               'base then differ in what they inherit' % (f.short, missing), key='base-copy-siblings:' + f.short)



def _fresh_return_flag(prog, chk, R, f):
    """R08.2 — every destructor body of the chain starts with the has-return flag cleared: a `return;` in a derived destructor leaves the flag
    set, and a body loop entered with it set stops after its first statement (the rest of the base destructor is skipped silently).  For
    each loop that runs body statements and breaks on the flag: no path leads from an executed statement, out of that loop, back to its
    head without passing a `flag = false`."""
    ex = R.ev_method('exec')
    g = prog.cfg(f)
    n = 0
    for lp in SX.walk(f.body, into_lambdas=False):
        if lp.get('k') not in ('for', 'forrange', 'while'):
            continue
        runs = [c for c in SX.walk(lp['body'], into_lambdas=False) if c.get('k') == 'mcall' and c.get('callee') == ex.name]
        if not runs or any(l2 is not lp and l2.get('k') in ('for', 'forrange', 'while') and any(c is runs[0] for c in SX.walk(l2.get('body'), into_lambdas=False))
                           for l2 in SX.walk(lp['body'], into_lambdas=False)):
            continue      # (the innermost loop around the statement execution)
        flag = None
        for i_ in SX.walk(lp['body'], into_lambdas=False):
            c_ = SX.strip(i_.get('c')) if i_.get('k') == 'if' else None
            if SX.is_node(c_) and SX.is_this_member(c_) and c_.get('t') == 'bool' and any(b.get('k') == 'break' for b in SX.walk(i_['t'], into_lambdas=False)):
                flag = c_['name']
        if flag is None:
            continue
        n += 1
        inside = {id(y) for y in SX.walk(lp, into_lambdas=False)}
        head = [x for x in g.nodes if x.kind == 'loophead' and x.e is lp]
        clears = [x for x, l, r, op in g.writes() if op == '=' and SX.is_this_member(SX.strip(l), flag) and SX.is_node(SX.strip(r)) and SX.strip(r).get('v') is False]
        execs = [x for x in g.nodes if x.kind == 'call' and SX.is_node(x.e) and any(y is runs[0] for y in SX.walk(x.e, into_lambdas=False))]
        if not head or not execs:
            continue
        after = g.reachable(execs, avoid=clears)
        outside = [x for x in g.nodes if x.id in after and SX.is_node(x.e) and x.kind not in ('entry', 'exit')
                   and not any(id(y) in inside for y in SX.walk(x.e, into_lambdas=False))]     # (synthetic loop-test nodes wrap the loop's own range)
        back = g.reachable(outside, avoid=clears) if outside else set()
        ok = head[0].id not in back
        chk.ob('R08.2', f, lp.get('ln', f.ln), ok and bool(clears),
               'the body loop of %s is entered with %s cleared: after a body was executed, every way back to the loop from outside it passes `%s = false` (a `return;` in a derived '
               'destructor otherwise cuts every base destructor short after its first statement)' % (f.short, flag, flag), key='fresh-return-flag:' + f.short)
    return n


def _stamp_functions(prog, R):
    """functions that assign <value param>.className from declared type information (a RuntimeTypeInfo / Type* parameter), and
    functions that hand their value parameter on to one of those (fixpoint) → {key: (index of the value parameter, fn)}"""
    out = {}
    cands = R.ev_methods() + [x for x in prog.functions if x.file.endswith('runtime_evaluator.cpp') and x.kind == 'function']
    for f in cands:
        if not f.body:
            continue
        for n in SX.walk(f.body, into_lambdas=False):
            w = SX.write_target(n)
            if not w:
                continue
            l = SX.strip(w[0])
            if SX.is_node(l) and l.get('k') == 'member' and l.get('name') == 'className' and SX.is_node(SX.strip(l.get('base'))) and SX.strip(l['base']).get('k') == 'ref' \
                    and SX.strip(l['base']).get('kind') == 'param':
                vp = SX.strip(l['base'])['id']
                vpar = [p for p in f.params if p['id'] == vp]
                tp = [p for p in f.params if p['id'] != vp and ('RuntimeTypeInfo' in p['type'] or 'Type *' in p['type'])]
                src_ok = _mentions(w[1], lambda x: x.get('k') == 'ref' and x.get('id') in {p['id'] for p in tp})
                if tp and vpar and vpar[0]['type'].endswith('&') and 'const' not in vpar[0]['type'] and src_ok:
                    out[f.key] = ([i for i, p in enumerate(f.params) if p['id'] == vp][0], f)
    changed = True
    while changed:
        changed = False
        for f in cands:
            if not f.body or f.key in out:
                continue
            for n in SX.walk(f.body, into_lambdas=False):
                if n['k'] not in ('call', 'mcall'):
                    continue
                for t in prog.resolve(n):
                    if t.key in out:
                        idx = out[t.key][0]
                        a = _args(n)
                        if idx < len(a):
                            x = SX.strip(a[idx])
                            if SX.is_node(x) and x.get('k') == 'ref' and x.get('kind') == 'param':
                                vpar = [p for p in f.params if p['id'] == x['id']]
                                if vpar and vpar[0]['type'].endswith('&') and 'const' not in vpar[0]['type']:
                                    out[f.key] = ([i for i, p in enumerate(f.params) if p['id'] == x['id']][0], f)
                                    changed = True
    return out


def _stamped(prog, g, node, val, stampers):
    """val (the bound expression) is a call to a stamping function, or a variable that was passed to one / whose className was
    assigned on every path from its definition to `node`"""
    while SX.is_node(val) and val.get('k') == 'call' and (val.get('callee') or '').startswith('std::move') and _args(val):
        val = SX.strip(_args(val)[0])     # (a value handed on through a binding helper is moved once per hop)
    if SX.is_node(val) and val.get('k') in ('call', 'mcall'):
        for t in prog.resolve(val):
            if t.key in stampers:
                return True
        return False
    if not (SX.is_node(val) and val.get('k') in ('ref', 'index')):
        return False
    txt = SX.show(val)
    marks = set()
    for c in g.nodes:
        if c.kind == 'call' and isinstance(c.e, dict) and c.e.get('k') in ('call', 'mcall'):
            for t in prog.resolve(c.e):
                if t.key in stampers:
                    idx = stampers[t.key][0]
                    a = _args(c.e)
                    if idx < len(a) and SX.show(SX.strip(a[idx])) == txt:
                        marks.add(c)
                        # modulo bounds: `if (i < types.size()) stamp(v, types[i])` — the skipped edge only exists when the
                        # parallel type list is shorter than the parameter list, which the table builders exclude
                        for ta in a:
                            ta = SX.strip(ta)
                            if SX.is_node(ta) and ta.get('k') == 'index':
                                for cn in g.nodes:
                                    cp = SX.cmp_parts(cn.e) if cn.kind == 'cond' and SX.is_node(cn.e) else None
                                    if cp and cp[0] == '<' and SX.show(cp[1]) == SX.show(ta['i']) and SX.show(cp[2]).replace(' ', '') == (SX.show(ta['base']) + '.size()').replace(' ', ''):
                                        marks.update(_edges_of(g, cn, False))
        if c.kind in ('assign', 'call') and isinstance(c.e, dict):
            w = SX.write_target(c.e)
            if w and _member_of(w[0], 'className') and SX.show(SX.strip(SX.strip(w[0])['base'])) == txt:
                marks.add(c)
    return bool(marks) and g.must_precede(marks, node)


# ------------------------------------------------------------------------------------------------------
def _statics(prog, chk, R):
    n = 0
    fns = [f for f in prog.functions if f.body and f.file.endswith('runtime_evaluator.cpp')]
    for f in fns:
        for x in SX.walk(f.body, into_lambdas=False):
            if x['k'] != 'index' or not _member_of(x.get('base'), 'staticStorage'):
                continue
            n += 1
            root = SX.strip(SX.strip(x['base'])['base'])
            idx = SX.strip(x['i'])
            vars_ = {v['id']: v for v in SX.walk(f.body, into_lambdas=False) if v['k'] == 'var' and v.get('id')}
            if idx.get('k') == 'ref' and idx.get('id') in vars_ and _member_of(vars_[idx['id']].get('init'), 'offset'):
                idx = SX.strip(vars_[idx['id']]['init'])
            ok, why = False, 'unrecognised access'
            if root.get('k') == 'ref' and root.get('kind') == 'binding':
                decomp = [v for v in SX.walk(f.body, into_lambdas=False) if v['k'] == 'var' and any(b['id'] == root['id'] for b in v.get('bindings', []))]
                if decomp:
                    d = decomp[0]
                    from_finder = _mentions(d.get('init'), lambda y: y.get('k') == 'call' and SX.short(y.get('callee', '')) == 'findStaticFieldWithOwner')
                    bs = d['bindings']
                    second = len(bs) == 2 and bs[1]['id'] == root['id']
                    idx_ok = _member_of(idx, 'offset', bs[0]['id']) if len(bs) == 2 else False
                    ok = from_finder and second and idx_ok
                    why = 'owner from findStaticFieldWithOwner:%s, index is the found field\'s offset:%s' % (from_finder and second, idx_ok)
            elif root.get('k') == 'ref' and root.get('kind') == 'param':
                # initStaticFields: slot i of the class's own static fields
                same = any(y['k'] == 'index' and _member_of(y.get('base'), 'staticFields', root['id']) and SX.show(y['i']) == SX.show(x['i']) for y in SX.walk(f.body, into_lambdas=False))
                ok, why = same, 'slot and field metadata are subscripted with the same index on the same class:%s' % same
            chk.ob('R08.6', f, x.get('ln', f.ln), ok,
                   'a static field lives once, in the class that declares it: the storage subscripted is the owner\'s, at the found field\'s offset (%s)' % why,
                   key='static:access:%s:%s' % (f.short, root.get('name')))
    chk.count('static storage accesses', n, 4)
    finder = [f for f in fns if f.short == 'findStaticFieldWithOwner']
    if len(finder) != 1:
        raise AnalysisBroken('findStaticFieldWithOwner not found')
    f = finder[0]
    rets = [r for r in SX.walk(f.body, into_lambdas=False) if r['k'] == 'return' and SX.is_node(r.get('e'))]
    ok = False
    for r in rets:
        e = SX.strip(r['e'])
        items = e.get('items') if e.get('k') == 'initlist' else (_args(e) if e.get('k') == 'construct' else [])
        items = [SX.strip(i) for i in (items or [])]
        if len(items) == 2 and items[1].get('k') == 'ref' and _mentions(items[0], lambda y: y.get('k') == 'member' and y.get('name') == 'staticFields' and _ref_is(y.get('base'), items[1].get('id'))):
            ok = True
    chk.ob('R08.6', f, f.ln, ok, 'the owner returned with a static field is the class whose table contains it', key='static:owner')
    for b in [x for x in R.ev_methods() if x.body and x.short in ('buildClassTable', 'instantiateGeneric')]:
        bad = []
        for nn in SX.walk(b.body, into_lambdas=False):
            w = SX.write_target(nn)
            if w and SX.is_node(SX.strip(w[0])) and SX.strip(w[0]).get('k') == 'member' and SX.strip(w[0])['name'] in ('staticFields', 'staticFieldIndex', 'staticStorage') and \
                    _mentions(w[1], lambda y: y.get('k') == 'member' and y.get('name') == 'base'):
                bad.append(SX.show(nn)[:60])
        if any(x.get('k') == 'member' and x.get('name') == 'staticFields' for x in SX.walk(b.body, into_lambdas=False)):
            chk.ob('R08.6', b, b.ln, not bad, 'static layout is never copied from the base class (a copy would give each subclass its own static): %s' % bad,
                   key='static:no-copy:' + b.short + ':' + (b.sig or '')[:24])


def _phase(prog, chk, R, ev):
    f = R.ev_method('execute')
    g = prog.cfg(f)
    fills = [n for n, l, r, op in g.writes() if SX.is_node(SX.strip(l)) and SX.strip(l).get('k') == 'index' and SX.is_this_member(SX.strip(SX.strip(l)['base']), 'm_functions')]
    chk.count('function-table fills in execute', len(fills), 1)
    heads = [h for h in g.nodes if h.kind in ('rangeinit', 'loophead') and any(h.id in g.reachable([w], forward=False) for w in fills) and any(w.id in g.reachable([h]) for w in fills)]
    full = [lp for lp in SX.walk(f.body, into_lambdas=False) if lp['k'] == 'forrange' and 'functions' in SX.show(lp['range']) and
            not any(x['k'] in ('break', 'return', 'continue') for x in SX.walk(lp['body'], into_lambdas=False))]
    inits = [h for h in g.nodes if h.kind == 'rangeinit' and any(h.e is lp for lp in full)]
    reach_eval = prog.reach([ev]) if False else None
    evalers = set()
    for c in g.calls():
        for t in prog.resolve(c.e):
            if t is ev or prog.call_path(t, lambda x: x is ev):
                evalers.add(c)
    # closures defined in execute that reach eval are invoked later than their definition: their call sites are `call` nodes on the closure variable
    chk.count('calls in execute that can evaluate expressions', len(evalers), 2)
    for c in sorted(evalers, key=lambda x: x.id):
        ok = bool(inits) and g.must_precede(set(inits), c) and not any(c.id in (g.reachable([h]) & g.reachable([h], forward=False)) for h in inits)
        chk.ob('R08.7', f, c.ln or f.ln, ok,
               'the function table is filled (complete loop over program.functions) before %s, which can evaluate a static initialiser that calls a function' % SX.show(c.e)[:50],
               key='phase:%s' % SX.show(c.e)[:40])


# ------------------------------------------------------------------------------------------------------
def _reference_resolution(levels, name, argtags):
    """documented resolution: candidates of every level of the hierarchy (nearest first), a signature seen at a nearer level hides
    the same signature further up, the applicable candidate of least total cost wins, a tie is an error (None)"""
    seen, best, bestc, amb = set(), None, None, False
    for li, lv in enumerate(levels):
        for mi, (mname, params) in enumerate(lv):
            if mname != name:
                continue
            sig = (mname, tuple(params))
            if sig in seen:
                continue
            seen.add(sig)
            if len(params) != len(argtags):
                continue
            costs = [_documented(p_, a_) for p_, a_ in zip(params, argtags)]
            if any(c is None for c in costs):
                continue
            tot = sum(costs)
            if bestc is None or tot < bestc:
                best, bestc, amb = (li, mi), tot, False
            elif tot == bestc:
                amb = True
    return None if amb else best


def _resolution_table(prog, chk, R):
    """findMethod evaluated abstractly on model hierarchies (three levels, overload sets split across levels, overrides, ties)
    and compared with the documented resolution"""
    fm = R.ev_method('findMethod')
    # hierarchy of receiver classes: L0 (most derived) → L1 → L2; argument classes use HIER (D → B → A, C unrelated)
    SCEN = [
        # (levels: list of [(method name, [param tags])…] from the receiver's class upwards, call name, argument tags)
        ([[('f', ['Int'])], [('f', ['Long'])], []], 'f', ['Int']),
        ([[('f', ['Long'])], [('f', ['Int'])], []], 'f', ['Int']),          # the exact match further up must win over a nearer widening
        ([[('f', ['A'])], [('f', ['D'])], []], 'f', ['D']),
        ([[('f', ['A'])], [('f', ['B'])], [('f', ['D'])]], 'f', ['D']),
        ([[('f', ['A'])], [('f', ['B'])], []], 'f', ['D']),
        ([[('f', ['A']), ('f', ['C'])], [], []], 'f', ['null']),             # tie → ambiguous
        ([[('f', ['A'])], [('f', ['A'])], []], 'f', ['B']),                   # override hides the base version: no tie
        ([[('f', ['Int', 'Long']), ('f', ['Long', 'Int'])], [], []], 'f', ['Int', 'Int']),   # tie
        ([[('f', ['Int', 'Long'])], [('f', ['Int', 'Int'])], []], 'f', ['Int', 'Int']),
        ([[('g', ['Int'])], [('f', ['Int'])], []], 'f', ['Int']),
        ([[], [], [('f', ['Float'])]], 'f', ['Float']),
        ([[('f', ['Float'])], [], []], 'f', ['Int']),                         # not applicable → none
        ([[('f', ['Int'])], [], []], 'f', ['Int', 'Int']),                    # arity
        ([[('f', ['B']), ('f', ['A'])], [], []], 'f', ['D']),
        ([[('f', ['A']), ('f', ['B'])], [], []], 'f', ['D']),                 # order of declaration must not matter
        ([[('f', ['A', 'B'])], [('f', ['B', 'A'])], []], 'f', ['D', 'D']),    # equal total cost across levels → ambiguous
        ([[('f', ['String'])], [('f', ['Char'])], []], 'f', ['Char']),
        ([[('f', ['A'])], [], []], 'f', ['null']),
    ]
    if getattr(chk, 'tier', 'quick') == 'thorough':
        # thorough tier: every three-level hierarchy with at most two one-parameter overloads of f at the receiver's level and at most
        # one at each level above it, parameter types from {Int, Long, A, B, D, C}, called with every argument kind — compared with
        # the documented resolution (≈ 7 500 scenarios per resolver)
        import itertools as _it
        PT = ['Int', 'Long', 'A', 'B', 'D', 'C']
        l0 = [[]] + [[('f', [a_])] for a_ in PT] + [[('f', [a_]), ('f', [b_])] for a_, b_ in _it.combinations(PT, 2)]
        l12 = [[]] + [[('f', [a_])] for a_ in PT]
        have = {repr(x) for x in SCEN}
        for a_ in l0:
            for b_ in l12:
                for c_ in l12:
                    if not (a_ or b_ or c_):
                        continue
                    for arg in ['Int', 'Long', 'A', 'B', 'D', 'C', 'null']:
                        sc = ([a_, b_, c_], 'f', [arg])
                        if repr(sc) not in have:
                            SCEN.append(sc)
    bad, n = [], 0
    for levels, name, args in SCEN:
        n += 1
        want = _reference_resolution(levels, name, args)
        # build runtime class objects
        cls_objs = []
        base = None
        for li in range(len(levels) - 1, -1, -1):
            methods = {}
            for mi, (mname, params) in enumerate(levels[li]):
                methods.setdefault(mname, []).append(Obj(name=mname, params=[_rt_type(p_) for p_ in params], signature='%s(%s)' % (mname, ','.join(params)),
                                                         isVirtual=False, isStatic=False, tag=(li, mi)))
            base = Obj(name='L%d' % li, base=base, methods=methods)
            cls_objs.insert(0, base)

        def rt_findClass(it, e, env):
            nm = it.expr(SX.real_args(e)[0], env)
            return _rt_class(nm) if nm in HIER else None
        argv = [_rt_value(a_) for a_ in args]
        try:
            got = Interp(prog, {'findClass': rt_findClass}, max_steps=20000).call_fn_env(fm, [cls_objs[0], name, argv], {'this': Obj()})
        except Unsupported as ex:
            chk.note('overload resolution table not evaluated: %s' % ex)
            chk.vacuous.append('run-time overload resolution table could not be evaluated (%s)' % ex)
            return
        gtag = got.get('tag') if isinstance(got, Obj) else None
        if gtag != want:
            bad.append('%s(%s) on %s → %s, documented %s' % (name, ','.join(args), [[m + str(p_) for m, p_ in lv] for lv in levels], gtag, want))
    # the analyser's resolver on the same scenarios
    fa = prog.fn('SemanticAnalyser::findMethodInHierarchy')
    bad_a = []
    evaluated_a = True
    for levels, name, args in SCEN:
        want = _reference_resolution(levels, name, args)
        infos = {}
        for li in range(len(levels)):
            methods = {}
            for mi, (mname, params) in enumerate(levels[li]):
                methods.setdefault(mname, []).append(Obj(name=mname, paramTypes=[_an_type(p_) for p_ in params], tag=(li, mi), isStatic=False, isVirtual=False))
            infos['L%d' % li] = Obj(name='L%d' % li, base=('L%d' % (li + 1)) if li + 1 < len(levels) else '', typeParams=[], methods=methods, fields={})

        def an_findClass(it, e, env, infos=infos):
            nm = it.expr(SX.real_args(e)[0], env)
            if nm in infos:
                return infos[nm]
            if nm in HIER:
                return Obj(name=nm, base=HIER[nm], typeParams=[], methods={}, fields={})
            return None
        models = {'findClass': an_findClass, 'getTypeParamBound': lambda it, e, env: None,
                  'substituteMany': lambda it, e, env: it.expr(SX.real_args(e)[0], env),
                  'methodSignatureLabel': lambda it, e, env: '%s(%s)' % (it.expr(SX.real_args(e)[0], env), ','.join(
                      (t_.get('className') or t_.get('value', '')) for t_ in it.expr(SX.real_args(e)[1], env)))}
        recv = Obj(value=VT + 'Unknown', className='L0', typeArgs=[], isTypeParam=False)
        try:
            got = Interp(prog, models, max_steps=40000).call_fn_env(fa, [recv, name, [_an_type(a_) for a_ in args]], {'this': Obj()})
        except Unsupported as ex:
            chk.note('analyser resolution table not evaluated: %s' % ex)
            chk.vacuous.append('analyser overload resolution table could not be evaluated (%s)' % ex)
            evaluated_a = False
            break
        gtag = got.get('tag') if isinstance(got, Obj) else None
        if gtag != want:
            bad_a.append('%s(%s) on %s → %s, documented %s' % (name, ','.join(args), [[m + str(p_) for m, p_ in lv] for lv in levels], gtag, want))
    if evaluated_a:
        chk.ob('R08.4', fa, fa.ln, not bad_a,
               'compile-time overload resolution equals the documented one on the same %d model hierarchies (so both resolvers choose the same overload); mismatches: %s' % (n, bad_a[:3]),
               key='resolution:analyser')
    chk.extra['resolution_scenarios'] = n
    chk.ob('R08.4', fm, fm.ln, not bad,
           'run-time overload resolution equals the documented one on %d model hierarchies (levels, overrides, widening, class distance, null, ties); mismatches: %s' % (n, bad[:3]),
           key='resolution:runtime')


def _generic_substitution(prog, chk, R):
    """A specialisation's substitution map binds each of the template's own parameters to the corresponding type argument.  Where
    the map starts as a copy of the enclosing context's bindings, the own parameter must *replace* an outer binding of the same
    name (`Entry<K,T>` creating `Box<K>` with `Box` declared `Box<T>`): a non-overwriting insertion (emplace / insert /
    try_emplace) keeps the outer `T`, and the wrongly typed class is then cached under the right key for the whole program."""
    n = 0
    for f in [x for x in R.ev_methods() if x.body]:
        maps = {v['id']: v for v in SX.walk(f.body, into_lambdas=False) if v['k'] == 'var' and 'map<' in (v.get('type') or '') and 'RuntimeTypeInfo' in (v.get('type') or '')}
        if not maps:
            continue
        for x in SX.walk(f.body, into_lambdas=False):
            key = val = None
            how = None
            w = SX.write_target(x)
            if w and w[2] == '=' and SX.is_node(SX.strip(w[0])) and SX.strip(w[0]).get('k') == 'index' and SX.strip(SX.strip(w[0])['base']).get('id') in maps:
                mid, key, val, how = SX.strip(SX.strip(w[0])['base'])['id'], SX.strip(w[0])['i'], w[1], 'assign'
            elif x['k'] == 'mcall' and SX.is_node(SX.strip(x.get('obj'))) and SX.strip(x['obj']).get('id') in maps and \
                    SX.short(x.get('callee', '')) in ('emplace', 'insert', 'try_emplace', 'insert_or_assign'):
                a = SX.real_args(x)
                mid, key, val, how = SX.strip(x['obj'])['id'], (a[0] if a else None), (a[1] if len(a) > 1 else None), SX.short(x['callee'])
            if how is None or not SX.is_node(key) or 'typeParameters' not in SX.show(key):
                continue
            n += 1
            init = SX.strip(maps[mid].get('init')) if SX.is_node(maps[mid].get('init')) else None
            empty_start = init is None or (init.get('k') in ('construct', 'initlist') and not (SX.real_args(init) if init['k'] == 'construct' else init.get('items')))
            overwriting = how in ('assign', 'insert_or_assign')
            chk.ob('R08.8', f, x.get('ln', f.ln), overwriting or empty_start,
                   'own type parameter bound by %s into a map that %s: an outer binding of the same parameter name must be replaced' % (
                       how, 'starts empty' if empty_start else 'starts as a copy of the enclosing bindings (%s)' % SX.show(init)[:30]),
                   key='subst:own-params-override:%s:%s' % (f.short, (f.sig or '')[:20]))
            # positional agreement: parameter i is bound to argument i
            ki = [y for y in SX.walk(key) if y['k'] == 'index']
            vi = [y for y in SX.walk(val)] if SX.is_node(val) else []
            same = bool(ki) and any(y['k'] == 'index' and SX.show(y['i']) == SX.show(ki[0]['i']) for y in vi)
            chk.ob('R08.8', f, x.get('ln', f.ln), same, 'type parameter i is bound to type argument i (key %s, value %s)' % (SX.show(key)[:40], SX.show(val)[:30] if SX.is_node(val) else '?'),
                   key='subst:positional:%s:%s' % (f.short, (f.sig or '')[:20]))
    chk.count('bindings of template parameters in specialisation', n, 2)
