"""C04 — reset is local: the target goes to |0>, other qubits' statistics are unchanged."""
from .. import sx as SX
from ..facts import AnalysisBroken
from ..roles import Roles
from .. import kterm as KT

EXPLANATION = (
    "A statevector reset that leaves the other qubits' statistics unchanged must act as 'measure the target (outcome discarded), then "
    "flip it if the outcome was 1': a deterministic map from one pure state to one pure state cannot reproduce the mixed reduced state "
    "of the partners of an entangled target. Decided from the source of QasmSimulator::reset: (R04.1) the subspace weights p0/p1 are "
    "accumulated over the full index range and the outcome variable is 'one' exactly when p0 = 0, or p1 > 0 and r·(p0+p1) < p1 for one "
    "uniform draw r ∈ [0,1) from the process generator — i.e. outcome 1 with the Born probability p1/(p0+p1), never an empty branch; "
    "(R04.2) the per-pair transformer, extracted by symbolic evaluation by cases on the outcome and composed over both cells of a pair, "
    "is (a0,a1) ↦ (a1/√p1, 0) for outcome 1 and (a0/√p0, 0) for outcome 0: collapse, renormalise, move to the bit-clear cell; (R04.3) "
    "hence every amplitude with the target bit set is zero on exit; (R04.4) every reset in the evaluator (statement, object "
    "destruction, index reuse) goes through this one function and nothing else zeroes a subspace; the statistics themselves are not "
    "measured.")


class _Mismatch(Exception):
    pass


def run(prog, chk):
    import sympy as sp
    from .. import ksym as KS
    from .. import kpair as KP
    R = Roles(prog)
    chk.trusted.append('sympy (closed-form simplification) from the tooling venv')
    chk.rule('R04.1', 'reset samples the target: outcome 1 with probability p1/(p0+p1) from one uniform draw; never an empty branch')
    chk.rule('R04.2', 'per outcome: collapse + renormalise + move the kept branch to the bit-clear cell')
    chk.rule('R04.3', 'on exit every amplitude with the target bit set is zero')
    chk.rule('R04.4', 'one reset implementation: all evaluator resets call it; no other function clears a subspace')
    sim = R.sim_classify()
    from ..knorm import normalise
    rs = normalise(prog, sim['reset'])      # helpers (branch weights, the draw, range checks) inlined; see K-NORM
    amp = R.amp_field
    q = rs.params[0]
    stmts = rs.body['body']
    F = KT.Folder()
    bit_ids = []
    doubles = []
    dist_id = None
    one_decl = None
    loops = []
    draw_nodes = []
    for s in stmts:
        if s['k'] == 'decls':
            for v in s['d']:
                t = v['type'][6:] if v['type'].startswith('const ') else v['type']
                if t in ('unsigned long', 'size_t'):
                    try:
                        term = F.fold(v['init'])
                        F.env[v['id']] = term
                        if term == KT.op('<<', KT.I(1), KT.S(q['name'])):
                            bit_ids.append(v['id'])
                    except KT.Unfoldable:
                        pass
                elif t == 'double':
                    doubles.append(v)
                elif 'uniform_real_distribution<' in t:
                    dist_id = v['id']
                    a = SX.real_args(SX.strip(v['init'])) if SX.is_node(v.get('init')) else []
                    vals = [x.get('v') for x in a if SX.is_node(x)]
                    chk.ob('R04.1', rs, v.get('ln', rs.ln), vals == [0.0, 1.0] and ('<double>' in t or '<>' in t), 'draw distribution is uniform on [0,1): %s' % vals, key='dist')
                elif t in ('bool', 'int'):
                    if dist_id and any(x['k'] == 'opcall' and x['op'] == '()' and SX.strip(x['args'][0]).get('id') == dist_id for x in SX.walk(v.get('init'))):
                        one_decl = v
        elif s['k'] == 'for':
            loops.append(s)
    if not bit_ids:
        from .C02 import mask_candidates
        cand = mask_candidates(rs, q)
        if cand:
            chk.ob('R04.2', rs, rs.ln, False, 'reset selects the cells of qubit %s with mask %s, which is not 1 << %s' % (q['name'], cand, q['name']), key='mask')
            return
        raise AnalysisBroken('reset: target bit mask (1 << q) not found')
    # the outcome may be computed in place or by a file-local helper called with (generator, p0, p1)
    helper = None
    if one_decl is None:
        for s_ in stmts:
            if s_['k'] == 'decls':
                for v in s_['d']:
                    init = SX.strip(v.get('init')) if SX.is_node(v.get('init')) else None
                    if v['type'] in ('bool', 'int') and SX.is_node(init) and init.get('k') == 'call':
                        fs = [h for h in prog.resolve(init) if h.body]
                        if len(fs) == 1 and any('uniform_real_distribution<' in x.get('type', '') for x in SX.walk(fs[0].body) if x['k'] == 'var'):
                            one_decl, helper = v, (fs[0], init)
    if one_decl is None:
        # a draw made inside a helper this rule does not model (e.g. `sampleUnit()` used in the middle of a short-circuit
        # expression) is not "no draw": say that the form is not analysed instead of reporting a projection-style reset
        for n_ in SX.walk(rs.body, into_lambdas=False):
            if n_['k'] in ('call', 'mcall'):
                for h_ in prog.resolve(n_):
                    if h_.body and h_.file == rs.file and any('uniform_real_distribution<' in x.get('type', '') for x in SX.walk(h_.body) if x['k'] == 'var'):
                        raise AnalysisBroken('reset draws its random number through %s in a form this rule does not model' % h_.short)
        chk.ob('R04.1', rs, rs.ln, False,
               'reset does not draw from the random generator: a projection-style reset post-selects the partners of an entangled target '
               '(e.g. Bell pair, reset one half: the partner then reads 0 with certainty instead of 50/50)', key='samples')
        return
    # the two sweeps are all reset does to the amplitudes: a write on any other path (a shortcut for "already collapsed" targets, say)
    # is outside what is proved below
    inside = {id(y) for lp_ in loops for y in SX.walk(lp_, into_lambdas=False)}
    stray = []
    for y in SX.walk(rs.body, into_lambdas=False):
        w_ = SX.write_target(y)
        tgt_ = SX.strip(w_[0]) if w_ else None
        if SX.is_node(tgt_) and tgt_.get('k') == 'index' and SX.show(tgt_.get('base')) == amp and id(y) not in inside:
            stray.append(y)
        if y.get('k') == 'call' and (y.get('callee') or '').startswith('std::swap') and amp in SX.show(y) and id(y) not in inside:
            stray.append(y)
    if stray:
        chk.ob('R04.1', rs, stray[0].get('ln', rs.ln), False,
               'reset writes amplitudes outside its accumulation and update sweeps (%d writes, first at line %s): the statistics of the other qubits are proved for the two sweeps only — '
               'a shortcut path has to keep them as well' % (len(stray), stray[0].get('ln')), key='weights')
        return
    if len(loops) < 2 or len(loops) > 3:
        raise AnalysisBroken('reset: expected accumulation sweep(s) and an update loop, found %d loops' % len(loops))
    aliases = KP.size_aliases(rs.body, amp)
    try:
        # the weights may be summed in one sweep or in one sweep each (a shared `subspaceWeight(bit, set)` helper called twice)
        sw_acc = [KP.state_sweep(lp_, amp, bit_ids, aliases, rs.body) for lp_ in loops[:-1]]
        sw2 = KP.state_sweep(loops[-1], amp, bit_ids, aliases, rs.body)
    except KP.BadSweep as ex:
        chk.ob('R04.1', rs, rs.ln, False, 'reset does not sweep the whole state vector: %s' % ex, key='weights')
        return
    l2 = sw2
    if any(x is None for x in sw_acc) or l2 is None:
        why = [KP.partial_state_loop(l, amp) for l, x in list(zip(loops[:-1], sw_acc)) + [(loops[-1], l2)] if x is None]
        if all(why):
            chk.ob('R04.1', rs, rs.ln, False, 'reset does not sweep the whole state vector: %s' % ' / '.join(why), key='weights')
            return
        raise AnalysisBroken('reset: loops are not full-range loops over the state vector')
    # ---- accumulation ------------------------------------------------------------------------
    it = KP.PairIter(amp, None, bit_ids, {}, {})
    try:
        # sums added for one pair of cells, attributed to the bit of the visit that adds them (flat sweep: two visits per pair;
        # block-wise sweep: one visit per half)
        accs = {0: ({}, {}), 1: ({}, {})}
        for l1 in sw_acc:
            for vs in KP.sweep_visits(l1):
                _fin, acc, wrote = KP.run_visits(it, [vs])
                for c_ in wrote:
                    accs[vs['b']][0][c_] = True
                for k_, x_ in acc.items():
                    accs[vs['b']][1][k_] = accs[vs['b']][1].get(k_, 0) + x_
    except (KP.NotPairwise, KS.Unfoldable) as e:
        raise AnalysisBroken('reset accumulation loop: ' + str(e))
    if accs[0][0] or accs[1][0]:
        raise AnalysisBroken('reset accumulation loop writes amplitudes')
    a0 = {k: sp.simplify(v) for k, v in accs[0][1].items()}
    a1 = {k: sp.simplify(v) for k, v in accs[1][1].items()}
    # what one pair of cells contributes to each sum over all its visits (which visit adds it does not matter for the sum)
    tot = {k: sp.simplify(a0.get(k, 0) + a1.get(k, 0)) for k in set(a0) | set(a1)}
    p0_id = [k for k, v in tot.items() if v == sp.Abs(KP.A[0]) ** 2]
    p1_id = [k for k, v in tot.items() if v == sp.Abs(KP.A[1]) ** 2]
    okacc = len(p0_id) == 1 and len(p1_id) == 1 and len(tot) == 2 and p0_id != p1_id
    inits = {v['id']: SX.strip(v.get('init')) for v in doubles}
    zero = okacc and all(SX.is_node(inits.get(i)) and inits[i].get('v') in (0, 0.0) for i in (p0_id[0], p1_id[0]))
    chk.ob('R04.1', rs, loops[0].get('ln', rs.ln), okacc and zero,
           'weights: one pair contributes %s to the sums (expected |A0|² to one, |A1|² to the other), both from 0 over the full range' % (tot,), key='weights')
    if not okacc:
        return
    p0, p1, r = sp.Symbol('p0', positive=True), sp.Symbol('p1', positive=True), sp.Symbol('r', nonnegative=True)
    # ---- where the outcome is computed ---------------------------------------------------------
    if helper is not None:
        H, hcall = helper
        hargs = SX.real_args(hcall)
        alias = {}
        gen_param = None
        for prm, a in zip(H.params, hargs):
            a = SX.strip(a)
            if a.get('id') == p0_id[0]:
                alias[prm['id']] = 'p0'
            elif a.get('id') == p1_id[0]:
                alias[prm['id']] = 'p1'
            elif a.get('global') and 'mersenne_twister' in a.get('t', ''):
                gen_param = prm
        body_fn, body = H, H.body
        hdist = [v for v in SX.walk(H.body) if v['k'] == 'var' and 'uniform_real_distribution<' in v['type']]
        dist_id = hdist[0]['id'] if hdist else None
        if hdist:
            vals = [x.get('v') for x in SX.real_args(SX.strip(hdist[0]['init'])) if SX.is_node(x)]
            chk.ob('R04.1', H, hdist[0].get('ln', H.ln), vals == [0.0, 1.0], 'draw distribution is uniform on [0,1): %s' % vals, key='dist')
    else:
        alias = {p0_id[0]: 'p0', p1_id[0]: 'p1'}
        gen_param = None
        body_fn, body = rs, one_decl['init']
    draws = [x for x in SX.walk(body) if x['k'] == 'opcall' and x['op'] == '()' and SX.strip(x['args'][0]).get('id') == dist_id]
    okd = len(draws) == 1
    gen_ok = False
    gen_why = 'no draw found'
    if okd:
        ga = SX.strip(draws[0]['args'][1])
        if ga.get('global') and 'mersenne_twister' in ga.get('t', ''):
            gen_ok, gen_why = True, 'the process generator'
        elif gen_param is not None and ga.get('id') == gen_param['id']:
            byref = gen_param['type'].rstrip().endswith('&') and not gen_param['type'].startswith('const')
            gen_ok = byref
            gen_why = 'the process generator passed by reference' if byref else \
                'a COPY of the process generator (parameter type %s): the generator itself is never advanced, so consecutive resets and measurements reuse the same random number' % gen_param['type']
        else:
            gen_why = 'generator argument %s' % SX.show(ga)[:30]
    chk.ob('R04.1', body_fn, one_decl.get('ln', rs.ln), okd and gen_ok, 'exactly one draw decides the outcome, taken from %s' % gen_why, key='one-draw')
    # algebraic form of the comparison that uses the draw
    form_ok, form_why = False, 'no comparison uses the draw'
    if okd:
        from ..ktry import parent_map
        pm = parent_map(body if helper is None else H.body)
        cur = draws[0]
        cmpn = None
        while id(cur) in pm:
            cur = pm[id(cur)]
            if SX.cmp_parts(cur):
                cmpn = cur
                break
        if cmpn is not None:
            cp = SX.cmp_parts(cmpn)

            def conv(x):
                x = SX.strip(x)
                if x is draws[0]:
                    return r
                if x.get('k') == 'ref' and x.get('id') in alias:
                    return p0 if alias[x['id']] == 'p0' else p1
                if x.get('k') == 'ref' and helper is None:
                    # a local computed from the weights before the draw (`double total = p0 + p1;`)
                    dv = [v for v in doubles if v['id'] == x.get('id') and v['id'] not in (p0_id[0], p1_id[0]) and SX.is_node(v.get('init'))]
                    if len(dv) == 1 and not any(SX.is_node(SX.strip(w_[0])) and SX.strip(w_[0]).get('id') == dv[0]['id']
                                                for w_ in (SX.write_target(n_) for n_ in SX.walk(rs.body)) if w_):
                        return conv(dv[0]['init'])
                if x.get('k') == 'bin' and x['op'] in ('+', '-', '*', '/'):
                    a, b = conv(x['l']), conv(x['r'])
                    return {'+': a + b, '-': a - b, '*': a * b, '/': a / b}[x['op']]
                return KS.to_sympy(x, {})
            try:
                lhs, rhs, op = conv(cp[1]), conv(cp[2]), cp[0]
                if op == '>':
                    lhs, rhs, op = rhs, lhs, '<'
                if op != '<':
                    form_why = 'the Born comparison must be the strict r·(p0+p1) < p1 (found %s)' % op
                else:
                    ratio = sp.simplify((lhs - rhs) / (r * (p0 + p1) - p1))
                    form_ok = bool(ratio.is_positive and ratio.free_symbols <= {p0, p1})
                    form_why = 'the draw is compared as %s < %s' % (lhs, rhs)
            except KS.Unfoldable as e:
                raise AnalysisBroken('reset outcome comparison is outside the recognised form: %s' % e)
    chk.ob('R04.1', body_fn, one_decl.get('ln', rs.ln), form_ok, 'outcome 1 needs r·(p0+p1) < p1, i.e. probability p1/(p0+p1): %s' % form_why, key='born-comparison')
    # truth table of the outcome over (p0 = 0?, p1 = 0?, comparison) by abstract evaluation of the extracted code
    from ..kabs import Interp, Unsupported
    bad = []
    for z0 in (False, True):
        for z1 in (False, True):
            if z0 and z1:
                continue
            for c in (False, True):
                v0, v1 = (0.0 if z0 else 0.5), (0.0 if z1 else 0.5)
                rv = 0.25 if c else 0.75
                if z0 or z1:
                    rv = 0.25 if c else 1.5   # with one weight zero the comparison value is irrelevant to the expected result
                models = {'op:()': lambda it_, e, env, rv=rv: rv}
                it_ = Interp(prog, models)
                try:
                    if helper is not None:
                        argv = []
                        for prm in H.params:
                            argv.append(v0 if alias.get(prm['id']) == 'p0' else (v1 if alias.get(prm['id']) == 'p1' else 'GEN'))
                        got = it_.call_fn(H, argv)
                    else:
                        env_ = {p0_id[0]: v0, p1_id[0]: v1, dist_id: 'DIST'}
                        stop_ = False
                        for s_ in stmts:
                            if stop_:
                                break
                            if s_['k'] == 'decls':
                                for v_ in s_['d']:
                                    if v_ is one_decl:
                                        stop_ = True
                                        break
                                    if v_ in doubles and v_['id'] not in env_ and SX.is_node(v_.get('init')):
                                        env_[v_['id']] = it_.expr(v_['init'], env_)
                        got = it_.expr(one_decl['init'], env_)
                except Unsupported as e:
                    raise AnalysisBroken('reset outcome formula: %s' % e)
                want = True if z0 else (False if z1 else c)
                if bool(got) != want:
                    bad.append(('p0=0' if z0 else 'p0>0', 'p1=0' if z1 else 'p1>0', 'r(p0+p1)<p1' if c else 'r(p0+p1)>=p1', bool(got)))
    chk.ob('R04.1', body_fn, one_decl.get('ln', rs.ln), not bad,
           'outcome is 1 iff p0 = 0, or p0,p1 > 0 and r·(p0+p1) < p1 (an empty branch is never chosen); mismatches: %s' % bad[:3], key='born-probability')
    # ---- per-pair transformer ------------------------------------------------------------------
    for one in (True, False):
        scal = {p0_id[0]: p0, p1_id[0]: p1}
        it = KP.PairIter(amp, None, bit_ids, scal, {one_decl['id']: one})
        try:
            it.b = 0
            for s in stmts:
                if s['k'] == 'decls':
                    for v in s['d']:
                        vt = v['type'][6:] if v['type'].startswith('const ') else v['type']
                        # scalars derived from the weights and the outcome, in declaration order (before or after the draw)
                        if v is not one_decl and vt == 'double' and v['id'] not in scal and SX.is_node(v.get('init')) and SX.strip(v['init']).get('k') not in ('float', 'int'):
                            it.scalars[v['id']] = it.amp_expr(v['init'])
            fin = KP.sweep_final(it, l2)
        except KP.OutsidePair as e:
            chk.ob('R04.2', rs, loops[-1].get('ln', rs.ln), False, 'the update loop acts on the pair (i, i|2^q) of the swept index: %s' % e, key='transform:cells')
            return
        except (KP.NotPairwise, KS.Unfoldable) as e:
            raise AnalysisBroken('reset update loop: ' + str(e))
        want0 = KP.A[1] / sp.sqrt(p1) if one else KP.A[0] / sp.sqrt(p0)
        ok0 = sp.simplify(fin[0] - want0) == 0
        ok1 = sp.simplify(fin[1]) == 0
        chk.ob('R04.2', rs, loops[-1].get('ln', rs.ln), ok0, 'outcome %d: bit-clear cell becomes %s (expected %s)' % (1 if one else 0, fin[0], want0), key='transform:outcome%d' % (1 if one else 0))
        chk.ob('R04.3', rs, loops[-1].get('ln', rs.ln), ok1, 'outcome %d: bit-set cell becomes %s (expected 0)' % (1 if one else 0, fin[1]), key='cleared:outcome%d' % (1 if one else 0))

    # ---- R04.4 -----------------------------------------------------------------------------------
    # evaluator: every `reset` statement / release / reuse path calls sim.reset
    ev_ = R.ev
    sites = []
    for f in [x for x in R.ev_methods() if x.body]:
        for n in SX.walk(f.body, into_lambdas=True):      # a site inside a local closure of the function counts
            if R.is_sim_call(n, (rs.short,)):
                sites.append((f, n))
    chk.count('evaluator→simulator reset call sites', len(sites), 3)
    exec_ = R.ev_method('exec')
    g = prog.cfg(exec_)
    rst = [c for c in g.calls(lambda e: R.is_sim_call(e, (rs.short,)))]
    handled = False
    for c in rst:
        for ce, pol, _ in g.guards(c):
            if pol and SX.is_node(ce) and SX.is_node(ce.get('cvinit')) and 'ResetStatement' in SX.show(ce['cvinit']):
                handled = True
    chk.ob('R04.4', exec_, rst[0].ln if rst else exec_.ln, handled, 'the reset statement is executed by the simulator\'s reset', key='stmt-calls-sim-reset')
    for role, fn in (('object destruction', 'destroyObject'), ('index reuse', 'allocateTrackedQubit')):
        f = R.ev_method(fn)
        has = any(R.is_sim_call(n, (rs.short,)) for n in SX.walk(f.body, into_lambdas=True))      # also inside a local closure of the function
        chk.ob('R04.4', f, f.ln, has, '%s resets the qubit through the simulator\'s reset' % role, key='path:' + fn)
    # the implicit reset of index reuse hits only an index nobody owns: the index handed out is the free-list element that is
    # removed (an index that stays on the list is handed out twice, and the second owner's reset clears the first owner's qubit)
    free = [x['name'] for x in R.ev['fields'] if x['type'] == 'std::vector<int>' and 'free' in x['name'].lower()]
    if len(free) == 1:
        from .C03 import reuse_discipline
        for key, a_, ok_, detail in reuse_discipline(prog, R, sim, sim['allocate'], R.ev_method('allocateTrackedQubit'), free[0]):
            chk.ob('R04.4', a_, a_.ln, ok_, 'index reuse: ' + detail, key='reuse:' + key)
    # no other simulator method zeroes amplitudes wholesale
    other = []
    for f in R.sim_methods():
        if f in (rs, sim['reset'], sim['measure'], sim['allocate']) or not f.body:
            continue
        for n in SX.walk(f.body):
            w = SX.write_target(n)
            if w and w[2] == '=' and SX.is_node(SX.strip(w[0])) and SX.strip(w[0]).get('k') == 'index' and SX.show(SX.strip(w[0])['base']) == amp:
                rv = SX.strip(w[1])
                if SX.is_node(rv) and rv.get('v') in (0, 0.0):
                    other.append(f.short)
    chk.ob('R04.4', rs, rs.ln, not other, 'no other simulator method clears amplitudes: %s' % other, key='single-implementation', nontrivial=False)
