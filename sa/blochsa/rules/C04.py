"""C04 — reset is local: the target goes to |0>, other qubits' statistics are unchanged."""
from .. import sx as SX
from ..facts import AnalysisBroken
from ..roles import Roles
from .. import kterm as KT

EXPLANATION = (
    "A statevector reset that leaves the other qubits' statistics unchanged must act as 'measure the target (outcome discarded), then "
    "flip it if the outcome was 1': a deterministic map from one pure state to one pure state cannot reproduce the mixed reduced state "
    "of the partners of an entangled target. Decided from the source of QasmSimulator::reset: (R04.1) the subspace weights p0/p1 are "
    "accumulated over the full index range and the outcome variable is 'one' exactly when p0 = 0, or p1 > 0 and r·(p0+p1) < p1 for one "
    "uniform draw r ∈ [0,1) from the process generator — i.e. outcome 1 with the Born probability p1/(p0+p1), never an empty branch; "
    "(R04.2) the per-pair transformer, extracted by symbolic evaluation by cases on the outcome and composed over both cells of a pair, "
    "is (a0,a1) ↦ (a1/√p1, 0) for outcome 1 and (a0/√p0, 0) for outcome 0: collapse, renormalise, move to the bit-clear cell; (R04.3) "
    "hence every amplitude with the target bit set is zero on exit; (R04.4) every reset in the evaluator (statement, object "
    "destruction, index reuse) goes through this one function and nothing else zeroes a subspace; the statistics themselves are not "
    "measured.")


class _Mismatch(Exception):
    pass


def run(prog, chk):
    import sympy as sp
    from .. import ksym as KS
    from .. import kpair as KP
    R = Roles(prog)
    chk.trusted.append('sympy (closed-form simplification) from the tooling venv')
    chk.rule('R04.1', 'reset samples the target: outcome 1 with probability p1/(p0+p1) from one uniform draw; never an empty branch')
    chk.rule('R04.2', 'per outcome: collapse + renormalise + move the kept branch to the bit-clear cell')
    chk.rule('R04.3', 'on exit every amplitude with the target bit set is zero')
    chk.rule('R04.4', 'one reset implementation: all evaluator resets call it; no other function clears a subspace')
    sim = R.sim_classify()
    rs = sim['reset']
    amp = R.amp_field
    q = rs.params[0]
    stmts = rs.body['body']
    F = KT.Folder()
    bit_ids = []
    doubles = []
    dist_id = None
    one_decl = None
    loops = []
    draw_nodes = []
    for s in stmts:
        if s['k'] == 'decls':
            for v in s['d']:
                t = v['type']
                if t in ('unsigned long', 'size_t'):
                    try:
                        term = F.fold(v['init'])
                        F.env[v['id']] = term
                        if term == KT.op('<<', KT.I(1), KT.S(q['name'])):
                            bit_ids.append(v['id'])
                    except KT.Unfoldable:
                        pass
                elif t == 'double':
                    doubles.append(v)
                elif 'uniform_real_distribution<' in t:
                    dist_id = v['id']
                    a = SX.real_args(SX.strip(v['init'])) if SX.is_node(v.get('init')) else []
                    vals = [x.get('v') for x in a if SX.is_node(x)]
                    chk.ob('R04.1', rs, v.get('ln', rs.ln), vals == [0.0, 1.0] and ('<double>' in t or '<>' in t), 'draw distribution is uniform on [0,1): %s' % vals, key='dist')
                elif t in ('bool', 'int'):
                    if dist_id and any(x['k'] == 'opcall' and x['op'] == '()' and SX.strip(x['args'][0]).get('id') == dist_id for x in SX.walk(v.get('init'))):
                        one_decl = v
        elif s['k'] == 'for':
            loops.append(s)
    if not bit_ids:
        raise AnalysisBroken('reset: target bit mask (1 << q) not found')
    if one_decl is None or dist_id is None:
        chk.ob('R04.1', rs, rs.ln, False,
               'reset does not draw from the random generator: a projection-style reset post-selects the partners of an entangled target '
               '(e.g. Bell pair, reset one half: the partner then reads 0 with certainty instead of 50/50)', key='samples')
        return
    if len(loops) != 2:
        raise AnalysisBroken('reset: expected an accumulation loop and an update loop, found %d loops' % len(loops))
    l1 = KP.full_state_loop(loops[0], amp)
    l2 = KP.full_state_loop(loops[1], amp)
    if l1 is None or l2 is None:
        raise AnalysisBroken('reset: loops are not full-range loops over the state vector')
    # ---- accumulation ------------------------------------------------------------------------
    it = KP.PairIter(amp, l1[0]['id'], bit_ids, {}, {})
    try:
        accs = {b: it.run(l1[1], b) for b in (0, 1)}
    except (KP.NotPairwise, KS.Unfoldable) as e:
        raise AnalysisBroken('reset accumulation loop: ' + str(e))
    if accs[0][0] or accs[1][0]:
        raise AnalysisBroken('reset accumulation loop writes amplitudes')
    a0 = {k: sp.simplify(v) for k, v in accs[0][1].items()}
    a1 = {k: sp.simplify(v) for k, v in accs[1][1].items()}
    p0_id = [k for k, v in a0.items() if v == sp.Abs(KP.A[0]) ** 2]
    p1_id = [k for k, v in a1.items() if v == sp.Abs(KP.A[1]) ** 2]
    okacc = len(p0_id) == 1 and len(p1_id) == 1 and len(a0) == 1 and len(a1) == 1 and p0_id != p1_id
    inits = {v['id']: SX.strip(v.get('init')) for v in doubles}
    zero = okacc and all(SX.is_node(inits.get(i)) and inits[i].get('v') in (0, 0.0) for i in (p0_id[0], p1_id[0]))
    chk.ob('R04.1', rs, loops[0].get('ln', rs.ln), okacc and zero,
           'weights: bit clear adds %s, bit set adds %s, both from 0 over the full range' % (a0, a1), key='weights')
    if not okacc:
        return
    p0, p1, r = sp.Symbol('p0', positive=True), sp.Symbol('p1', positive=True), sp.Symbol('r', nonnegative=True)
    # ---- outcome formula: evaluated over the sign atoms ---------------------------------------
    init = SX.strip(one_decl['init'])
    draws = [x for x in SX.walk(init) if x['k'] == 'opcall' and x['op'] == '()' and SX.strip(x['args'][0]).get('id') == dist_id]
    okd = len(draws) == 1 and SX.is_node(SX.strip(draws[0]['args'][1])) and SX.strip(draws[0]['args'][1]).get('global') and 'mersenne_twister' in SX.strip(draws[0]['args'][1]).get('t', '')
    chk.ob('R04.1', rs, one_decl.get('ln', rs.ln), okd, 'exactly one draw from the process generator decides the outcome', key='one-draw')

    def ev(e, z0, z1, c):
        """boolean value of the outcome expression when p0 is zero (z0), p1 is zero (z1) and the Born comparison is c"""
        e = SX.strip(e)
        if e['k'] == 'bin' and e['op'] == '||':
            return ev(e['l'], z0, z1, c) or ev(e['r'], z0, z1, c)
        if e['k'] == 'bin' and e['op'] == '&&':
            return ev(e['l'], z0, z1, c) and ev(e['r'], z0, z1, c)
        if e['k'] == 'un' and e['op'] == '!':
            return not ev(e['e'], z0, z1, c)
        cp = SX.cmp_parts(e)
        if cp:
            has_draw = any(x is draws[0] for x in SX.walk(e)) if draws else False
            if has_draw:
                # must be  r·(p0+p1) < p1   (or r < p1/(p0+p1))
                env = {p0_id[0]: p0, p1_id[0]: p1}

                def rd(n):
                    raise KS.Unfoldable('read')
                def conv(x):
                    x = SX.strip(x)
                    if x is draws[0]:
                        return r
                    if x['k'] == 'bin' and x['op'] in ('+', '-', '*', '/'):
                        a, b = conv(x['l']), conv(x['r'])
                        return {'+': a + b, '-': a - b, '*': a * b, '/': a / b}[x['op']]
                    return KS.to_sympy(x, env)
                lhs, rhs = conv(cp[1]), conv(cp[2])
                op = cp[0]
                if op == '>':
                    lhs, rhs, op = rhs, lhs, '<'
                if op != '<':
                    raise _Mismatch('Born comparison must be the strict r·(p0+p1) < p1')
                # equivalent to r < p1/(p0+p1)  ⇔  lhs - rhs  has the sign of  r(p0+p1) - p1
                ratio = sp.simplify((lhs - rhs) / (r * (p0 + p1) - p1))
                if not (ratio.is_positive and ratio.free_symbols <= {p0, p1}):
                    raise _Mismatch('the draw is compared as %s < %s, which is not equivalent to r·(p0+p1) < p1' % (lhs, rhs))
                return c
            # sign tests of the weights
            a, b = SX.strip(cp[1]), SX.strip(cp[2])
            for x, y, op in ((a, b, cp[0]), (b, a, {'<': '>', '>': '<', '<=': '>=', '>=': '<=', '==': '==', '!=': '!='}[cp[0]])):
                if x.get('k') == 'ref' and x.get('id') in (p0_id[0], p1_id[0]) and y.get('v') in (0, 0.0):
                    z = z0 if x['id'] == p0_id[0] else z1
                    return {'==': z, '!=': not z, '>': not z, '<=': z, '<': False, '>=': True}[op]
        raise KS.Unfoldable('outcome term ' + SX.show(e)[:50])
    try:
        tbl = {}
        for z0 in (False, True):
            for z1 in (False, True):
                for c in (False, True):
                    tbl[(z0, z1, c)] = bool(ev(init, z0, z1, c))
    except _Mismatch as e:
        chk.ob('R04.1', rs, one_decl.get('ln', rs.ln), False, 'outcome formula: %s' % e, key='born-probability')
        tbl = None
    except KS.Unfoldable as e:
        raise AnalysisBroken('reset outcome formula is outside the recognised form: %s' % e)
    if tbl is not None:
        bad = []
        for (z0, z1, c), v in tbl.items():
            if z0 and z1:
                continue                      # zero vector: not a state
            want = True if z0 else (False if z1 else c)
            if v != want:
                bad.append(('p0=0' if z0 else 'p0>0', 'p1=0' if z1 else 'p1>0', 'r(p0+p1)<p1' if c else 'r(p0+p1)>=p1', v))
        chk.ob('R04.1', rs, one_decl.get('ln', rs.ln), not bad,
               'outcome is 1 iff p0 = 0, or p0,p1 > 0 and r·(p0+p1) < p1 (Born probability p1/(p0+p1); an empty branch is never chosen); mismatches: %s' % bad[:3],
               key='born-probability')
    # ---- per-pair transformer ------------------------------------------------------------------
    for one in (True, False):
        scal = {p0_id[0]: p0, p1_id[0]: p1}
        it = KP.PairIter(amp, l2[0]['id'], bit_ids, scal, {one_decl['id']: one})
        try:
            it.b = 0
            seen_one = False
            for s in stmts:
                if s['k'] == 'decls':
                    for v in s['d']:
                        if v is one_decl:
                            seen_one = True
                        elif seen_one and v['type'] == 'double':
                            it.scalars[v['id']] = it.amp_expr(v['init'])
            fin = KP.pair_final(it, l2[1])
        except (KP.NotPairwise, KS.Unfoldable) as e:
            raise AnalysisBroken('reset update loop: ' + str(e))
        want0 = KP.A[1] / sp.sqrt(p1) if one else KP.A[0] / sp.sqrt(p0)
        ok0 = sp.simplify(fin[0] - want0) == 0
        ok1 = sp.simplify(fin[1]) == 0
        chk.ob('R04.2', rs, loops[1].get('ln', rs.ln), ok0, 'outcome %d: bit-clear cell becomes %s (expected %s)' % (1 if one else 0, fin[0], want0), key='transform:outcome%d' % (1 if one else 0))
        chk.ob('R04.3', rs, loops[1].get('ln', rs.ln), ok1, 'outcome %d: bit-set cell becomes %s (expected 0)' % (1 if one else 0, fin[1]), key='cleared:outcome%d' % (1 if one else 0))

    # ---- R04.4 -----------------------------------------------------------------------------------
    # evaluator: every `reset` statement / release / reuse path calls sim.reset
    ev_ = R.ev
    sites = []
    for f in [x for x in R.ev_methods() if x.body]:
        for n in SX.walk(f.body, into_lambdas=False):
            if R.is_sim_call(n, (rs.short,)):
                sites.append((f, n))
    chk.count('evaluator→simulator reset call sites', len(sites), 3)
    exec_ = R.ev_method('exec')
    g = prog.cfg(exec_)
    rst = [c for c in g.calls(lambda e: R.is_sim_call(e, (rs.short,)))]
    handled = False
    for c in rst:
        for ce, pol, _ in g.guards(c):
            if pol and SX.is_node(ce) and SX.is_node(ce.get('cvinit')) and 'ResetStatement' in SX.show(ce['cvinit']):
                handled = True
    chk.ob('R04.4', exec_, rst[0].ln if rst else exec_.ln, handled, 'the reset statement is executed by the simulator\'s reset', key='stmt-calls-sim-reset')
    for role, fn in (('object destruction', 'destroyObject'), ('index reuse', 'allocateTrackedQubit')):
        f = R.ev_method(fn)
        has = any(R.is_sim_call(n, (rs.short,)) for n in SX.walk(f.body, into_lambdas=False))
        chk.ob('R04.4', f, f.ln, has, '%s resets the qubit through the simulator\'s reset' % role, key='path:' + fn)
    # no other simulator method zeroes amplitudes wholesale
    other = []
    for f in R.sim_methods():
        if f in (rs, sim['measure'], sim['allocate']) or not f.body:
            continue
        for n in SX.walk(f.body):
            w = SX.write_target(n)
            if w and w[2] == '=' and SX.is_node(SX.strip(w[0])) and SX.strip(w[0]).get('k') == 'index' and SX.show(SX.strip(w[0])['base']) == amp:
                rv = SX.strip(w[1])
                if SX.is_node(rv) and rv.get('v') in (0, 0.0):
                    other.append(f.short)
    chk.ob('R04.4', rs, rs.ln, not other, 'no other simulator method clears amplitudes: %s' % other, key='single-implementation', nontrivial=False)
