"""C01 — built-in gates act as their defining unitaries on exactly the addressed qubits."""
from .. import sx as SX
from ..facts import AnalysisBroken
from ..roles import Roles
from .. import kterm as KT

EXPLANATION = (
    "Decided from the simulator's source for every angle, register size, qubit index and state: (R01.1) each single-qubit gate's 2×2 "
    "matrix is folded symbolically (sympy, θ symbolic, C++ integer division honoured) from its initialiser and local definitions and "
    "proved unitary and equal to the qelib1 reference up to a global phase; (R01.2) the 2×2 application is evaluated symbolically per "
    "iteration with read-after-write semantics: the cell with bit q clear receives m0·a0+m1·a1 and its partner m2·a0+m3·a1, both from "
    "the values before the update; the partner index is base+2^q and the guard on q comes first; (R01.5) the loop nest matches the "
    "strided-block decomposition (outer stride 2·2^q over [0,size), inner [0,2^q), base i+j) whose index-set lemma is documented "
    "mathematics; (R01.3) for cx the index expressions are folded under both orderings of control/target and must equal "
    "base|2^control and base|2^control|2^target with base built from block|between<<(low+1)|lowOffset under bounds 2^(high+1), "
    "2^(high-low-1), 2^low, and the operation is a swap of exactly those two cells; (R01.4) the dispatch table: keys of the built-in "
    "table = name branches of the evaluator = simulator gate methods, each branch calls the simulator method of its own mnemonic with "
    "args[0].qubit (rotations: args[1].floatValue second; cx: args[0], args[1] in order) and matching arity. Floating-point rounding "
    "is not decided.")


def run(prog, chk):
    from .. import ksym as KS
    import sympy as sp
    R = Roles(prog)
    chk.trusted.append('sympy (closed-form simplification) from the tooling venv')
    chk.rule('R01.1', 'gate matrix is unitary and equals the qelib1 reference up to global phase, for every angle')
    chk.rule('R01.2', 'single-qubit application computes m·(a0,a1) from the pre-update amplitudes into the (bit clear, bit set) pair')
    chk.rule('R01.3', 'cx swaps exactly (control=1,target=0) ↔ (control=1,target=1), for both orderings of control and target')
    chk.rule('R01.4', 'dispatch table: built-in keys = evaluator branches = simulator gates, operands in order')
    chk.rule('R01.5', 'loop nests match the strided-block decomposition whose index-set lemma is documented')
    sim = R.sim_classify()
    gates = {g.short: g for g in sim['gates']}
    amp = R.amp_field
    # the 2x2 applicator: simulator method taking (int, const std::array<complex,4>&)
    app = [f for f in R.sim_methods() if len(f.params) == 2 and 'std::array<std::complex<double>, 4' in f.params[1]['type']]
    if len(app) != 1:
        raise AnalysisBroken('2x2 applicator not found')
    app = app[0]

    # a gate's matrix is a function of *this* call's angle: a function-local static initialised from a parameter (or from a local computed
    # from one) keeps the first call's value — every later rz would rotate by the first angle, whatever the log says
    from ..kernels import frozen_static_locals
    nst = 0
    for g_ in list(sim['gates']) + [app]:
        for v_, dep in frozen_static_locals(g_):
            nst += 1
            chk.ob('R01.1', g_, v_.get('ln', g_.ln), False, '%s keeps `%s` in static storage although its initialiser reads %s: it is computed on the first call only, so every later '
                   'call applies the first call\'s matrix' % (g_.short, v_['name'], dep), key='static-matrix:%s' % g_.short)
    chk.extra['static_locals_initialised_from_arguments'] = nst
    # ---- R01.1 ---------------------------------------------------------------------------------
    t = sp.Symbol('t', real=True)
    refs = KS.references(t)
    single = {}
    routed = {}     # gate name → (helper fn, call node in the gate) when the gate reaches the applicator through one private helper
    for name, g in gates.items():
        calls = [n for n in SX.walk(g.body) if n['k'] == 'mcall' and n['callee'] == app.name]
        if not calls:
            # `void h(int q) { applyNamedGate("h", q, hadamardMatrix()); }` — the helper applies its own (qubit, matrix) parameters
            for n in SX.walk(g.body, into_lambdas=False):
                if n['k'] == 'mcall' and n.get('callee', '').startswith(R.sim['name'] + '::') and n['callee'] != app.name:
                    for h_ in prog.resolve(n):
                        hc = [x for x in SX.walk(h_.body, into_lambdas=False) if x['k'] == 'mcall' and x['callee'] == app.name] if h_.body else []
                        if len(hc) == 1:
                            ha = SX.real_args(hc[0])
                            pq = [i for i, p_ in enumerate(h_.params) if SX.strip(ha[0]).get('id') == p_['id']]
                            pm = [i for i, p_ in enumerate(h_.params) if SX.strip(ha[1]).get('id') == p_['id']]
                            if len(pq) == 1 and len(pm) == 1:
                                ga_ = SX.real_args(n)
                                # a synthetic applicator call with the gate's own arguments
                                routed[name] = (h_, n)
                                calls = [{'k': 'mcall', 'callee': app.name, 'args': [ga_[pq[0]], ga_[pm[0]]], 'ln': n.get('ln')}]
        if not calls:
            continue
        single[name] = (g, calls)
    for g_ in sim.get('inert_gates', []):
        chk.ob('R01.1', g_, g_.ln, False, 'gate %s does not touch the state vector at all (its matrix is never applied)' % g_.short, key='matrix:' + g_.short)
    chk.count('single-qubit gates routed through the 2x2 applicator', len(single) + len(sim.get('inert_gates', [])), 7)
    for name, (g, calls) in sorted(single.items()):
        if name not in refs:
            chk.ob('R01.1', g, g.ln, False, 'gate %s has no reference unitary in the oracle table' % name, key='matrix:' + name)
            continue
        env = {}
        angle = [p for p in g.params if p['type'] == 'double']
        for p in angle:
            env[p['id']] = t
        qparam = g.params[0]
        ok = True
        detail = ''
        try:
            M = None
            for s in g.body['body']:
                if s['k'] == 'decls':
                    for v in s['d']:
                        if 'std::array<std::complex<double>, 4' in v['type']:
                            M = _matrix_of(prog, KS, SX.strip(v['init']), env)
                            env[v['id']] = M
                        elif v.get('init') is not None:
                            env[v['id']] = KS.to_sympy(v['init'], env)
            c = calls[0]
            a = SX.real_args(c)
            marg = SX.strip(a[1])
            if SX.is_node(marg) and marg['k'] == 'ref':
                M = env.get(marg.get('id'))
            elif SX.is_node(marg):
                M = _matrix_of(prog, KS, marg, env)
            if M is None:
                raise KS.Unfoldable('matrix argument not resolved')
            qok = SX.is_node(SX.strip(a[0])) and SX.strip(a[0]).get('id') == qparam['id']
            uni = KS.unitary(M)
            eq = KS.equal_up_to_phase(M, refs[name])
            ok = qok and uni and eq and len(calls) == 1
            detail = 'M=%s; unitary=%s, equals %s up to phase=%s, applied to own qubit parameter=%s, applications=%d' % (
                str(list(M))[:90], uni, name.upper(), eq, qok, len(calls))
        except KS.Unfoldable as e:
            raise AnalysisBroken('gate %s matrix not foldable: %s' % (name, e))
        chk.ob('R01.1', g, g.ln, ok, detail, key='matrix:' + name)

    # ---- R01.2 / R01.5 single-qubit application ---------------------------------------------------
    from ..knorm import normalise
    _apply_rule(prog, chk, R, normalise(prog, app, keep=(R.sim_ensure().name,)), amp, sp, KS)      # pair-update helpers inlined (K-NORM)

    # ---- R01.3 cx --------------------------------------------------------------------------------
    two = [g for n, g in gates.items() if n not in single]
    if len(two) != 1:
        raise AnalysisBroken('expected exactly one two-qubit gate, found %s' % [g.short for g in two])
    _cx_rule(prog, chk, R, normalise(prog, two[0], keep=(R.sim_ensure().name,)), amp)

    # ---- R01.4 dispatch ----------------------------------------------------------------------------
    _dispatch_rule(prog, chk, R, gates)


def _matrix_of(prog, KS, e, env, depth=0):
    """2x2 matrix denoted by an expression: a 4-entry initialiser, or a call of a matrix-building helper whose body is
    declarations, `if (param == Constant) return …;` selections and a final return (evaluated with the call's arguments)"""
    e = SX.strip(e)
    if SX.is_node(e) and e.get('k') in ('initlist', 'construct') and len((e.get('items') if e['k'] == 'initlist' else SX.real_args(e)) or []) == 4:
        return KS.matrix_from_initlist(e, env)
    if SX.is_node(e) and e.get('k') == 'construct' and len(SX.real_args(e)) == 1:
        return _matrix_of(prog, KS, SX.real_args(e)[0], env, depth)
    if SX.is_node(e) and e.get('k') == 'ref' and e.get('id') in env:
        return env[e['id']]
    if SX.is_node(e) and e.get('k') in ('call', 'mcall') and depth < 3:
        fs = [f for f in prog.resolve(e) if f.body]
        if len(fs) != 1:
            raise KS.Unfoldable('matrix helper %s not resolved' % SX.callee(e))
        h = fs[0]
        henv = {}
        consts = {}
        for p_, a_ in zip(h.params, SX.real_args(e)):
            a1 = SX.strip(a_)
            if SX.is_node(a1) and a1.get('k') == 'ref' and a1.get('kind') == 'enum':
                consts[p_['id']] = a1['name']
            else:
                henv[p_['id']] = KS.to_sympy(a_, env)

        def decide(c):
            cp = SX.cmp_parts(c)
            if cp and cp[0] in ('==', '!='):
                l, r = SX.strip(cp[1]), SX.strip(cp[2])
                for x, y in ((l, r), (r, l)):
                    if SX.is_node(x) and x.get('k') == 'ref' and x.get('id') in consts and SX.is_node(y) and y.get('k') == 'ref' and y.get('kind') == 'enum':
                        return (consts[x['id']] == y['name']) == (cp[0] == '==')
            raise KS.Unfoldable('condition %s in matrix helper' % SX.show(c)[:40])

        def run(stmts):
            for s_ in stmts:
                k = s_['k']
                if k == 'decls':
                    for v in s_['d']:
                        if v.get('init') is not None:
                            henv[v['id']] = KS.to_sympy(v['init'], henv)
                elif k == 'if':
                    br = s_['t'] if decide(s_['c']) else s_.get('e')
                    if br is not None:
                        r_ = run(br['body'] if br.get('k') == 'block' else [br])
                        if r_ is not None:
                            return r_
                elif k == 'return':
                    return _matrix_of(prog, KS, s_['e'], henv, depth + 1)
                elif k == 'switch':
                    raise KS.Unfoldable('switch in matrix helper')
                elif k in ('null',):
                    pass
                else:
                    raise KS.Unfoldable('statement %s in matrix helper' % k)
            return None
        m = run(h.body['body'] if h.body.get('k') == 'block' else [h.body])
        if m is None:
            raise KS.Unfoldable('matrix helper %s returns nothing on this selection' % h.short)
        return m
    raise KS.Unfoldable('matrix expression %s' % SX.show(e)[:40])


def _flat_applicator(prog, chk, app, loop, amp, q, marr, sp, KS):
    """`for (i = 0; i < n; ++i) { if (i & bit) continue; a0 = s[i]; a1 = s[i|bit]; s[i] = …; s[i|bit] = …; }` — evaluated per pair
    with the K-PAIR transformer kernel; True when the loop has this form (obligations emitted), False to fall back"""
    from .. import kpair as KP
    aliases = KP.size_aliases(app.body, amp)
    sw = KP.state_sweep(loop, amp, (), aliases)
    fl = (sw[1], sw[2]) if sw and sw[0] == 'flat' else None
    if fl is None:
        why = KP.partial_state_loop(loop, amp)
        if why:
            chk.ob('R01.5', app, loop.get('ln', app.ln), False, 'the sweep of the 2x2 applicator covers the whole state vector: it %s' % why, key='apply:flat-sweep')
            return True
        return False
    F = KT.Folder()
    bit_ids = []
    for s_ in app.body['body']:
        if s_['k'] == 'decls':
            for v in s_['d']:
                try:
                    t = F.fold(v['init'])
                except KT.Unfoldable:
                    continue
                F.env[v['id']] = t
                if t == KT.op('<<', KT.I(1), KT.S(q['name'])):
                    bit_ids.append(v['id'])
    if not bit_ids:
        return False
    ms = [sp.Symbol('m%d' % k) for k in range(4)]
    it = KP.PairIter(amp, fl[0]['id'], bit_ids, {}, {})
    it.arrays = {marr['id']: ms}
    try:
        fin = KP.pair_final(it, fl[1])
    except KP.OutsidePair as e:
        chk.ob('R01.2', app, loop.get('ln', app.ln), False, 'the update acts on the pair (i, i|2^q): %s' % e, key='apply:cells')
        return True
    except (KP.NotPairwise, KS.Unfoldable):
        return False
    A0, A1 = KP.A
    e0 = sp.expand(fin[0] - (ms[0] * A0 + ms[1] * A1))
    e1 = sp.expand(fin[1] - (ms[2] * A0 + ms[3] * A1))
    chk.ob('R01.5', app, loop.get('ln', app.ln), True, 'flat sweep over [0, %s.size()) handling each pair at its bit-clear index' % amp, key='apply:flat-sweep')
    chk.ob('R01.2', app, app.ln, e0 == 0, 'cell with bit q clear receives m[0]·a0 + m[1]·a1 of the PRE-update amplitudes (difference %s)' % e0, key='apply:row0')
    chk.ob('R01.2', app, app.ln, e1 == 0, 'cell with bit q set receives m[2]·a0 + m[3]·a1 of the PRE-update amplitudes (difference %s)' % e1, key='apply:row1')
    return True


def _loop_defect(s):
    """the statement is a counted loop over one declared index but deviates from `from 0, upwards, index untouched in the body`
    → reason; None when it is not that kind of loop at all (then the decomposition is simply not recognised)"""
    if s.get('k') != 'for' or not s.get('init') or s['init']['k'] != 'decls' or len(s['init']['d']) != 1:
        return None
    v = s['init']['d'][0]
    init = SX.strip(v.get('init'))
    while SX.is_node(init) and init['k'] in ('cast', 'initlist'):
        init = init['e'] if init['k'] == 'cast' else (init['items'][0] if init['items'] else None)
    why = []
    if SX.is_node(init) and init['k'] == 'int' and init['v'] != 0:
        why.append('starts at %d instead of 0' % init['v'])
    w = SX.write_target(s['inc']) if SX.is_node(s.get('inc')) else None
    if w and SX.is_node(SX.strip(w[0])) and SX.strip(w[0]).get('id') == v['id'] and w[2] in ('--', '-=', '*=', '/=', '='):
        why.append('steps with `%s`' % w[2])
    for n in SX.walk(s['body'], into_lambdas=False):
        ww = SX.write_target(n)
        if ww and SX.is_node(SX.strip(ww[0])) and SX.strip(ww[0]).get('id') == v['id']:
            why.append('index %s is modified in the body' % v['name'])
    return '; '.join(why) or None


def _loop_parts(s):
    """for (T v = 0; v < B; v += S | ++v) → (var, bound expr, stride expr or None for 1)"""
    if s['k'] != 'for' or not s.get('init') or s['init']['k'] != 'decls' or len(s['init']['d']) != 1:
        return None
    v = s['init']['d'][0]
    init = SX.strip(v.get('init'))
    while SX.is_node(init) and init['k'] in ('cast', 'initlist'):
        init = init['e'] if init['k'] == 'cast' else (init['items'][0] if init['items'] else None)
    if not (SX.is_node(init) and init['k'] == 'int' and init['v'] == 0):
        return None
    cp = SX.cmp_parts(s.get('c')) if SX.is_node(s.get('c')) else None
    if not cp or cp[0] not in ('<', '<=', '!='):
        return None
    lhs = SX.strip(cp[1])
    bound = cp[2]
    if not (SX.is_node(lhs) and lhs.get('id') == v['id']) or cp[0] != '<':
        # same skeleton with a shifted bound (v + k < B, v <= B, v != B): normalise to  v < B'  as a synthetic expression
        if not any(x.get('k') == 'ref' and x.get('id') == v['id'] for x in SX.walk(lhs)):
            return None
        vref = {'k': 'ref', 'kind': 'var', 'name': v['name'], 'id': v['id'], 't': v['type']}
        # B' = B - (lhs - v) (+1 for <=)
        bound = {'k': 'bin', 'op': '-', 'l': cp[2], 'r': {'k': 'bin', 'op': '-', 'l': lhs, 'r': vref, 't': 'unsigned long'}, 't': 'unsigned long'}
        if cp[0] == '<=':
            bound = {'k': 'bin', 'op': '+', 'l': bound, 'r': {'k': 'int', 'v': 1, 't': 'int'}, 't': 'unsigned long'}
        cp = ('<', lhs, bound)
    w = SX.write_target(s['inc']) if SX.is_node(s.get('inc')) else None
    if not w or SX.strip(w[0]).get('id') != v['id']:
        return None
    if w[2] == '++':
        stride = None
    elif w[2] == '+=':
        stride = w[1]
    else:
        return None
    # index not written in the body
    for n in SX.walk(s['body'], into_lambdas=False):
        ww = SX.write_target(n)
        if ww and SX.is_node(SX.strip(ww[0])) and SX.strip(ww[0]).get('id') == v['id']:
            return None
    return v, bound, stride


def _apply_rule(prog, chk, R, app, amp, sp, KS):
    q = app.params[0]
    marr = app.params[1]
    g = prog.cfg(app)
    se = R.sim_ensure()
    ens = [c for c in g.calls(lambda e: e['k'] == 'mcall' and e['callee'] == se.name and SX.is_node(SX.strip(SX.real_args(e)[0])) and SX.strip(SX.real_args(e)[0]).get('id') == q['id'])]
    loops = [s for s in app.body['body'] if s['k'] == 'for']
    if len(loops) != 1:
        raise AnalysisBroken('applicator: expected one outer loop')
    outer = loops[0]
    first_loop = [n for n in g.nodes if n.kind == 'loophead' and n.e is outer]
    chk.ob('R01.2', app, app.ln, bool(ens) and bool(first_loop) and g.must_precede(ens, first_loop[0]), 'guard on the qubit parameter precedes the update loop', key='apply:guard-first')
    # alternative decomposition: one flat sweep over the vector that handles the pair (i, i|2^q) at the bit-clear index
    if not [x for x in (outer['body']['body'] if outer['body']['k'] == 'block' else [outer['body']]) if x['k'] == 'for']:
        if _flat_applicator(prog, chk, app, outer, amp, q, marr, sp, KS):
            return
    # fold the straight-line definitions before the loop
    F = KT.Folder()
    for s in app.body['body']:
        if s['k'] == 'decls':
            for v in s['d']:
                try:
                    F.env[v['id']] = F.fold(v['init'])
                except KT.Unfoldable as e:
                    continue      # a flag computed from the matrix (a "fast path" selector), a named constant …: left unbound and judged
                                  # where it is used (folding an expression that needs it fails there, as analysis-broken)
    two_q = KT.op('<<', KT.I(1), KT.S(q['name']))
    po = _loop_parts(outer)
    inner = [s for s in (outer['body']['body'] if outer['body']['k'] == 'block' else [outer['body']]) if s['k'] == 'for']
    if po is None and _loop_defect(outer):
        chk.ob('R01.5', app, outer.get('ln', app.ln), False, 'the block loop of the pair sweep runs from 0 upwards over the whole vector: it %s' % _loop_defect(outer), key='apply:outer-shape')
        return
    if po is None or len(inner) != 1:
        raise AnalysisBroken('applicator: loop nest is not the strided-block form (other decompositions are not recognised)')
    pi = _loop_parts(inner[0])
    if pi is None and _loop_defect(inner[0]):
        chk.ob('R01.5', app, inner[0].get('ln', app.ln), False, 'the offset loop of the pair sweep runs from 0 upwards over [0, 2^q): it %s' % _loop_defect(inner[0]), key='apply:inner-shape')
        return
    if pi is None:
        raise AnalysisBroken('applicator: inner loop not in counted form')
    ov, obound, ostride = po
    iv, ibound, istride = pi
    size_t = KT.S('%s.size()' % amp)
    try:
        ob = F.fold(obound)
        os_ = F.fold(ostride) if ostride is not None else KT.I(1)
        ib = F.fold(ibound)
    except KT.Unfoldable as e:
        raise AnalysisBroken('applicator loop bounds: ' + str(e))
    chk.ob('R01.5', app, outer.get('ln', app.ln), ob == size_t, 'outer loop runs over [0, %s.size()) (found %s)' % (amp, KT.show(ob)), key='apply:outer-bound')
    chk.ob('R01.5', app, outer.get('ln', app.ln), os_ == KT.op('*', KT.I(2), two_q), 'outer stride is 2·2^q (found %s)' % KT.show(os_), key='apply:outer-stride')
    chk.ob('R01.5', app, inner[0].get('ln', app.ln), ib == two_q and istride is None, 'inner loop runs over [0, 2^q) with stride 1 (found bound %s)' % KT.show(ib), key='apply:inner-bound')
    # symbolic execution of one iteration of the inner body with read-after-write semantics
    body = inner[0]['body']['body'] if inner[0]['body']['k'] == 'block' else [inner[0]['body']]
    # linearity: the update of a pair is unconditional — no branch, skip or early exit inside the loop nest (a "fast path" that
    # skips pairs by looking at the amplitudes makes the gate non-linear)
    # a shortcut selected by the matrix alone (`if (flipOnly) { swap(a0, a1); continue; }` with flipOnly := m[0] == 0 && m[3] == 0) is
    # the same linear map only if it equals m·(a0, a1) for every matrix that selects it: decided exactly, then set aside
    body, sc_bad = _matrix_shortcut(app, body, marr, amp, sp, KS)
    if sc_bad:
        chk.ob('R01.2', app, sc_bad[0] or app.ln, False, 'a shortcut selected by matrix entries must act as the matrix does for every matrix that selects it: %s' % sc_bad[1],
               key='apply:shortcut')
        return
    ctl = [x for s_ in body for x in SX.walk(s_, into_lambdas=False) if x['k'] in ('if', 'continue', 'break', 'return', 'switch', 'while', 'do', 'cond', 'goto')]
    chk.ob('R01.2', app, (ctl[0].get('ln') if ctl else outer.get('ln')) or app.ln, not ctl,
           'every pair of the sweep is updated unconditionally: the loop nest contains no branch, skip or early exit (found %s)' %
           [SX.show(x.get('c'))[:50] if x['k'] in ('if', 'cond') else x['k'] for x in ctl][:3], key='apply:unconditional')
    if ctl:
        return
    env_t = dict(F.env)
    env_t[ov['id']] = KT.S('i')
    env_t[iv['id']] = KT.S('j')
    FT = KT.Folder(env_t)
    a0, a1 = sp.Symbol('a0'), sp.Symbol('a1')
    ms = [sp.Symbol('m%d' % k) for k in range(4)]
    store = {}     # index term → sympy value written in this iteration
    pre = {}       # index term → symbol of the pre-update amplitude

    def read_amp(idx_term):
        if idx_term in store:
            return store[idx_term]
        if idx_term not in pre:
            pre[idx_term] = sp.Symbol('S%d' % len(pre))
        return pre[idx_term]
    senv = {}

    def reads(e):
        base = SX.show(e['base'])
        if base == amp:
            return read_amp(FT.fold(e['i']))
        if SX.is_node(SX.strip(e['base'])) and SX.strip(e['base']).get('id') == marr['id']:
            k = SX.strip(e['i'])
            if SX.is_node(k) and k['k'] == 'int' and 0 <= k['v'] < 4:
                return ms[k['v']]
        raise KS.Unfoldable('read of ' + SX.show(e))
    try:
        for s in body:
            if s['k'] == 'decls':
                for v in s['d']:
                    if 'complex' in v['type']:
                        senv[v['id']] = KS.to_sympy(v['init'], senv, reads)
                    else:
                        FT.env[v['id']] = FT.fold(v['init'])
            elif s['k'] == 'expr':
                w = SX.write_target(s['e'])
                if not w or w[2] != '=':
                    raise KS.Unfoldable('unexpected statement ' + SX.show(s['e'])[:40])
                l = SX.strip(w[0])
                if not (l['k'] == 'index' and SX.show(l['base']) == amp):
                    raise KS.Unfoldable('store to ' + SX.show(l))
                idx = FT.fold(l['i'])
                store[idx] = sp.expand(KS.to_sympy(w[1], senv, reads))
            elif s['k'] == 'null':
                pass
            else:
                raise KS.Unfoldable('statement kind ' + s['k'])
    except (KS.Unfoldable, KT.Unfoldable) as e:
        raise AnalysisBroken('applicator body not foldable: ' + str(e))
    base_t = KT.op('+', KT.S('i'), KT.S('j'))
    part_t = KT.op('+', base_t, two_q)
    part_or = KT.op('|', base_t, two_q)
    idxs = list(store)
    ok_idx = len(idxs) == 2 and base_t in idxs and (part_t in idxs or part_or in idxs)
    chk.ob('R01.2', app, inner[0].get('ln', app.ln), ok_idx, 'one iteration writes exactly the cells i+j and i+j+2^q (found %s)' % [KT.show(x) for x in idxs], key='apply:cells')
    if ok_idx:
        hi = part_t if part_t in idxs else part_or
        A0, A1 = pre.get(base_t), pre.get(hi)
        if A0 is None or A1 is None:
            chk.ob('R01.2', app, app.ln, False, 'the update does not read both amplitudes of the pair', key='apply:reads-both')
        else:
            e0 = sp.expand(store[base_t] - (ms[0] * A0 + ms[1] * A1))
            e1 = sp.expand(store[hi] - (ms[2] * A0 + ms[3] * A1))
            chk.ob('R01.2', app, app.ln, e0 == 0, 'cell with bit q clear receives m[0]·a0 + m[1]·a1 of the PRE-update amplitudes (difference %s)' % e0, key='apply:row0')
            chk.ob('R01.2', app, app.ln, e1 == 0, 'cell with bit q set receives m[2]·a0 + m[3]·a1 of the PRE-update amplitudes (difference %s)' % e1, key='apply:row1')


def _cx_flat(prog, chk, cx, loop, amp, c, t):
    """cx written as one flat sweep with two bit tests: evaluated per four-cell group (control bit, target bit) for both
    orders in which the sweep can meet the cells; True when handled"""
    from .. import kpair as KP
    sw = KP.state_sweep(loop, amp, (), KP.size_aliases(cx.body, amp))
    if not sw or sw[0] != 'flat':
        return False
    F = KT.Folder()
    cb, tb, bb = [], [], []
    for s_ in cx.body['body']:
        if s_['k'] == 'decls':
            for v in s_['d']:
                try:
                    term = F.fold(v['init'])
                except KT.Unfoldable:
                    continue
                F.env[v['id']] = term
                if term == KT.op('<<', KT.I(1), KT.S(c['name'])):
                    cb.append(v['id'])
                if term == KT.op('<<', KT.I(1), KT.S(t['name'])):
                    tb.append(v['id'])
                if term in (KT.op('|', KT.op('<<', KT.I(1), KT.S(c['name'])), KT.op('<<', KT.I(1), KT.S(t['name']))),
                            KT.op('|', KT.op('<<', KT.I(1), KT.S(t['name'])), KT.op('<<', KT.I(1), KT.S(c['name'])))):
                    bb.append(v['id'])
    if not cb or not tb:
        return False
    cells = [(0, 0), (0, 1), (1, 0), (1, 1)]
    want = {(0, 0): 'S00', (0, 1): 'S01', (1, 0): 'S11', (1, 1): 'S10'}
    it = KP.QuadIter(amp, sw[1]['id'], cb, tb, bb)
    for lt, order in ((True, [(0, 0), (1, 0), (0, 1), (1, 1)]), (False, [(0, 0), (0, 1), (1, 0), (1, 1)])):
        state = {x: 'S%d%d' % x for x in cells}
        try:
            for cur in order:
                state = it.run(sw[2], cur, state)
        except KP.OutsidePair as e:
            chk.ob('R01.3', cx, loop.get('ln', cx.ln), False, 'cx touches only the cells of the current (control, target) group: %s' % e, key='cx:pair:' + ('control<target' if lt else 'control>target'))
            continue
        except KP.NotPairwise:
            return False
        chk.ob('R01.3', cx, loop.get('ln', cx.ln), state == want,
               '[%s] flat sweep: the group (control,target) ∈ {00,01,10,11} ends as %s; cx swaps exactly 10 ↔ 11' % ('control<target' if lt else 'control>target', state),
               key='cx:pair:' + ('control<target' if lt else 'control>target'))
    chk.ob('R01.5', cx, loop.get('ln', cx.ln), True, 'cx sweeps [0, %s.size()) once' % amp, key='cx:flat-sweep')
    return True


def _cx_rule(prog, chk, R, cx, amp):
    c, t = cx.params[0], cx.params[1]
    C, T = KT.S(c['name']), KT.S(t['name'])
    g = prog.cfg(cx)
    se = R.sim_ensure()
    stmts = cx.body['body']
    loops = [s for s in stmts if s['k'] == 'for']
    if len(loops) != 1:
        raise AnalysisBroken('cx: expected one outer loop')
    inner_loops = [x for x in SX.walk(loops[0]['body'], into_lambdas=False) if x['k'] in ('for', 'while', 'forrange')]
    if not inner_loops and _cx_flat(prog, chk, cx, loops[0], amp, c, t):
        return
    for case, lt in (('control<target', True), ('control>target', False)):
        def facts(term, lt=lt):
            # resolve comparisons between control and target (and derived low/high) under the case hypothesis
            if term[0] != 'op':
                return None
            o, (a, b) = term[1], term[2]
            order = {C: 0 if lt else 1, T: 1 if lt else 0}
            if a in order and b in order:
                va, vb = order[a], order[b]
                return {'<': va < vb, '>': va > vb, '==': va == vb, '!=': va != vb, '<=': va <= vb, '>=': va >= vb}.get(o)
            return None
        F = KT.Folder(facts=facts)
        try:
            for s in stmts:
                if s['k'] == 'decls':
                    for v in s['d']:
                        F.env[v['id']] = F.fold(v['init'])
        except KT.Unfoldable as e:
            raise AnalysisBroken('cx prologue: ' + str(e))
        low, high = (C, T) if lt else (T, C)
        # walk the three loops
        nest = []
        cur = loops[0]
        while True:
            p = _loop_parts(cur)
            if p is None and _loop_defect(cur):
                chk.ob('R01.3', cx, cur.get('ln', cx.ln), False, 'each loop of the cx sweep runs from 0 upwards with its index untouched: it %s' % _loop_defect(cur),
                       key='cx:loop-shape:%s' % ('control<target' if lt else 'control>target'))
                return
            if p is None:
                raise AnalysisBroken('cx: loop not in counted form (other decompositions are not recognised)')
            nest.append((cur, p))
            body = cur['body']['body'] if cur['body']['k'] == 'block' else [cur['body']]
            # definitions at this level
            for s in body:
                if s['k'] == 'decls':
                    for v in s['d']:
                        F.env[p[0]['id']] = KT.S(p[0]['name'])
            inner = [s for s in body if s['k'] == 'for']
            if not inner:
                last_body = body
                break
            # fold decls before the inner loop with the loop variable symbolic
            F.env[p[0]['id']] = KT.S(p[0]['name'])
            for s in body:
                if s['k'] == 'decls':
                    for v in s['d']:
                        try:
                            F.env[v['id']] = F.fold(v['init'])
                        except KT.Unfoldable as e:
                            raise AnalysisBroken('cx: ' + str(e))
            cur = inner[0]
        if len(nest) != 3:
            raise AnalysisBroken('cx: expected a three-level loop nest, found %d' % len(nest))
        F.env[nest[2][1][0]['id']] = KT.S(nest[2][1][0]['name'])
        names = [n[1][0]['name'] for n in nest]
        try:
            bounds = [F.fold(n[1][1]) for n in nest]
            strides = [F.fold(n[1][2]) if n[1][2] is not None else KT.I(1) for n in nest]
        except KT.Unfoldable as e:
            raise AnalysisBroken('cx bounds: ' + str(e))
        one = KT.I(1)
        want_b = [KT.S('%s.size()' % amp), _between_span(high, low), KT.op('<<', one, low)]
        want_s = [KT.op('<<', one, KT.op('+', high, one)), one, one]
        got_between = _normalise_between(bounds[1], high, low)
        okb = bounds[0] == want_b[0] and got_between == want_b[1] and bounds[2] == want_b[2]
        oks = strides == want_s
        chk.ob('R01.5', cx, nest[0][0].get('ln', cx.ln), okb,
               '[%s] loop bounds: block<size, between<2^(high-low-1), lowOffset<2^low (found %s)' % (case, [KT.show(b) for b in bounds]), key='cx:bounds:' + case)
        chk.ob('R01.5', cx, nest[0][0].get('ln', cx.ln), oks, '[%s] strides: 2^(high+1), 1, 1 (found %s)' % (case, [KT.show(s) for s in strides]), key='cx:strides:' + case)
        # innermost body: definitions then the swap
        swaps = []
        try:
            for s in last_body:
                if s['k'] == 'decls':
                    for v in s['d']:
                        F.env[v['id']] = F.fold(v['init'])
                elif s['k'] == 'expr':
                    e = s['e']
                    if e['k'] == 'call' and e.get('callee') == 'std::swap':
                        a = [SX.strip(x) for x in SX.real_args(e)]
                        if all(x['k'] == 'index' and SX.show(x['base']) == amp for x in a):
                            swaps.append((F.fold(a[0]['i']), F.fold(a[1]['i'])))
                            continue
                    raise KT.Unfoldable('unexpected statement in the innermost body: ' + SX.show(e)[:50])
                else:
                    raise KT.Unfoldable('statement kind ' + s['k'])
        except KT.Unfoldable as e:
            raise AnalysisBroken('cx body: ' + str(e))
        base = KT.op('|', KT.S(names[0]), KT.op('<<', KT.S(names[1]), KT.op('+', low, one)), KT.S(names[2]))
        i0 = KT.op('|', base, KT.op('<<', one, C))
        i1 = KT.op('|', i0, KT.op('<<', one, T))
        ok = len(swaps) == 1 and ((swaps[0] == (i0, i1)) or (swaps[0] == (i1, i0)))
        chk.ob('R01.3', cx, cx.ln, ok, '[%s] swaps exactly base|2^control ↔ base|2^control|2^target with base = block | between<<(low+1) | lowOffset (found %s)' % (
            case, [(KT.show(a), KT.show(b)) for a, b in swaps]), key='cx:pair:' + case)
    # guards on both operands precede the loops
    for p in (c, t):
        ens = [x for x in g.calls(lambda e: e['k'] == 'mcall' and e['callee'] == se.name and SX.is_node(SX.strip(SX.real_args(e)[0])) and SX.strip(SX.real_args(e)[0]).get('id') == p['id'])]
        heads = [n for n in g.nodes if n.kind == 'loophead']
        chk.ob('R01.3', cx, cx.ln, bool(ens) and all(g.must_precede(ens, h) for h in heads), 'guard on %s precedes the update' % p['name'], key='cx:guard:' + p['name'])


def _between_span(high, low):
    return KT.op('<<', KT.I(1), KT.op('+', high, KT.op('*', KT.I(-1), low), KT.I(-1)))


def _normalise_between(b, high, low):
    """(high > low+1) ? 1<<(high-low-1) : 1   equals 1<<(high-low-1) in both cases (high = low+1 gives 1<<0)"""
    want = _between_span(high, low)
    if b == want:
        return want
    if b[0] == 'op' and b[1] == '?:':
        c, x, y = b[2]
        cond_ok = c == ('op', '>', (high, KT.op('+', low, KT.I(1))))
        if cond_ok and x == want and y == KT.I(1):
            return want
    return b


def _dispatch_rule(prog, chk, R, gates):
    # keys of the built-in table
    tbl = [gl for (nm, fl, ln), gl in prog.facts.globals.items() if nm.endswith('builtInGates')]
    if len(tbl) != 1:
        raise AnalysisBroken('builtInGates table not found')
    keys = {}
    init = tbl[0]['init']
    for n in SX.walk(init):
        if n['k'] in ('initlist', 'construct') and 'BuiltInGate' in n.get('type', ''):
            items = n.get('items') or n.get('args') or []
            if items and SX.is_node(items[0]) and _str(items[0]) is not None:
                params = [x['name'].split('::')[-1] for x in SX.walk(items[1]) if x['k'] == 'ref' and x.get('kind') == 'enum'] if len(items) > 1 else []
                keys[_str(items[0])] = params
    chk.count('built-in gate table entries', len(keys), 8)
    ev = R.ev_method('eval')
    g = prog.cfg(ev)
    from ..kcanon import Canon
    canon = Canon(prog, ev)
    branches = {}
    for node in g.calls(lambda e: R.is_sim_call(e) and SX.short(e['callee']) in gates):
        nm = None
        for ce, pol, _ in g.guards(node):
            cp = SX.cmp_parts(ce)
            if cp and ((cp[0] == '==' and pol)) and any(_str(x) is not None for x in cp[1:]):
                nm = [_str(x) for x in cp[1:] if _str(x) is not None][0]
                break
        branches.setdefault(nm, []).append(node)
    if not branches:
        # no direct call of a simulator gate in the evaluator at all: the dispatch goes through a form this rule does not read
        # (e.g. a table of member-function pointers) — nothing can be said about it
        raise AnalysisBroken('built-in gate dispatch: no direct simulator gate call found in %s (indirect dispatch is not modelled)' % ev.short)
    simnames = set(gates)
    chk.ob('R01.4', ev, ev.ln, set(keys) == simnames, 'built-in table keys %s must equal the simulator gate set %s' % (sorted(keys), sorted(simnames)), key='keys=gates')
    chk.ob('R01.4', ev, ev.ln, set(k for k in branches if k) == set(keys) and None not in branches,
           'every built-in key has exactly its own name branch in the evaluator (branches: %s)' % sorted(str(k) for k in branches), key='keys=branches')
    for nm, nodes in sorted((k, v) for k, v in branches.items() if k):
        for node in nodes:
            c = node.e
            meth = SX.short(c['callee'])
            # operands in canonical form (a named local or a check-and-fetch closure is the same operand, K-CANON); the k-th
            # operand is element k of the evaluated-argument vector, whatever that vector is called
            a = [canon.text(x) for x in SX.real_args(c)]
            import re as _re
            m0 = _re.match(r'^(\w+)\[0\]\.qubit$', a[0] or '') if a else None
            vec = m0.group(1) if m0 else 'args'
            vec_ok = bool(m0) and any(v['k'] == 'var' and v.get('name') == vec and 'vector<bloch::runtime::Value>' in (v.get('type') or '') for v in SX.walk(ev.body, into_lambdas=False))
            want = ['%s[0].qubit' % vec]
            if keys.get(nm, [None, None])[1:2] == ['Float']:
                want.append('%s[1].floatValue' % vec)
            elif keys.get(nm, [None, None])[1:2] == ['Qubit']:
                want.append('%s[1].qubit' % vec)
            ok = meth == nm and vec_ok and a == want and len(gates[meth].params) == len(keys.get(nm, []))
            chk.ob('R01.4', ev, node.ln, ok, 'branch "%s" calls sim.%s(%s); expected sim.%s(%s) with arity %d' % (nm, meth, ', '.join(a), nm, ', '.join(want), len(keys.get(nm, []))),
                   key='branch:' + nm)
        chk.ob('R01.4', ev, nodes[0].ln, len(nodes) == 1, 'branch "%s" applies the gate exactly once (found %d)' % (nm, len(nodes)), key='once:' + nm, nontrivial=False)


def _str(e):
    e = SX.strip(e)
    if SX.is_node(e) and e['k'] == 'str':
        return e['v']
    if SX.is_node(e) and e['k'] == 'construct' and e.get('args'):
        for a in e['args']:
            if SX.is_node(a) and a.get('k') == 'str':
                return a['v']
    return None


def _matrix_shortcut(app, body, marr, amp, sp, KS):
    """body[0] of the form `if (flag) { stores / std::swap on the pair; continue; }` with flag a const bool of the applicator defined
    as a conjunction of `m[k] == constant` → (body without it, None) when the branch equals m·(a0,a1) under those equalities,
    (body, (line, why)) when it does not; anything else is returned unchanged (and judged by the unconditional-update rule)."""
    pos = next((i_ for i_, s_ in enumerate(body) if s_['k'] != 'decls'), None)
    if pos is None or body[pos]['k'] != 'if' or body[pos].get('e') or body[pos].get('cv'):
        return body, None
    st = body[pos]
    c = SX.strip(st['c'])
    if not (SX.is_node(c) and c.get('k') == 'ref'):
        return body, None
    decl = [v for v in SX.walk(app.body, into_lambdas=False) if v['k'] == 'var' and v.get('id') == c.get('id')]
    if len(decl) != 1 or not SX.is_node(decl[0].get('init')):
        return body, None
    eqs = {}

    def conj(e):
        e = SX.strip(e)
        if SX.is_node(e) and e.get('k') == 'bin' and e.get('op') == '&&':
            return conj(e['l']) and conj(e['r'])
        cp = SX.cmp_parts(e)
        if cp and cp[0] == '==':
            for a, b in ((cp[1], cp[2]), (cp[2], cp[1])):
                a, b = SX.strip(a), SX.strip(b)
                while SX.is_node(b) and b.get('k') in ('cast', 'construct') and (b['k'] == 'cast' or len(SX.real_args(b)) == 1):
                    b = SX.strip(b['e'] if b['k'] == 'cast' else SX.real_args(b)[0])
                if SX.is_node(a) and a.get('k') == 'index' and SX.strip(a['base']).get('id') == marr['id'] and SX.strip(a['i']).get('k') == 'int' \
                        and SX.is_node(b) and b.get('k') in ('int', 'float'):
                    eqs[SX.strip(a['i'])['v']] = b['v']
                    return True
        return False
    if not conj(decl[0]['init']) or not eqs:
        return body, None
    tb = st['t']['body'] if st['t'].get('k') == 'block' else [st['t']]
    if not tb or tb[-1]['k'] != 'continue':
        return body, None
    a0, a1 = sp.Symbol('a0'), sp.Symbol('a1')
    ms = [sp.Integer(eqs[k]) if k in eqs and float(eqs[k]) == int(eqs[k]) else (sp.Float(eqs[k]) if k in eqs else sp.Symbol('m%d' % k)) for k in range(4)]
    # the two cells of the pair are the two distinct index expressions the branch touches, in the order of the general update
    idx_txt = []
    for s_ in body[pos + 1:]:
        for x in SX.walk(s_):
            if x['k'] == 'index' and SX.show(x['base']) == amp and SX.show(x['i']) not in idx_txt:
                idx_txt.append(SX.show(x['i']))
    if len(idx_txt) != 2:
        return body, None
    cur = {idx_txt[0]: a0, idx_txt[1]: a1}
    try:
        for s_ in tb[:-1]:
            e = SX.strip(s_.get('e')) if s_['k'] == 'expr' else None
            if SX.is_node(e) and e.get('k') == 'call' and e.get('callee') == 'std::swap':
                x, y = [SX.strip(a_) for a_ in SX.real_args(e)]
                kx, ky = SX.show(x['i']), SX.show(y['i'])
                cur[kx], cur[ky] = cur[ky], cur[kx]
                continue
            w = SX.write_target(e) if SX.is_node(e) else None
            if w and w[2] == '=' and SX.strip(w[0]).get('k') == 'index' and SX.show(SX.strip(w[0])['base']) == amp:
                def rd(ix):
                    if SX.show(ix['base']) == amp:
                        return cur[SX.show(ix['i'])]
                    k_ = SX.strip(ix['i'])
                    return ms[k_['v']]
                cur[SX.show(SX.strip(w[0])['i'])] = sp.expand(KS.to_sympy(w[1], {}, rd))
                continue
            return body, None
    except Exception:
        return body, None
    d0 = sp.simplify(cur[idx_txt[0]] - (ms[0] * a0 + ms[1] * a1))
    d1 = sp.simplify(cur[idx_txt[1]] - (ms[2] * a0 + ms[3] * a1))
    if d0 == 0 and d1 == 0:
        return body[:pos] + body[pos + 1:], None
    cond_txt = ' && '.join('m[%d] == %s' % (k, eqs[k]) for k in sorted(eqs))
    return body, (st.get('ln'), 'under %s the branch yields (%s, %s) where the matrix gives (%s, %s) — e.g. the y gate has that shape and is not a plain swap' % (
        cond_txt, cur[idx_txt[0]], cur[idx_txt[1]], sp.expand(ms[0] * a0 + ms[1] * a1), sp.expand(ms[2] * a0 + ms[3] * a1)))
