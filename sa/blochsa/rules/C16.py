"""C16 — static rules are enforced in every syntactic position ("enforced everywhere", not "only there")."""
import itertools
from .. import sx as SX
from ..facts import AnalysisBroken
from ..kabs import Interp, Obj, Unsupported

EXPLANATION = (
    "(A) Obligation matrix: each documented hard rule × every analyser function that can perform the offending act; a cell is discharged "
    "when the function, or a callee within depth 2, contains a Semantic throw controlled by the rule's predicate (final / visibility / "
    "declared / void / static-abstract / this-super-in-static / @quantum / @shots / type compatibility). Sibling visitors "
    "(function/method/constructor; the two assignment forms; postfix) must agree cell by cell. (B) The type-compatibility relation "
    "itself is decided exactly: isAssignableType, conversionCost and matchesPrimitive are evaluated abstractly from their own syntax "
    "trees over expected ∈ {8 primitives, class A, B⊂A, unrelated C, int[], string[], A[]} × actual ∈ the same ∪ {null, unknown} and "
    "compared with the documented relation (same type, int→long, subclass instance, null for class references, unknown passes); "
    "(C) at every site, the only escape from the comparison is 'the value's type is really unknown': a test of the Unknown primitive "
    "tag on an inferred value type is a violation, because class and array values carry that tag too. Absence of false rejections "
    "outside the enumerated domain is not decided; predicates other than type compatibility are checked for presence, not correctness.")

AN = 'bloch::compiler::SemanticAnalyser'
VT = 'bloch::compiler::ValueType::'


def run(prog, chk):
    chk.rule('R16.A', 'obligation matrix: rule predicate × analyser site has a guarded Semantic throw')
    chk.rule('R16.B', 'type-compatibility helpers equal the documented relation on the whole finite type domain')
    chk.rule('R16.C', 'no site skips the comparison by testing the Unknown primitive tag of an inferred value type')
    chk.rule('R16.E', 'final-field nesting: every visitor of a statement with sub-statements raises the nesting counter before visiting any child')
    chk.rule('R16.D', 'context discipline: a context member a visitor sets for the body it analyses is saved first and restored on every normal exit')
    fns = [f for f in prog.functions if f.body and f.file.endswith('semantic_analyser.cpp')]
    chk.rule('R16.F', 'sibling agreement: every constructor-argument check instantiates the parameter list of a generic class (or matches an empty list)')
    gchk = _GuardAware(chk, prog, fns)
    _context_discipline(prog, gchk, fns)
    _ctor_params_instantiated(prog, chk, fns)
    chk.rule('R16.G', 'every visitor of a declaration with a body sets the return context that visit(ReturnStatement) decides from')
    _return_context_rule(prog, gchk, fns)
    _nesting_counter_rule(prog, chk, fns)
    visits = {}
    for f in fns:
        if f.short == 'visit' and f.cls == AN and f.params:
            visits[f.params[0]['type'].split('::')[-1].replace(' &', '')] = f
    named = {f.short: f for f in fns if f.kind in ('method', 'function') and f.short != 'visit'}
    chk.count('analyser visit methods', len(visits), 45)

    def site(name):
        if name in visits:
            return visits[name]
        if name in named:
            return named[name]
        raise AnalysisBroken('analyser site %s not found' % name)

    def dedicated(t, family, depth=2):
        """t is a helper that exists for the sites of this rule only: every caller is one of those sites or such a helper
        (e.g. the shared body of the two assignment visitors) — unlike a general-purpose function that many visitors use"""
        cs = [gfn for gfn, call in prog.callers(t)]
        if not cs:
            return False
        for gfn in cs:
            top = gfn
            while top.kind == 'lambda' and getattr(top, 'parent', None) is not None:
                top = top.parent
            if any(top is x for x in family):
                continue
            if depth > 0 and top.short != 'visit' and top is not t and dedicated(top, family, depth - 1):
                continue
            return False
        return True

    def has_cell(f, pred, depth=2, seen=None, family=()):
        """A Semantic throw in f is controlled by a test involving the rule's predicate: some branch condition that mentions the
        predicate (directly, or through a local whose initialiser mentions it) can reach the throw; or f calls an analyser function
        (depth-bounded) for which that holds; or f calls a predicate function that itself throws."""
        seen = seen if seen is not None else set()
        if id(f) in seen:
            return False
        seen.add(id(f))
        flagged = set()
        for v in SX.walk(f.body, into_lambdas=False):
            if v['k'] == 'var' and SX.is_node(v.get('init')) and _has(v['init'], pred):
                flagged.add(v['id'])
        # assignments to locals from predicate expressions also flag them (e.g. ok = ok && isX(...))
        for n in SX.walk(f.body, into_lambdas=False):
            w = SX.write_target(n)
            if w and w[1] is not None and SX.is_node(SX.strip(w[0])) and SX.strip(w[0]).get('k') == 'ref' and _has(w[1], pred):
                flagged.add(SX.strip(w[0]).get('id'))

        def mentions(e):
            return _has(e, pred) or any(x['k'] == 'ref' and x.get('id') in flagged for x in SX.walk(e))
        g = prog.cfg(f)
        throws = [t for t in g.nodes if t.kind == 'throw' and _is_semantic(t.e)]
        if throws:
            tids = {t.id for t in throws}
            for c in g.nodes:
                if c.kind == 'cond' and SX.is_node(c.e) and c.e.get('k') != 'rangehas' and mentions(c.e):
                    if tids & g.reachable([c]):
                        return True
        for lf in f.lambdas:
            if has_cell(lf, pred, depth, seen, family):
                return True
        if depth > 0:
            for call, fs in prog.callees(f):
                for t in fs:
                    if t.body and t.file.endswith('semantic_analyser.cpp') and t.short != 'visit' and t.kind != 'lambda':
                        if pred(call) and _fn_throws(t):
                            return True
                        # only the rule's own resolver/validator helpers may discharge a cell on behalf of a visitor; an unrelated
                        # callee that happens to enforce the rule for its own purposes (e.g. type inference) does not
                        if (t.short in HELPERS or dedicated(t, family)) and has_cell(t, pred, depth - 1, seen, family):
                            return True
        return False

    HELPERS = {'resolveField', 'validateTypedInitializer', 'recordFinalFieldAssignment', 'checkArgs', 'validateTypeApplication'}
    P = {
        'final-local': lambda n: n.get('k') == 'mcall' and SX.short(n.get('callee', '')) == 'isFinal',
        'final-field': lambda n: (n.get('k') == 'mcall' and SX.short(n.get('callee', '')) == 'recordFinalFieldAssignment') or (n.get('k') == 'member' and n.get('name') == 'isFinal'),
        'final-receiver': lambda n: n.get('k') == 'mcall' and SX.short(n.get('callee', '')) == 'isThisReference',
        'visibility': lambda n: n.get('k') == 'mcall' and SX.short(n.get('callee', '')) == 'isAccessible',
        'declared': lambda n: n.get('k') == 'mcall' and SX.short(n.get('callee', '')) == 'isDeclared',
        'type-compat': lambda n: (n.get('k') in ('mcall', 'call', 'opcall') and SX.short(SX.callee(n) or SX.show(n.get('args', [{}])[0] if n.get('k') == 'opcall' else n)) in
                                  ('isAssignableType', 'matchesPrimitive', 'validateTypedInitializer', 'paramsAssignable', 'conversionCost', 'paramsConversionCost'))
        or (n.get('k') == 'ref' and n.get('name', '').endswith('matchesPrimitive')),
        'void': lambda n: n.get('k') == 'ref' and n.get('kind') == 'enum' and n['name'].endswith('ValueType::Void'),
        'void-call': lambda n: n.get('k') == 'mcall' and SX.short(n.get('callee', '')) == 'returnsVoid',
        'static-abstract': lambda n: n.get('k') == 'member' and n.get('name') in ('isStatic', 'isAbstract'),
        'static-context': lambda n: n.get('k') == 'member' and n.get('name') == 'm_inStaticContext',
        'quantum': lambda n: n.get('k') == 'member' and n.get('name') == 'hasQuantumAnnotation',
        'shots': lambda n: (n.get('k') == 'str' and n.get('v') == 'shots') or (n.get('k') == 'member' and n.get('name') == 'hasShotsAnnotation'),
        'null': lambda n: n.get('k') == 'ref' and n.get('kind') == 'enum' and n['name'].endswith('ValueType::Null'),
    }
    MATRIX = [
        ('final-local', 'a final variable is never assigned or incremented', ['AssignmentStatement', 'AssignmentExpression', 'PostfixExpression']),
        ('final-field', 'a final field is assigned at most once, in a constructor, at top level',
         ['AssignmentStatement', 'AssignmentExpression', 'MemberAssignmentExpression', 'buildClassRegistry']),
        ('final-receiver', 'a final field is written through `this` only (a write through another reference would be counted as initialising this object\'s field)',
         ['MemberAssignmentExpression']),
        ('visibility', 'private/protected members are inaccessible outside their class/hierarchy by any route',
         ['MemberAccessExpression', 'MemberAssignmentExpression', 'CallExpression', 'resolveField', 'NewExpression', 'ConstructorDeclaration']),
        ('type-compat', 'a value of known type is accepted only if compatible with the declared type',
         ['VariableDeclaration', 'FieldDeclaration', 'AssignmentStatement', 'AssignmentExpression', 'MemberAssignmentExpression', 'ArrayAssignmentExpression', 'ReturnStatement',
          'CallExpression', 'NewExpression']),
        ('null', 'null only for class references', ['AssignmentStatement', 'AssignmentExpression', 'MemberAssignmentExpression', 'validateTypedInitializer', 'ReturnStatement']),
        ('declared', 'use before declaration / redeclaration in an active scope',
         ['VariableExpression', 'AssignmentStatement', 'AssignmentExpression', 'PostfixExpression', 'VariableDeclaration', 'FunctionDeclaration', 'MethodDeclaration',
          'ConstructorDeclaration']),
        ('void', 'void variables, fields, parameters; return value mismatch', ['VariableDeclaration', 'FieldDeclaration', 'Parameter', 'ReturnStatement']),
        ('void-call', 'the result of a void call is never used to initialise a variable (other positions are rejected by type compatibility: a void value matches no type)',
         ['VariableDeclaration']),
        ('static-abstract', 'static or abstract classes are never instantiated', ['NewExpression']),
        ('static-context', 'this/super and instance members are not usable in a static context', ['ThisExpression', 'SuperExpression', 'resolveField', 'CallExpression']),
        ('quantum', '@quantum functions and methods return bit / bit[] / void', ['FunctionDeclaration', 'MethodDeclaration']),
        ('shots', '@shots only on main', ['VariableDeclaration', 'FieldDeclaration', 'MethodDeclaration', 'FunctionDeclaration']),
    ]
    ncell = 0
    for pred, text, sites in MATRIX:
        for s in sites:
            f = site(s)
            ncell += 1
            ok = has_cell(f, P[pred], 3, None, [site(x) for x in sites])
            chk.ob('R16.A', f, f.ln, ok, 'rule "%s" must be enforced in %s (a Semantic throw guarded by the %s test, here or in a callee)' % (text, s, pred), key='%s@%s' % (pred, s))
    chk.count('obligation matrix cells', ncell, 45)
    # parameters of functions, methods and constructors all go through visit(Parameter)
    for s in ('FunctionDeclaration', 'MethodDeclaration', 'ConstructorDeclaration'):
        f = site(s)
        ok = False
        for lp in SX.walk(f.body):
            if lp['k'] == 'forrange' and SX.show(lp['range']).endswith('params') and not any(x['k'] in ('break', 'return') for x in SX.walk(lp['body'])):
                ids = {lp['var']['id']}
                if any(n['k'] == 'mcall' and SX.short(n['callee']) == 'accept' and any(x.get('k') == 'ref' and x.get('id') in ids for x in SX.walk(n.get('obj'))) for n in SX.walk(lp['body'])):
                    ok = True
        chk.ob('R16.A', f, f.ln, ok, '%s sends every parameter through the shared parameter visitor (void / redeclaration checks)' % s, key='params-visited@' + s)

    # ---- A': the abstract-class rule reads ClassInfo::isAbstract, which is inherited: it must be derived base-first ------------
    from . import C10 as _C10
    nabs = 0
    for V in fns:
        if not V.body or V.kind != 'method':
            continue
        acc = _C10._inherited_accumulation(V)
        if not acc or 'bstract' not in acc:
            continue
        nabs += 1
        for gfn, call in prog.callers(V):
            ok, why = False, 'called outside a base-first walk'
            if gfn.kind == 'lambda' and gfn.parent is not None:
                ok, why = _C10._post_order_closure(prog, gfn.parent, gfn, call, 'validated')
            elif gfn.kind in ('method', 'function') and any(n_.get('k') in ('call', 'mcall') and n_.get('callee') == gfn.name for n_ in SX.walk(gfn.body, into_lambdas=False)):
                ok, why = _C10._post_order_closure(prog, None, gfn, call, 'validated', walk_fn=gfn)
            chk.ob('R16.A', gfn, call.get('ln', gfn.ln), ok,
                   'the abstract-class rule relies on %s, which %s derives from the base class\'s value: it must be computed for the base first (%s); otherwise '
                   'a class that inherits an unimplemented method through an undeclared-abstract middle class is instantiable' % (acc, V.short, why), key='abstract-base-first:' + V.short)
    chk.count('functions deriving inherited abstractness', nabs, 1)

    # ---- B: exact relation -----------------------------------------------------------------------
    _relation(prog, chk, named, fns)

    # ---- C: Unknown-tag misuse on inferred value types ----------------------------------------------
    nC = 0
    compat_sites = {id(site(s)) for s in ('VariableDeclaration', 'FieldDeclaration', 'AssignmentStatement', 'AssignmentExpression', 'MemberAssignmentExpression',
                                          'ArrayAssignmentExpression', 'ReturnStatement', 'CallExpression', 'NewExpression', 'validateTypedInitializer')}
    for f in fns:
        if id(f) not in compat_sites and not (f.kind == 'lambda' and f.parent is not None and id(f.parent) in compat_sites):
            continue
        inferred = set()
        for v in SX.walk(f.body, into_lambdas=False):
            if v['k'] == 'var' and SX.is_node(v.get('init')):
                i = SX.strip(v['init'])
                if i.get('k') == 'mcall' and SX.short(i.get('callee', '')) == 'inferTypeInfo':
                    inferred.add(v['id'])
        if not inferred:
            continue
        for n in SX.walk(f.body, into_lambdas=False):
            cp = SX.cmp_parts(n) if n['k'] in ('bin', 'un', 'opcall') else None
            if not cp or cp[0] not in ('==', '!='):
                continue
            for a, b in ((cp[1], cp[2]), (cp[2], cp[1])):
                a, b = SX.strip(a), SX.strip(b)
                if a.get('k') == 'member' and a['name'] == 'value' and SX.is_node(SX.strip(a['base'])) and SX.strip(a['base']).get('id') in inferred \
                        and b.get('k') == 'ref' and b.get('kind') == 'enum' and b['name'].endswith('ValueType::Unknown'):
                    nC += 1
                    # allowed only as part of the full "really unknown" test: conjoined with className.empty() on the same variable
                    ok = _conjoined_with_classname_empty(f, n, SX.strip(a['base']).get('id'))
                    chk.ob('R16.C', f, n.get('ln', f.ln), ok,
                           '`%s` tests only the primitive tag of an inferred value type; class and array values carry Unknown too, so the compatibility check is skipped for them '
                           '(e.g. `int a = new A();` accepted)' % SX.show(n)[:60], key='unknown-tag:%s:%s' % (_fkey(f), SX.strip(a['base'])['name']))
    chk.extra['unknown_tag_tests_on_inferred_types'] = nC


def _fkey(f):
    return f.short + (':' + f.params[0]['type'].split('::')[-1].replace(' &', '') if f.short == 'visit' and f.params else '')


def _has(e, pred):
    return any(pred(n) for n in SX.walk(e))


def _throws_semantic(s):
    if s is None:
        return False
    for n in SX.walk(s, into_lambdas=False):
        if n['k'] == 'throw':
            e = SX.strip(n.get('e')) if n.get('e') is not None else None
            if SX.is_node(e) and e.get('k') == 'construct' and e['type'].endswith('BlochError') and e['args'] and 'Semantic' in SX.show(e['args'][0]):
                return True
    return False


def _is_semantic(n):
    e = SX.strip(n.get('e')) if n.get('e') is not None else None
    return SX.is_node(e) and e.get('k') == 'construct' and e['type'].endswith('BlochError') and e['args'] and 'Semantic' in SX.show(e['args'][0])


def _fn_throws(f):
    return _throws_semantic(f.body)


def _conjoined_with_classname_empty(f, n, vid):
    from ..ktry import parent_map
    pm = parent_map(f.body)
    cur = n
    while id(cur) in pm:
        par = pm[id(cur)]
        if par.get('k') == 'bin' and par.get('op') == '&&':
            other = par['r'] if par['l'] is cur else par['l']
            if any(x['k'] == 'mcall' and SX.short(x['callee']) == 'empty' and SX.is_node(SX.strip(x.get('obj'))) and SX.strip(x['obj']).get('k') == 'member'
                   and SX.strip(x['obj'])['name'] == 'className' and SX.strip(SX.strip(x['obj'])['base']).get('id') == vid for x in SX.walk(other)):
                return True
            cur = par
            continue
        break
    return False


PRIMS = ['Int', 'Long', 'Float', 'Bit', 'Boolean', 'String', 'Char', 'Qubit']
HIER = {'A': 'Object', 'B': 'A', 'C': 'Object', 'Object': ''}


def _ti(value='Unknown', cls='', targs=None, tp=False):
    return Obj(value=VT + value, className=cls, typeArgs=list(targs or []), isTypeParam=tp)


def _domain():
    d = [(p.lower(), _ti(p)) for p in PRIMS]
    d += [('A', _ti(cls='A')), ('B', _ti(cls='B')), ('C', _ti(cls='C'))]
    d += [('int[]', _ti(cls='int[]', targs=[_ti('Int')])), ('string[]', _ti(cls='string[]', targs=[_ti('String')])), ('A[]', _ti(cls='A[]', targs=[_ti(cls='A')]))]
    return d


def _oracle(en, e, an, a):
    """documented relation: same type; int → long; instance of a subclass; null for class references; unknown passes"""
    if an == 'unknown':
        return True
    if an == 'void':
        return False
    if an == 'null':
        return en in ('A', 'B', 'C')
    if en == an:
        return True
    if en == 'long' and an == 'int':
        return True
    if en == 'A' and an == 'B':
        return True
    return False


def _relation(prog, chk, named, fns):
    for need in ('isAssignableType', 'conversionCost'):
        if need not in named:
            raise AnalysisBroken('%s not found' % need)

    def m_findClass(it, e, env):
        n = it.expr(SX.real_args(e)[0], env)
        if n in HIER:
            return Obj(name=n, base=HIER[n], typeParams=[], methods={}, fields={})
        return None
    models = {'findClass': m_findClass, 'getTypeParamBound': lambda it, e, env: None}
    dom = _domain()
    # an actual of really unknown type is let through by the sites themselves (rule C), not by the helper: not part of the table
    acts = dom + [('null', _ti('Null')), ('void', _ti('Void'))]
    bad = []
    badc = []
    n = 0
    for (en, e), (an, a) in itertools.product(dom, acts):
        n += 1
        it = Interp(prog, models)
        try:
            got = it.call_fn_env(named['isAssignableType'], [e, a], {'this': Obj()})
            cost = Interp(prog, models).call_fn_env(named['conversionCost'], [e, a], {'this': Obj()})
        except Unsupported as ex:
            raise AnalysisBroken('abstract evaluation of the compatibility helpers: %s' % ex)
        want = _oracle(en, e, an, a)
        if bool(got) != want:
            bad.append('%s ← %s: %s (documented: %s)' % (en, an, 'accepted' if got else 'rejected', 'accept' if want else 'reject'))
        if (cost is not None) != want:
            badc.append('%s ← %s: cost %s' % (en, an, cost))
    chk.extra['type_pairs'] = n
    chk.ob('R16.B', named['isAssignableType'], named['isAssignableType'].ln, not bad,
           'isAssignableType on %d (expected, actual) pairs equals the documented relation; mismatches: %s' % (n, bad[:6]), key='table:isAssignableType')
    chk.ob('R16.B', named['conversionCost'], named['conversionCost'].ln, not badc,
           'conversionCost is defined exactly for the compatible pairs (so overload resolution accepts what assignment accepts); mismatches: %s' % badc[:6], key='table:conversionCost')
    # matchesPrimitive: 8×8 + unknown
    mp = None
    for (nm, fl, ln), gl in prog.facts.globals.items():
        if nm.endswith('matchesPrimitive') and SX.is_node(gl.get('init')) and gl['init'].get('k') == 'lambda':
            mp = gl['init']
    if mp is None:
        raise AnalysisBroken('matchesPrimitive closure not found')
    badm = []
    for e, a in itertools.product(PRIMS + ['Unknown'], repeat=2):
        it = Interp(prog, {})
        env = {mp['params'][0]['id']: VT + e, mp['params'][1]['id']: VT + a}
        try:
            from ..kabs import Ret
            try:
                it.stmt(mp['body'], env)
                got = None
            except Ret as r:
                got = r.v
        except Unsupported as ex:
            raise AnalysisBroken('matchesPrimitive: %s' % ex)
        want = e == 'Unknown' or a == 'Unknown' or e == a or (e == 'Long' and a == 'Int')
        if bool(got) != want:
            badm.append('%s ← %s: %s' % (e, a, got))
    chk.ob('R16.B', 'matchesPrimitive', 'src/bloch/compiler/semantics/semantic_analyser.cpp', not badm,
           'matchesPrimitive: equal tags, int→long, unknown passes — nothing else; mismatches: %s' % badm[:6], key='table:matchesPrimitive')
    # numericPromotion: the inferred type of `a op b` — any float makes a float, else any long a long, else int, else bit (language guide:
    # "Mixed int/long promotes to long; any float promotes to float"); the inferred type is what every compatibility check is fed
    npc = None
    for (nm, fl, ln), gl in prog.facts.globals.items():
        if nm.endswith('numericPromotion') and SX.is_node(gl.get('init')) and gl['init'].get('k') == 'lambda':
            npc = gl['init']
    if npc is not None:
        ORDER = ['Float', 'Long', 'Int', 'Bit']
        badp = []
        for e, a in itertools.product(ORDER, repeat=2):
            it = Interp(prog, {})
            env = {npc['params'][0]['id']: VT + e, npc['params'][1]['id']: VT + a}
            try:
                from ..kabs import Ret
                try:
                    it.stmt(npc['body'], env)
                    got = None
                except Ret as r:
                    got = r.v
            except Unsupported as ex:
                raise AnalysisBroken('numericPromotion: %s' % ex)
            want = VT + ORDER[min(ORDER.index(e), ORDER.index(a))]
            if got != want:
                badp.append('%s op %s: %s' % (e, a, str(got).split('::')[-1]))
        chk.ob('R16.B', 'numericPromotion', 'src/bloch/compiler/semantics/semantic_analyser.cpp', not badp,
               'numericPromotion: float before long before int before bit; mismatches: %s' % badp[:6], key='table:numericPromotion')
    else:
        chk.vacuous.append('numericPromotion closure not found')


# (function, member) pairs that write a saved-elsewhere context member without saving it, confirmed by reading:
CONTEXT_SIGNALS = {
    ('visit(ReturnStatement)', 'm_foundReturn'): 'a signal read by the enclosing function/method visitor after it analysed the body (which saves and restores it)',
}



def _ctor_params_instantiated(prog, chk, fns):
    """R16.F — sibling agreement of the constructor-argument checks.  The analyser matches arguments against a constructor of a class
    at three kinds of site (`new C<…>(…)`, `super(…)`, the implicit `super()`); the constructors of a generic class are recorded
    with the class's own type parameters, so a site instantiates the parameter list (substituteMany) before costing the arguments —
    or matches against an empty argument list, where only a parameter-less constructor fits and there is nothing to instantiate.
    A site that costs the raw list compares `A` with the argument's type by name: `class Child<X, Y> extends Pair<X, Y> { …
    super(x, y) … }` is then rejected although every argument has the parameter's type."""
    subst = {f.name for f in fns if f.short == 'substituteMany'}
    cost = {f.name for f in fns if f.short in ('paramsConversionCost', 'paramsAssignable')}
    if not subst or not cost:
        raise AnalysisBroken('analyser helpers substituteMany / paramsConversionCost not found')
    n = 0
    from ..kernels import enclosing_stmts
    for f in fns:
        for lp in SX.walk(f.body, into_lambdas=False):
            if lp.get('k') != 'forrange' or SX.member_chain(SX.strip(lp['range']))[1][-1:] != ['constructors']:
                continue
            vid = lp['var']['id']
            for c in SX.walk(lp['body'], into_lambdas=False):
                if c.get('k') != 'mcall' or c.get('callee') not in cost:
                    continue
                a = SX.real_args(c)
                if len(a) != 2:
                    continue
                # a branch chosen by an (inlined) pointer parameter that is bound to an address or to nullptr at this site
                feasible = True
                for st in enclosing_stmts(lp['body'], c):
                    if st.get('k') != 'if':
                        continue
                    cnd, pol = SX.strip(st['c']), True
                    while SX.is_node(cnd) and cnd.get('k') == 'un' and cnd.get('op') == '!':
                        cnd, pol = SX.strip(cnd['e']), not pol
                    while SX.is_node(cnd) and cnd.get('k') == 'cast':
                        cnd = SX.strip(cnd['e'])
                    if not (SX.is_node(cnd) and cnd.get('k') == 'ref' and '*' in (cnd.get('t') or '')):
                        continue
                    d = [x for x in SX.walk(f.body, into_lambdas=False) if x['k'] == 'var' and x['id'] == cnd.get('id')]
                    i0 = SX.strip(d[0].get('init')) if d and SX.is_node(d[0].get('init')) else None
                    while SX.is_node(i0) and i0.get('k') in ('cast', 'defaultarg'):
                        i0 = SX.strip(i0['e'])
                    val = None
                    if SX.is_node(i0) and i0.get('k') == 'un' and i0.get('op') == '&':
                        val = True
                    if SX.is_node(i0) and i0.get('k') in ('nullptr', 'null'):
                        val = False
                    if val is None:
                        continue
                    in_then = any(y is c for y in SX.walk(st['t'], into_lambdas=False))
                    if (val == pol) != in_then:
                        feasible = False
                if not feasible:
                    continue
                n += 1
                a0, a1 = SX.strip(a[0]), SX.strip(a[1])
                ok = False
                how = ''
                if SX.is_node(a0) and a0.get('k') == 'ref':
                    # a local: every definition that reaches here came through substituteMany
                    for w_ in SX.walk(lp['body'], into_lambdas=False):
                        w = SX.write_target(w_)
                        if w and SX.strip(w[0]).get('id') == a0['id'] and any(x.get('k') == 'mcall' and x.get('callee') in subst for x in SX.walk(w[1])):
                            ok = True
                            how = 'instantiated'
                    for d in SX.walk(lp['body'], into_lambdas=False):
                        if d['k'] == 'var' and d['id'] == a0['id'] and SX.is_node(d.get('init')) and any(x.get('k') == 'mcall' and x.get('callee') in subst for x in SX.walk(d['init'])):
                            ok = True
                            how = 'instantiated'
                if not ok and SX.is_node(a1) and a1.get('k') == 'ref':
                    decl = [d for d in SX.walk(f.body, into_lambdas=False) if d['k'] == 'var' and d['id'] == a1['id']]
                    touched = [x for x in SX.walk(f.body, into_lambdas=False) if (x.get('k') == 'mcall' and not x.get('constm', True) and SX.is_node(SX.strip(x.get('obj')))
                                                                                  and SX.strip(x['obj']).get('id') == a1['id']) or
                               ((SX.write_target(x) or [None])[0] is not None and SX.strip(SX.write_target(x)[0]).get('id') == a1['id'])]
                    if decl and 'vector' in decl[0]['type'] and not touched:
                        i0 = SX.strip(decl[0].get('init')) if SX.is_node(decl[0].get('init')) else None
                        if i0 is None or (i0.get('k') in ('construct', 'initlist') and not (SX.real_args(i0) if i0['k'] == 'construct' else i0.get('items'))):
                            ok = True
                            how = 'empty argument list'
                # label: the diagnostic raised when nothing matched (first throw after the loop in the enclosing block)
                label = '?'
                chain = enclosing_stmts(f.body, lp) + [lp]
                for depth in range(len(chain) - 2, -1, -1):
                    blk, child = chain[depth], chain[depth + 1]
                    if blk.get('k') != 'block':
                        continue
                    pos = [i for i, x in enumerate(blk['body']) if x is child] or [i for i, x in enumerate(blk['body']) if any(y is child for y in SX.walk(x, into_lambdas=False))]
                    if not pos:
                        continue
                    for st in blk['body'][pos[0] + 1:]:
                        lits = [x['v'] for x in SX.walk(st, into_lambdas=False) if x['k'] == 'str' and len(x['v']) > 8]
                        if lits:
                            label = lits[0]
                            break
                    if label != '?':
                        break
                chk.ob('R16.F', f, c.get('ln', f.ln), ok,
                       'the arguments are costed against the constructor\'s raw parameter list (the class\'s own type-parameter names), not the list instantiated with the type arguments '
                       'in force: `class Child<X, Y> extends Pair<X, Y> { … super(x, y) … }` is rejected although every argument has the parameter\'s type',
                       key='ctor-params:' + label[:60])
    chk.count('constructor-argument checks', n, 3)




class _GuardAware:
    """Proxy of the check object for the context rules: a visitor that keeps its context in a scope-guard class this rule cannot read
    (a guard composed of member guards, a template guard — anything K-GUARD does not summarise) is *not decided*: a failing obligation
    in such a visitor ends the run as analysis-broken (exit 2) instead of reporting a violation that may be the guard's doing."""
    def __init__(self, chk, prog, fns):
        self._chk = chk
        from ..kguard import Guards
        known = Guards(prog)
        self._opaque = {}
        for f in fns:
            if not f.body:
                continue
            for v in SX.walk(f.body, into_lambdas=False):
                if v.get('k') != 'var':
                    continue
                t = (v.get('type') or '').replace('const ', '').rstrip('& ').strip()
                if not t or t.startswith('std::') or 'lambda' in t or 'ScopeExit' in t:
                    continue
                rec = prog.facts.records.get(t) or prog.facts.records.get(t.split('<')[0])
                if rec is None and '<' not in t:
                    continue
                if rec is not None and not str(rec.get('file', '')).startswith(prog.repo):
                    continue
                guardish = '<' in t and rec is None and known.base_name(t) not in known.recs and known.base_name(t) not in known.comp
                if rec is not None:
                    # a guard is constructed over what it guards: a constructor with a non-const reference parameter, or a user destructor
                    ms = prog.methods_of(rec['name'])
                    by_ref = any(m.kind == 'ctor' and any((p_.get('type') or '').rstrip().endswith('&') and not (p_.get('type') or '').startswith('const') for p_ in m.params)
                                 for m in ms)
                    has_dtor = any(m.kind == 'dtor' for m in ms)
                    guardish = (by_ref or has_dtor) and known.base_name(t) not in known.recs and known.base_name(t) not in known.comp
                if guardish:
                    self._opaque.setdefault(f.name, t)

    def __getattr__(self, name):
        return getattr(self._chk, name)

    def ob(self, rule, fn, site, ok, detail='', key=None, nontrivial=True, path=None):
        import os as _os
        if not ok and getattr(fn, 'name', None) in self._opaque and not _os.environ.get('BLOCHSA_SHOW_OPAQUE'):
            raise AnalysisBroken('%s keeps its context in the scope guard %s, which this rule cannot read: %s is not decided for it'
                                 % (getattr(fn, 'short', fn), self._opaque[fn.name], rule))
        return self._chk.ob(rule, fn, site, ok, detail, key=key, nontrivial=nontrivial, path=path)


def _return_context_rule(prog, chk, fns, rule='R16.G'):
    """R16.G — "return <value> in a void function, bare return in a non-void one" is decided by visit(ReturnStatement) from analyser
    members that describe the callable being analysed.  Every visitor of a declaration that has a body of statements (function,
    method, constructor, destructor) sets each of those members itself before it visits the body: a visitor that does not leaves the
    body to be checked against whatever the last callable left behind (`return 5;` in a destructor was accepted, `return;` rejected)."""
    rv = [f for f in fns if f.short == 'visit' and f.cls == AN and f.params and f.params[0]['type'].split('::')[-1].replace(' &', '') == 'ReturnStatement']
    if len(rv) != 1:
        raise AnalysisBroken('visit(ReturnStatement) not found')
    members = sorted({n['name'] for n in SX.walk(rv[0].body) if n.get('k') == 'member' and SX.is_this_member(n)})
    if not members:
        raise AnalysisBroken('visit(ReturnStatement) consults no analyser member')
    n = 0
    for f in fns:
        if f.short != 'visit' or f.cls != AN or not f.params:
            continue
        tn = f.params[0]['type'].replace('const ', '').replace(' &', '').strip()
        rec = prog.facts.records.get(tn)
        if not rec or not tn.endswith('Declaration'):
            continue
        if not any(fl['name'] == 'body' and 'BlockStatement' in fl['type'] for fl in rec.get('fields', [])):
            continue
        pid = f.params[0].get('id')
        visits_body = any(x.get('k') == 'member' and x.get('name') == 'body' and SX.is_node(SX.strip(x.get('base'))) and SX.strip(x['base']).get('id') == pid
                          for x in SX.walk(f.body, into_lambdas=False))
        if not visits_body:
            continue
        for m in members:
            n += 1
            sets = [x for x in SX.walk(f.body, into_lambdas=False) for w in [SX.write_target(x)] if w and w[2] == '=' and SX.is_this_member(SX.strip(w[0]), m)]
            if not sets:
                # … or through a scope guard whose constructor sets the member (K-GUARD: `CallableContextGuard context(*this, …, returnType);`)
                from ..kguard import Guards
                KG_ = getattr(prog, '_kguards', None) or Guards(prog)
                prog._kguards = KG_
                sets = [e_ for e_ in KG_.effects(f) if e_['member'] == m]
            chk.ob(rule, f, f.ln, bool(sets),
                   'visit(%s) analyses a body of statements but does not set %s, which visit(ReturnStatement) decides from: returns in that body are checked against what the last callable '
                   'left behind' % (tn.split('::')[-1], m), key='return-context:%s:%s' % (tn.split('::')[-1], m))
    chk.count('callable-body visitors × return-context members', n, 6)


def _nesting_counter_rule(prog, chk, fns):
    """R16.E — "assigned as a top-level constructor statement" is decided with a nesting counter that is 0 only for the statements
    of the constructor body itself.  Every visitor of a statement kind that holds sub-statements (block, if, ternary, for, while —
    found from the AST: a *Statement record with a member of statement type) must therefore raise the counter before it visits
    ANY child, header expressions included (`for (this.x = 0; …)`, `while ((x = f()) > 0)` are not top-level assignments)."""
    meths = [f for f in fns if f.cls == AN and f.kind == 'method' and f.body]
    counters = set()
    for f in meths:
        for n in SX.walk(f.body):
            w = SX.write_target(n)
            if w and SX.is_this_member(SX.strip(w[0])) and (w[2] == '++' or (w[2] == '+=' and SX.is_node(SX.strip(w[1])) and SX.strip(w[1]).get('v') == 1)):
                nm = SX.strip(w[0])['name']
                # … that some method compares with 0 (the top-level test)
                for f2 in meths:
                    for c in SX.walk(f2.body):
                        cp = SX.cmp_parts(c) if c.get('k') in ('bin', 'opcall', 'un') else None
                        if cp and SX.is_this_member(SX.strip(cp[1]), nm) and SX.is_node(SX.strip(cp[2])) and SX.strip(cp[2]).get('v') == 0:
                            counters.add(nm)
    # the counter may be raised by a scope guard (`ConstructorNestingGuard nesting(*this);`): records whose constructor increments an
    # analyser member that some method compares with 0, and whose destructor decrements it
    guard_recs = set()
    for fn in prog.functions:
        if fn.kind != 'ctor' or not fn.body or 'semantic_analyser' not in fn.file:
            continue
        for n in SX.walk(fn.body):
            w = SX.write_target(n)
            l0 = SX.strip(w[0]) if w else None
            if w and SX.is_node(l0) and l0.get('k') == 'member' and (l0.get('q') or '').startswith(AN + '::') and \
                    (w[2] == '++' or (w[2] == '+=' and SX.is_node(SX.strip(w[1])) and SX.strip(w[1]).get('v') == 1)):
                nm = l0['name']
                tested = any(SX.is_this_member(SX.strip(cp[1]), nm) and SX.is_node(SX.strip(cp[2])) and SX.strip(cp[2]).get('v') == 0
                             for f2 in meths for c in SX.walk(f2.body) for cp in [SX.cmp_parts(c) if c.get('k') in ('bin', 'opcall', 'un') else None] if cp)
                dt = [d for d in prog.methods_of(fn.cls) if d.kind == 'dtor' and d.body] if fn.cls else []
                dec = any((lambda w2: w2 and SX.is_node(SX.strip(w2[0])) and SX.strip(w2[0]).get('k') == 'member' and SX.strip(w2[0]).get('name') == nm and w2[2] in ('--', '-='))(SX.write_target(x))
                          for d in dt for x in SX.walk(d.body))
                if tested and dec:
                    counters.add(nm)
                    guard_recs.add(fn.cls)
    chk.count('nesting counters of the analyser', len(counters), 1)
    ctrl = []
    for rname, rec in prog.facts.records.items():
        short = rname.split('::')[-1]
        if not short.endswith('Statement') or 'compiler' not in rname:
            continue
        if any('Statement>' in (x.get('type') or '').replace(' ', '') for x in rec.get('fields', [])):
            ctrl.append(short)
    chk.count('statement kinds that hold sub-statements', len(ctrl), 4)
    nv = 0
    for short in sorted(ctrl):
        vs = [f for f in meths if f.short == 'visit' and len(f.params) == 1 and (f.params[0].get('type') or '').replace('const ', '').replace(' ', '').rstrip('&').endswith('::' + short)]
        if len(vs) != 1:
            continue
        f = vs[0]
        g = prog.cfg(f)
        accepts = [c for c in g.calls(lambda e: e['k'] == 'mcall' and SX.short(e.get('callee', '')) == 'accept')]
        if not accepts:
            continue
        nv += 1
        incs = [n for n, l, r, op in g.writes() if SX.is_this_member(SX.strip(l)) and SX.strip(l)['name'] in counters and op in ('++', '+=')]
        guards = [d for d in g.nodes if d.kind == 'decl' and (d.e.get('type') or '').replace('const ', '').strip() in guard_recs]
        bad = []
        for a in accepts:
            ok = any(g.dominates(d, a) for d in guards)      # a scope guard declared before the child is visited
            for inc in incs:
                gs = [(ce, pol, ed) for ce, pol, ed in g.guards(inc)]
                if not gs:
                    ok = ok or g.dominates(inc, a)
                    continue
                ce, pol, ed = gs[-1]
                cnode = getattr(ed, 'cond', None)
                # the only condition the raise may depend on is "inside a constructor" (the flag itself or a local copy of it)
                c0 = SX.strip(ce)
                if SX.is_node(c0) and c0.get('k') == 'ref' and c0.get('kind') == 'var':
                    dv = [v for v in SX.walk(f.body, into_lambdas=False) if v['k'] == 'var' and v.get('id') == c0.get('id')]
                    c0 = SX.strip(dv[0].get('init')) if dv and SX.is_node(dv[0].get('init')) else c0
                flag_ok = len(gs) == 1 and pol and SX.is_this_member(c0, 'm_inConstructor')
                if flag_ok and cnode is not None and g.dominates(cnode, a) and a.id not in g.reachable([ed], avoid=[inc]):
                    ok = True
            if not ok:
                bad.append(a)
        chk.ob('R16.E', f, (bad[0].ln if bad else f.ln) or f.ln, not bad,
               'visit(%s) raises the constructor nesting counter (%s) before it visits any child; children visited at the enclosing depth: %s — a final-field assignment there '
               'passes as a top-level constructor statement' % (short, '/'.join(sorted(counters)), [SX.show(x.e)[:40] for x in bad][:3]), key='nesting:' + short)
    chk.count('visitors of statements with sub-statements', nv, 4)


def _context_discipline(prog, chk, fns):
    """The static rules are decided in context (current class, static/constructor/destructor flags, expected return type …).  A
    visitor that sets such a member for the body it descends into must put the old value back — otherwise every declaration
    analysed afterwards is checked in the wrong context (e.g. `final` assignments stay allowed after a constructor, instance
    access stays forbidden after a static method).  The context members are found by effect: members some analyser method copies
    into a local (`auto saved = m_x;`).  In every method that writes such a member: a save-local dominates the write, and a scope-exit
    object declared before the write restores it from that local, or every normal path from the write to the exit passes the
    restoring assignment."""
    from ..kcanon import Canon
    meths = [f for f in fns if f.cls == AN and f.kind == 'method']

    def save_locals(f):
        out = {}
        for v in SX.walk(f.body, into_lambdas=False):
            if v['k'] != 'var' or not SX.is_node(v.get('init')):
                continue
            i = SX.strip(v['init'])
            while SX.is_node(i) and i.get('k') in ('cast', 'construct') and (i['k'] == 'cast' or len(SX.real_args(i)) == 1):
                i = SX.strip(i['e'] if i['k'] == 'cast' else SX.real_args(i)[0])
            if SX.is_this_member(i) and not (v.get('type') or '').rstrip().endswith('&'):
                out.setdefault(i['name'], []).append(v)
        return out
    saved_somewhere = set()
    per_fn = {}
    for f in meths:
        sl = save_locals(f)
        per_fn[f.key] = sl
        saved_somewhere |= set(sl)
    # only members that are also written back from such a local somewhere are context members
    restored = set()
    for f in meths:
        for n in SX.walk(f.body):
            w = SX.write_target(n)
            if w and w[2] == '=' and SX.is_this_member(SX.strip(w[0])):
                r = SX.strip(w[1])
                while SX.is_node(r) and r.get('k') in ('call', 'cast') and (r['k'] == 'cast' or (SX.callee(r) or '').startswith('std::move')):
                    r = SX.strip(r['e'] if r['k'] == 'cast' else SX.real_args(r)[0])
                if SX.is_node(r) and r.get('k') == 'ref' and r.get('kind') == 'var':
                    restored.add(SX.strip(w[0])['name'])
    # RAII context guards: a nested class whose constructor copies analyser members into its own fields and whose destructor puts
    # them back — a local of such a class, declared before the visitor writes one of those members, is both the save and the restore
    guard_members = {}       # guard record name → {context member}
    for c_ in prog.functions:
        if c_.kind != 'ctor' or not c_.cls or not c_.cls.startswith(AN + '::'):
            continue
        saved_in = {}       # guard field → analyser member
        for i_ in (c_.d.get('inits') or []):
            e_ = SX.strip(i_.get('init'))
            while SX.is_node(e_) and e_.get('k') in ('cast', 'construct') and (e_['k'] == 'cast' or len(SX.real_args(e_)) == 1):
                e_ = SX.strip(e_['e'] if e_['k'] == 'cast' else SX.real_args(e_)[0])
            if SX.is_node(e_) and e_.get('k') == 'member' and (e_.get('q') or '').startswith(AN + '::') and SX.is_node(SX.strip(e_.get('base'))) and SX.strip(e_['base']).get('kind') == 'param':
                saved_in[i_.get('member')] = e_['name']
        if not saved_in:
            continue
        put_back = set()
        for d_ in prog.functions:
            if d_.kind == 'dtor' and d_.cls == c_.cls and d_.body:
                for n_ in SX.walk(d_.body):
                    w_ = SX.write_target(n_)
                    if not (w_ and w_[2] == '='):
                        continue
                    l_ = SX.strip(w_[0])
                    r_ = SX.strip(w_[1])
                    while SX.is_node(r_) and r_.get('k') in ('call', 'cast') and (r_['k'] == 'cast' or (SX.callee(r_) or '').startswith('std::move')):
                        r_ = SX.strip(r_['e'] if r_['k'] == 'cast' else SX.real_args(r_)[0])
                    if SX.is_node(l_) and l_.get('k') == 'member' and (l_.get('q') or '').startswith(AN + '::') and SX.is_this_member(r_) and saved_in.get(r_['name']) == l_['name']:
                        put_back.add(l_['name'])
        if put_back:
            guard_members[c_.cls] = put_back
    for ms_ in guard_members.values():
        saved_somewhere |= ms_
        restored |= ms_
    # guards K-GUARD summarises — also generic ones (`SavedValue<T> keep(m_x);` restores whatever it was constructed over) and guards
    # composed of such members: the members a declaration guards are read off its constructor arguments
    from ..kguard import Guards
    KG = Guards(prog)

    def guarded_by_decl(v):
        i = SX.strip(v.get('init')) if SX.is_node(v.get('init')) else None
        if not (SX.is_node(i) and i.get('k') == 'construct'):
            return set()
        tn = KG.base_name(i.get('type'))
        if tn in KG.recs:
            rec_, ctors_, dtor_ = KG.recs[tn]
        elif tn in KG.comp:
            (rec_, ctors_), dtor_ = KG.comp[tn], None
        else:
            return set()
        args = i.get('args', [])
        cs = [c for c in ctors_ if len(c.params) == len(args)]
        if len(cs) != 1:
            return set()
        out = set()
        for pi, path in KG.restores(cs[0], dtor_):
            if pi >= len(args):
                continue
            a = SX.strip(args[pi])
            while SX.is_node(a) and a.get('k') == 'un' and a.get('op') == '*':
                a = SX.strip(a.get('e'))
            if SX.is_node(a) and a.get('k') == 'this' and len(path) == 1:
                out.add(path[0])
            elif SX.is_this_member(a) and not path:
                out.add(a['name'])
        return out
    kg_decl = {}
    for f in meths:
        for v in SX.walk(f.body, into_lambdas=False):
            if v.get('k') == 'var':
                ms_ = guarded_by_decl(v)
                if ms_:
                    kg_decl[id(v)] = ms_
                    saved_somewhere |= ms_
                    restored |= ms_
    ctx = saved_somewhere & restored
    chk.count('analyser context members (saved and restored somewhere)', len(ctx), 5)
    nsite = 0
    for f in meths:
        if f.short in ('analyse',):
            continue
        g = prog.cfg(f)
        lam_by_node = {id(lf.node): lf for lf in f.lambdas}
        # scope-exit objects: locals initialised from a call whose argument is a closure; their restores run on every exit
        exits = []
        for d in g.nodes:
            if d.kind == 'decl' and SX.is_node(d.e.get('init')):
                for x in SX.walk(d.e['init']):
                    if x['k'] == 'lambda' and id(x) in lam_by_node and ('ScopeExit' in (d.e.get('type') or '') or 'scope' in (d.e.get('type') or '').lower()):
                        exits.append((d, lam_by_node[id(x)]))

        def restores(body_fn_or_node, m, sids):
            out = []
            for n in SX.walk(body_fn_or_node):
                w = SX.write_target(n)
                if w and w[2] == '=' and SX.is_this_member(SX.strip(w[0]), m):
                    r = SX.strip(w[1])
                    while SX.is_node(r) and r.get('k') in ('call', 'cast') and (r['k'] == 'cast' or (SX.callee(r) or '').startswith('std::move')):
                        r = SX.strip(r['e'] if r['k'] == 'cast' else SX.real_args(r)[0])
                    if SX.is_node(r) and r.get('k') == 'ref' and r.get('id') in sids:
                        out.append(n)
            return out
        for m in sorted(ctx):
            sl = per_fn[f.key].get(m, [])
            sids = {v['id'] for v in sl}
            # counter idiom: `if (c) m += 1;  auto x = makeScopeExit([&] { if (c) m -= 1; });` — balanced by the scope exit
            incs = [(n, op, r) for n, l, r, op in g.writes() if SX.is_this_member(SX.strip(l), m) and op in ('+=', '++')]
            for i_, (n, op, r) in enumerate(incs):
                nsite += 1
                amount = SX.show(r) if op == '+=' else '1'
                conds = sorted(SX.show(ce) + ('' if pol else '!') for ce, pol, _ in g.guards(n))
                okb = False
                for d, lf in exits:
                    near = g.dominates(d, n) or (g.must_follow(n, [d]) and not any(
                        g.nodes[i2].kind == 'call' and g.nodes[i2] is not d and not any(y is g.nodes[i2].e for y in SX.walk(d.e))
                        for i2 in (g.reachable([n], avoid=[d]) & g.reachable([d], forward=False, avoid=[n]))))
                    if not near:
                        continue
                    gl = prog.cfg(lf)
                    for n2, l2, r2, op2 in gl.writes():
                        if SX.is_this_member(SX.strip(l2), m) and op2 in ('-=', '--') and (SX.show(r2) if op2 == '-=' else '1') == amount:
                            c2 = sorted(SX.show(ce) + ('' if pol else '!') for ce, pol, _ in gl.guards(n2))
                            if c2 == conds and gl.must_follow(gl.entry, [n2] + [e_ for e_ in gl.nodes if e_.kind == 'edge' and not e_.pol and conds and SX.show(e_.e) + '' in [c_.rstrip('!') for c_ in conds]]):
                                okb = True
                if not okb:
                    decs = [n2 for n2, l2, r2, op2 in g.writes() if SX.is_this_member(SX.strip(l2), m) and op2 in ('-=', '--')]
                    okb = bool(decs) and g.must_follow(n, decs)
                chk.ob('R16.D', f, n.ln or f.ln, okb, '%s raises %s by %s for the statements it analyses; the matching decrement runs on every exit (scope exit under the same condition, or on all normal paths)' % (
                    _fkey(f), m, amount), key='context-depth:%s:%s#%d' % (_fkey(f), m, i_))
            writes = [(n, l, r) for n, l, r, op in g.writes() if SX.is_this_member(SX.strip(l), m) and op == '=']
            rnodes = {id(x) for x in restores(f.body, m, sids)} if sids else set()
            sets = [(n, l, r) for n, l, r in writes if id(n.e) not in rnodes and not any(id(y) in rnodes for y in SX.walk(n.e))]
            if not sets:
                continue
            nsite += 1
            key = 'context:%s:%s' % (_fkey(f), m)
            gdecls = [d for d in g.nodes if d.kind == 'decl' and (m in guard_members.get((d.e.get('type') or '').replace('const ', '').strip(), set()) or m in kg_decl.get(id(d.e), set()))]
            if gdecls:
                okg = all(any(g.dominates(d, n) for d in gdecls) for n, l, r in sets)
                chk.ob('R16.D', f, sets[0][0].ln or f.ln, okg, '%s sets %s for the body it analyses; a context guard declared before the write saves it and restores it on every exit%s' % (
                    _fkey(f), m, '' if okg else ': the write is not preceded by the guard'), key=key)
                continue
            if not sl:
                why = CONTEXT_SIGNALS.get((_fkey(f), m))
                chk.ob('R16.D', f, sets[0][0].ln or f.ln, why is not None,
                       '%s writes the context member %s without saving it%s' % (_fkey(f), m, (' — accepted: ' + why) if why else
                                                                               ': whatever is analysed afterwards sees the value this visitor left behind'),
                       key=key, nontrivial=why is None)
                continue
            sdecl = [d for d in g.nodes if d.kind == 'decl' and d.e.get('id') in sids]
            rest_nodes = [n for n in g.nodes if SX.is_node(n.e) and n.kind in ('assign', 'call') and any(id(y) in rnodes for y in SX.walk(n.e))]
            ok = True
            why = ''
            for n, l, r in sets:
                saved_first = any(g.dominates(d, n) for d in sdecl)
                guard = any(g.dominates(d, n) and restores(lf.body, m, sids) for d, lf in exits)
                follow = bool(rest_nodes) and g.must_follow(n, rest_nodes)
                if not saved_first:
                    ok, why = False, 'the write at line %s is not preceded by the save' % n.ln
                elif not (guard or follow):
                    ok, why = False, 'after the write at line %s a normal path reaches the end of the visitor without restoring the saved value' % n.ln
            chk.ob('R16.D', f, sets[0][0].ln or f.ln, ok, '%s sets %s for the body it analyses; saved first and restored on every normal exit%s' % (
                _fkey(f), m, '' if ok else ': ' + why), key=key)
    # a member *set* by the constructor of a scope guard (K-GUARD) is restored by that guard: by its destructor, or by the member guard it
    # holds over the same member — otherwise whatever is analysed afterwards sees what the guard left behind
    for f in meths:
        for e_ in KG.effects(f):
            if e_['member'] not in ctx:
                continue
            nsite += 1
            chk.ob('R16.D', f, e_['decl'].get('ln', f.ln), bool(e_['restored']),
                   '%s: the scope guard `%s` sets %s for the body; the guard restores it when it goes out of scope%s' % (
                       _fkey(f), e_['decl'].get('name'), e_['member'], '' if e_['restored'] else ' — it does not'), key='context:%s:%s:guard' % (_fkey(f), e_['member']))
    chk.count('visitor × context-member sites', nsite, 10)


def _fkey(f):
    if f.short == 'visit' and f.params:
        return 'visit(%s)' % f.params[0]['type'].split('::')[-1].replace(' &', '')
    return f.short
