"""C17 — @tracked/@shots reporting counts every scope exit of every shot exactly once."""
import itertools
from .. import sx as SX
from ..facts import AnalysisBroken
from ..roles import Roles
from ..kabs import Interp, Obj, Unsupported, OutOfRange

EXPLANATION = (
    "Accounting rules decided from the source: (R17.1/R17.3) the scope-exit recorder and the object-field recorder are evaluated "
    "abstractly from their own syntax trees over the quotient domain {entry kind: tracked/untracked × qubit/qubit[]/other} × {element "
    "class: measured 0, measured 1, unmeasured, out of range} with registers of length 0–3 (the loops are uniform range-for loops over "
    "the register, checked syntactically): every tracked qubit/qubit[] entry of the closing scope is counted exactly once under the key "
    "`qubit <name>` / `qubit[] <name>`, nothing else is counted, the outcome is the bit string of the last measurements in index order "
    "or '?' as soon as one element is unmeasured, the scope is popped afterwards, and the two recorders agree; (R17.2) every scope that "
    "is opened is closed on every normal path, so every scope exit is seen by the recorder; (R17.4) the CLI adds every count of every "
    "shot into the aggregate inside the shot loop; the shots policy (flag present × annotation present) and the echo policy (--echo ∈ "
    "{absent, auto, all} × shots given × shots = 1) are evaluated exhaustively from the extracted statements and compared with the "
    "documented policy; (R17.5) the printed probability divides the count by the sum of that variable's counts. Per-shot outcome "
    "strings themselves depend on the draws and are not decided.")

T = 'bloch::runtime::Value::Type::'


def run(prog, chk):
    R = Roles(prog)
    chk.rule('R17.1', 'each tracked qubit/qubit[] entry of a closing scope is counted exactly once; nothing else is; the scope is popped')
    chk.rule('R17.2', 'every beginScope has its endScope on all normal paths')
    chk.rule('R17.3', 'outcome string = last measurements in index order, or ? if any element is unmeasured; both recorders agree')
    chk.rule('R17.4', 'CLI: aggregate = sum over shots; shots and echo policy as documented')
    chk.rule('R17.5', 'printed probability = count / (sum of that variable\'s counts)')
    end = R.ev_method('endScope')
    rec = R.ev_method('recordTrackedValue')
    for f in (end, rec):
        for lp in SX.walk(f.body):
            if lp['k'] in ('for', 'while', 'do'):
                raise AnalysisBroken('%s contains a non-range loop: the uniform-loop quotient does not apply' % f.short)
    last = [0, 1, -1]          # index 0 measured 0, index 1 measured 1, index 2 never measured; 7 and -1 are out of range
    cls_of = {0: '0', 1: '1', 2: None, 7: None, -1: None}

    def want_scalar(q):
        return cls_of[q] if cls_of[q] is not None else '?'

    def want_array(qs):
        return '?' if any(cls_of[q] is None for q in qs) else ''.join(cls_of[q] for q in qs)

    def val(kind, payload=None):
        v = Obj(type=T + kind, qubit=-1, qubitArray=[], intValue=0)
        if kind == 'Qubit':
            v['qubit'] = payload
        if kind == 'QubitArray':
            v['qubitArray'] = list(payload)
        return v
    arrays = [tuple(x) for n in range(0, 4) for x in itertools.product((0, 1, 2, 7), repeat=n)]
    scal = [0, 1, 2, 7, -1]
    n_states = 0
    bad1, bad3, badpop, badagree = [], [], [], []
    for payload, kind in [(q, 'Qubit') for q in scal] + [(a, 'QubitArray') for a in arrays]:
        want = want_scalar(payload) if kind == 'Qubit' else want_array(payload)
        for tracked in (True, False):
            n_states += 1
            scope = {'v': Obj(value=val(kind, payload), tracked=tracked, initialized=True),
                     'other': Obj(value=val('Int'), tracked=True, initialized=True),
                     'plain': Obj(value=val('Qubit', 0), tracked=False, initialized=True)}
            this = Obj(m_env=[{'outer': Obj(value=val('Qubit', 1), tracked=True, initialized=True)}, scope], m_lastMeasurement=list(last), m_trackedCounts={})
            it = Interp(prog, {'move': lambda it, e, env: it.expr(SX.real_args(e)[0], env)})
            try:
                it.call_fn_env(end, [], {'this': this})
            except OutOfRange as e:
                bad3.append((kind, payload, tracked, str(e), 'reads the last-measurement vector out of range'))
                continue
            except Unsupported as e:
                raise AnalysisBroken('abstract evaluation of endScope: %s' % e)
            counts = this['m_trackedCounts']
            key = ('qubit ' if kind == 'Qubit' else 'qubit[] ') + 'v'
            expect = {key: {want: 1}} if tracked else {}
            if counts != expect:
                (bad3 if tracked and list(counts) == [key] and sum(counts[key].values()) == 1 else bad1).append((kind, payload, tracked, counts, expect))
            if len(this['m_env']) != 1 or 'outer' not in this['m_env'][0]:
                badpop.append((kind, payload))
            if tracked:
                this2 = Obj(m_lastMeasurement=list(last), m_trackedCounts={})
                it2 = Interp(prog, {})
                try:
                    it2.call_fn_env(rec, ['K.f', val(kind, payload)], {'this': this2})
                except OutOfRange as e:
                    badagree.append((kind, payload, str(e), want))
                    continue
                except Unsupported as e:
                    raise AnalysisBroken('abstract evaluation of recordTrackedValue: %s' % e)
                c2 = this2['m_trackedCounts']
                if c2 != {'K.f': {want: 1}}:
                    badagree.append((kind, payload, c2, want))
    chk.extra['recorder_states'] = n_states
    chk.ob('R17.1', end, end.ln, not bad1, 'scope exit counts exactly the tracked qubit/qubit[] entries of the closing scope, once each; counterexamples: %s' % bad1[:2], key='count-once')
    chk.ob('R17.1', end, end.ln, not badpop, 'the closing scope (and only it) is popped after recording; counterexamples: %s' % badpop[:2], key='pops-scope')
    chk.ob('R17.3', end, end.ln, not bad3, 'outcome string: counterexamples %s' % bad3[:3], key='outcome:endScope')
    chk.ob('R17.3', rec, rec.ln, not badagree, 'object-field recorder agrees with the scope recorder on every state; counterexamples: %s' % badagree[:3], key='outcome:recordTrackedValue')

    # ---- R17.2 ---------------------------------------------------------------------------------
    nb = 0
    for f in [x for x in R.ev_methods() if x.body]:
        if not any(n['k'] == 'mcall' and SX.short(n['callee']) == 'beginScope' for n in SX.walk(f.body, into_lambdas=False)):
            continue
        g = prog.cfg(f)
        begins = [c for c in g.calls(lambda e: e['k'] == 'mcall' and e['callee'] == R.ev['name'] + '::beginScope')]
        ends = [c for c in g.calls(lambda e: e['k'] == 'mcall' and e['callee'] == R.ev['name'] + '::endScope')]
        for i, b in enumerate(begins):
            nb += 1
            ok = bool(ends) and g.must_follow(b, ends)
            chk.ob('R17.2', f, b.ln, ok, 'a scope opened in %s is closed on every normal path' % f.short, key='pair:%s#%d' % (f.short, i))
        for i, e in enumerate(ends):
            ok = bool(begins) and g.must_precede(begins, e)
            chk.ob('R17.2', f, e.ln, ok, 'endScope in %s closes a scope opened in the same function' % f.short, key='pair-end:%s#%d' % (f.short, i), nontrivial=False)
    chk.count('beginScope call sites', nb, 7)

    # ---- R17.6: output switches only affect output ------------------------------------------------
    chk.rule('R17.6', 'presentation switches (echo, warnings, QASM logging) never decide whether program code is evaluated')
    from .C13 import _config_members
    cfgm = {m for m in _config_members(prog, R.ev) if [f for f in R.ev['fields'] if f['name'] == m and f['type'] == 'bool']}
    chk.count('presentation switches of the evaluator', len(cfgm), 2)
    nsw = 0
    for f in [x for x in R.ev_methods() if x.body]:
        if not any(n['k'] == 'member' and n['name'] in cfgm for n in SX.walk(f.body, into_lambdas=False)):
            continue
        g = prog.cfg(f)
        for c in g.calls(lambda e: e['k'] == 'mcall' and e['callee'].startswith(R.ev['name'] + '::') and SX.short(e['callee']) in ('eval', 'exec', 'call', 'callMethod')):
            sw = [SX.show(ce) for ce, pol, _ in g.guards(c) if any(x['k'] == 'member' and x['name'] in cfgm for x in SX.walk(ce))]
            nsw += 1
            chk.ob('R17.6', f, c.ln, not sw, 'evaluation %s is conditional on the output switch %s: with echo off, side effects inside the operand (a measurement, a call) are skipped and '
                   'tracked outcomes change with the --echo mode' % (SX.show(c.e)[:40], sw), key='switch-guards-eval:%s' % f.short, nontrivial=bool(sw))
    # ---- R17.3b: a reset invalidates the qubit's recorded outcome --------------------------------------------------
    from ..kernels import ArgSummary, arg
    from ..kcanon import Canon
    last = [x['name'] for x in R.ev['fields'] if x['type'] == 'std::vector<int>' and 'last' in x['name'].lower()]
    if len(last) == 1:
        last = last[0]
        evfns = [x for x in R.ev_methods() if x.body]
        base = []
        for f in evfns:
            for n in SX.walk(f.body, into_lambdas=False):
                w = SX.write_target(n)
                if w and SX.is_node(SX.strip(w[0])) and SX.strip(w[0]).get('k') == 'index' and SX.is_this_member(SX.strip(SX.strip(w[0])['base']), last):
                    i_ = SX.strip(SX.strip(w[0])['i'])
                    v_ = SX.strip(w[1])
                    neg1 = SX.is_node(v_) and v_.get('k') == 'un' and v_.get('op') == '-' and SX.strip(v_['e']).get('v') == 1
                    if SX.is_node(i_) and i_.get('k') == 'ref' and i_.get('kind') == 'param' and neg1:
                        base.append((f, [[k for k, p_ in enumerate(f.params) if p_['id'] == i_['id']][0]]))
        CLR = ArgSummary(prog, base, evfns, modulo_bounds=True)
        sim = R.sim_classify()
        nrs = 0
        for f in evfns:
            if not any(R.is_sim_call(n, (sim['reset'].short,)) for n in SX.walk(f.body, into_lambdas=False)):
                continue
            g = prog.cfg(f)
            canon = Canon(prog, f)
            for node in g.calls(lambda e: R.is_sim_call(e, (sim['reset'].short,))):
                nrs += 1
                t = canon.text(arg(node.e, 0))
                clr = [x for x in g.calls() if CLR.establishes_canon(x.e, t, canon)]
                ok = bool(clr) and (g.must_follow(node, clr) or g.must_precede(clr, node))
                chk.ob('R17.3', f, node.ln or f.ln, ok,
                       'sim.reset(%s) goes with forgetting the qubit\'s last measurement (%s[q] = -1, through the unmark/release helpers): a tracked qubit that is measured, reset and not '
                       'measured again counts as `?`, not as its stale outcome' % (t, last), key='reset-forgets:%s:%s' % (f.short, t[:24]))
        chk.count('evaluator reset sites', nrs, 3)
        chk.count('functions that forget a last measurement', len(base), 1)
    # ---- R17.1b: an object's tracked fields are sampled when the object ends, i.e. after its destructors ran --------------
    do = R.ev_method('destroyObject')
    gd = prog.cfg(do)
    recs = [c for c in gd.calls(lambda e: e['k'] == 'mcall' and e.get('callee') == rec.name)]
    execs_d = [c for c in gd.calls(lambda e: e['k'] == 'mcall' and SX.short(e.get('callee', '')) == 'exec' and e['callee'].startswith(R.ev['name']))]
    if not recs:
        chk.ob('R17.1', do, do.ln, False, 'destroyObject records the tracked fields of the object it ends (no reachable recorder call found)', key='object-fields-recorded')
    for c in recs:
        r_ = gd.reachable([c])
        late = [x for x in execs_d if x.id in r_]
        chk.ob('R17.1', do, c.ln or do.ln, not late,
               'the tracked fields of an object are sampled after its destructor chain has run (a destructor may still measure them): the sample must be the last measurement at the '
               'moment the object ends', key='object-fields-after-destructors')
    # ---- R17.4 / R17.5 CLI ---------------------------------------------------------------------
    _cli(prog, chk, R)


def _declarator_siblings(prog, chk):
    """`@tracked qubit a, b;` — the parser builds one declaration node per declarator; every attribute it derives from the
    written declaration (annotations and the flags derived from them, finality, type, position) must be given to each of them"""
    chk.rule('R17.7', 'every declarator of a multi-declaration receives the attributes (tracked flag included) of the declaration')
    n_ = 0
    for f in prog.functions:
        if not f.body or not f.file.endswith('parser.cpp') or f.kind == 'lambda':
            continue
        made = [v for v in SX.walk(f.body, into_lambdas=False) if v['k'] == 'var' and 'unique_ptr<bloch::compiler::VariableDeclaration>' in (v.get('type') or '').replace('std::', '')
                and 'make_unique' in SX.show(v.get('init'))]
        if len(made) < 2:
            continue
        written = {}
        for n in SX.walk(f.body, into_lambdas=False):
            w = SX.write_target(n)
            if not w:
                continue
            l = SX.strip(w[0])
            if SX.is_node(l) and l.get('k') == 'member':
                root = SX.strip(l.get('base'))
                while SX.is_node(root) and root.get('k') == 'opcall' and root.get('op') in ('->', '*') and root.get('args'):
                    root = SX.strip(root['args'][0])
                if SX.is_node(root) and root.get('k') == 'ref' and root.get('id') in {v['id'] for v in made}:
                    written.setdefault(root['id'], set()).add(l['name'])
        first = made[0]
        for other in made[1:]:
            n_ += 1
            missing = sorted(written.get(first['id'], set()) - written.get(other['id'], set()) - {'initializer'})
            chk.ob('R17.7', f, other.get('ln', f.ln), not missing,
                   'the additional declarator node `%s` receives every attribute the first one (`%s`) receives; missing: %s — a `@tracked qubit a, b;` then tracks only `a`' %
                   (other['name'], first['name'], missing), key='declarators:%s:%s' % (f.short, other['name']))
    chk.count('additional declarator nodes', n_, 1)


def _shots_pair(prog, chk):
    """the (annotated?, N) pair the CLI reads is written by the loader: `annotated` is true exactly when main carries @shots —
    it does not depend on N (with @shots(1) the run is still an annotated run: header, table, precedence over --shots)"""
    ld = [f for f in prog.functions if f.file.endswith('module_loader.cpp') and f.body and f.kind != 'lambda' and any(
        (lambda w: w and SX.is_node(SX.strip(w[0])) and SX.strip(w[0]).get('k') == 'member' and SX.strip(w[0]).get('name') == 'shots')(SX.write_target(n))
        for n in SX.walk(f.body, into_lambdas=False))]
    if len(ld) != 1:
        raise AnalysisBroken('writer of Program::shots not found uniquely')
    f = ld[0]
    g = prog.cfg(f)
    n_ = 0
    for node, l, r, op in g.writes():
        l0 = SX.strip(l)
        if not (SX.is_node(l0) and l0.get('k') == 'member' and l0.get('name') == 'shots'):
            continue
        r0 = SX.strip(r)
        items = (r0.get('items') if r0.get('k') == 'initlist' else SX.real_args(r0)) if SX.is_node(r0) else None
        if not items or len(items) != 2:
            raise AnalysisBroken('Program::shots is not written as a (flag, count) pair')
        n_ += 1
        flag = SX.strip(items[0])
        under_annotation = any(pol and 'shots' in SX.show(ce) and ('name' in SX.show(ce) or 'hasShotsAnnotation' in SX.show(ce)) for ce, pol, _ in g.guards(node))
        if under_annotation:
            ok = SX.is_node(flag) and flag.get('k') == 'bool' and flag['v'] is True
            chk.ob('R17.4', f, node.ln or f.ln, ok,
                   'when main carries @shots the pair records annotated = true whatever N is (found `%s`): @shots(1) is an annotated single-shot run' % SX.show(flag)[:30],
                   key='shots-pair:annotated')
        else:
            ok = SX.is_node(flag) and flag.get('k') == 'bool' and flag['v'] is False
            chk.ob('R17.4', f, node.ln or f.ln, ok, 'without the annotation the pair records annotated = false (found `%s`)' % SX.show(flag)[:30], key='shots-pair:plain')
    chk.count('writes of the (annotated, N) pair', n_, 2)


def _cli(prog, chk, R):
    _shots_pair(prog, chk)
    _declarator_siblings(prog, chk)
    cli = [f for f in prog.functions if f.file.endswith('cli.cpp') and f.body and any(
        n['k'] == 'mcall' and SX.short(n['callee']) == 'trackedCounts' for n in SX.walk(f.body, into_lambdas=False))]
    if len(cli) != 1:
        raise AnalysisBroken('CLI run function not found')
    f = cli[0]
    from ..kernels import enclosing_stmts
    # aggregate accumulation inside the shot loop
    tc = [n for n in SX.walk(f.body, into_lambdas=False) if n['k'] == 'mcall' and SX.short(n['callee']) == 'trackedCounts']
    ok = False
    for n in tc:
        chain = enclosing_stmts(f.body, n)
        loops = [s for s in chain if s['k'] in ('for', 'forrange')]
        outer = [s for s in loops if s['k'] == 'for']
        fr = [s for s in loops if s['k'] == 'forrange' and any(x is n for x in SX.walk(s['range']))]
        if not outer or not fr:
            continue
        adds = [x for x in SX.walk(fr[0]['body']) if (lambda w: w and w[2] == '+=' and SX.show(w[1]).endswith('.second'))(SX.write_target(x))]
        full = not any(x['k'] in ('break', 'continue', 'return') for x in SX.walk(fr[0]['body']))
        inner = [x for x in SX.walk(fr[0]['body']) if x['k'] == 'forrange']
        keyed = adds and 'first' in SX.show(SX.write_target(adds[0])[0])
        ok = bool(adds) and full and len(inner) == 1 and bool(keyed)
        g = prog.cfg(f)
        ex = [c for c in g.calls(lambda e: e['k'] == 'mcall' and SX.short(e['callee']) == 'execute')]
        node = [c for c in g.nodes if c.e is n]
        ok = ok and bool(node) and any(g.dominates(x, node[0]) for x in ex)
        # unconditional: after a shot executed, no path leaves the iteration without visiting the accumulation loop
        rinit = [c for c in g.nodes if c.kind == 'rangeinit' and c.e is fr[0]]
        ok = ok and bool(rinit) and all(g.must_follow(x, rinit, use_x=False) for x in ex if g.dominates(x, node[0]))
    chk.ob('R17.4', f, tc[0].get('ln', f.ln), ok, 'every shot\'s counts (all variables × all outcomes) are added into the aggregate, inside the shot loop, after execute', key='aggregate-sum')
    # policy tables by abstract evaluation of the extracted statements
    names = {}
    for v in SX.walk(f.body, into_lambdas=False):
        if v['k'] == 'var':
            names.setdefault(v['name'], v)
    for v in SX.walk(f.body, into_lambdas=False):
        if v['k'] == 'var' and v['type'] == 'bool' and SX.is_node(v.get('init')) and 'shots.first' in SX.show(v['init']).replace('->', '.').replace('(*program)', 'program'):
            names['isAnnotationShots'] = v     # the inner declaration that reads Program::shots (an outer one of the same name is shadowed)
    need = ['isCliShots', 'cliShots', 'shots', 'shotsProvided', 'echoOpt', 'echoAll', 'isAnnotationShots']
    if not all(n in names for n in need):
        raise AnalysisBroken('CLI policy variables not found: %s' % [n for n in need if n not in names])
    # the statements between the declaration of isAnnotationShots and the analyser construction
    block = None
    for b in SX.walk(f.body, into_lambdas=False):
        if b['k'] == 'block' and any(s['k'] == 'decls' and any(v is names['isAnnotationShots'] for v in s['d']) for s in b['body']):
            block = b
    stmts = []
    take = False
    for s in block['body']:
        if s['k'] == 'decls' and any(v is names['isAnnotationShots'] for v in s['d']):
            take = True
            continue
        if s['k'] == 'decls' and any('SemanticAnalyser' in v['type'] for v in s['d']):
            break
        if take:
            stmts.append(s)
    bad_s, bad_e = [], []
    nst = 0
    for cli_f, ann in itertools.product((False, True), repeat=2):
        for cliN, annN in ((1, 1), (1, 5), (5, 1), (3, 5)):
            for opt in ('', 'auto', 'all'):
                nst += 1
                env = {names['isCliShots']['id']: cli_f, names['cliShots']['id']: cliN if cli_f else 1, names['shots']['id']: 1,
                       names['shotsProvided']['id']: False, names['echoOpt']['id']: opt, names['isAnnotationShots']['id']: ann}
                prog_obj = Obj(shots=Obj(first=ann, second=annN if ann else 1))
                it = Interp(prog, {'blochWarning': lambda it, e, env: None, 'blochInfo': lambda it, e, env: None,
                                   'empty': lambda it, e, env: len(it.expr(e['obj'], env)) == 0,
                                   'op:->': lambda it, e, env: prog_obj, 'op:*': lambda it, e, env: prog_obj})
                try:
                    for s in stmts:
                        it.stmt(s, env)
                except Unsupported as e:
                    raise AnalysisBroken('CLI policy statements: %s' % e)
                shots = env[names['shots']['id']]
                provided = env[names['shotsProvided']['id']]
                echo = env[names['echoAll']['id']]
                want_shots = annN if ann else (cliN if cli_f else 1)
                want_prov = ann or cli_f
                if shots != want_shots or bool(provided) != want_prov:
                    bad_s.append((cli_f, ann, cliN, annN, shots, provided))
                want_echo = (opt == 'all') or (opt in ('', 'auto') and (not want_prov or want_shots == 1))
                if bool(echo) != want_echo:
                    bad_e.append((opt, want_prov, want_shots, echo))
    chk.extra['cli_policy_states'] = nst
    chk.ob('R17.4', f, names['shots'].get('ln', f.ln), not bad_s, '@shots(N) takes precedence over --shots; either one enables multi-shot mode; counterexamples: %s' % bad_s[:3], key='shots-policy')
    chk.ob('R17.4', f, names['echoAll'].get('ln', f.ln), not bad_e, 'echo iff --echo=all, or --echo absent/auto with a single shot; counterexamples: %s' % bad_e[:3], key='echo-policy')
    # echo policy reaches every evaluator: setEcho(echoAll) before execute at every site
    g = prog.cfg(f)
    for i, ex in enumerate(g.calls(lambda e: e['k'] == 'mcall' and SX.short(e['callee']) == 'execute')):
        obj = SX.show(ex.e['obj'])
        se = [c for c in g.calls(lambda e: e['k'] == 'mcall' and SX.short(e['callee']) == 'setEcho' and SX.show(e['obj']) == obj and SX.strip(SX.real_args(e)[0]).get('id') == names['echoAll']['id'])]
        chk.ob('R17.4', f, ex.ln, bool(se) and g.must_precede(se, ex), 'the echo decision is applied to the evaluator before it executes', key='echo-applied#%d' % i)
    # ---- R17.5 ---------------------------------------------------------------------------------
    # the printing code may live in runImpl or in a helper of the same file that runImpl reaches
    hosts = [f] + [h for h in prog.reach([f]) if h is not f and h.body and h.file == f.file and h.kind != 'lambda']
    divs_h = [(h, n) for h in hosts for n in SX.walk(h.body, into_lambdas=False)
              if n['k'] == 'bin' and n['op'] == '/' and n.get('t') == 'double' and 'second' in SX.show(n['l'])]
    chk.count('probability divisions in the CLI', len(divs_h), 1)
    f_run = f
    for f, n in divs_h:
        d = SX.strip(n['r'])
        while SX.is_node(d) and d['k'] == 'cast':
            d = d['e']
        ok = False
        why = 'divisor is %s' % SX.show(d)
        if d.get('k') == 'ref' and d.get('kind') == 'var':
            decl = [v for v in SX.walk(f.body, into_lambdas=False) if v['k'] == 'var' and v['id'] == d.get('id')]
            accs = [x for x in SX.walk(f.body, into_lambdas=False) if (lambda w: w and w[2] == '+=' and SX.strip(w[0]).get('id') == d.get('id'))(SX.write_target(x))]
            if decl and accs and SX.is_node(SX.strip(decl[0].get('init'))) and SX.strip(decl[0]['init']).get('v') == 0:
                lp = [s for s in enclosing_stmts(f.body, accs[0]) if s['k'] == 'forrange']
                dl = [s for s in enclosing_stmts(f.body, n) if s['k'] == 'forrange']
                same = bool(lp) and bool(dl) and SX.show(lp[-1]['range']) == SX.show(dl[-1]['range'])
                adds_second = SX.show(SX.write_target(accs[0])[1]).endswith('.second')
                full = bool(lp) and not any(x['k'] in ('break', 'continue', 'return') for x in SX.walk(lp[-1]['body']))
                ok = same and adds_second and full and len(accs) == 1
                why = 'divisor %s = Σ counts over %s: %s' % (d['name'], SX.show(lp[-1]['range']) if lp else '?', ok)
        chk.ob('R17.5', f, n.get('ln', f.ln), ok, 'probability = count / (sum of that variable\'s counts), so the column sums to 1 whatever the number of scope exits per shot; %s' % why,
               key='denominator')
