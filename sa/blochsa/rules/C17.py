"""C17 — @tracked/@shots reporting counts every scope exit of every shot exactly once."""
import itertools
from .. import sx as SX
from ..facts import AnalysisBroken
from ..roles import Roles
from ..kabs import Interp, Obj, Unsupported, OutOfRange

EXPLANATION = (
    "Accounting rules decided from the source: (R17.1/R17.3) the scope-exit recorder and the object-field recorder are evaluated "
    "abstractly from their own syntax trees over the quotient domain {entry kind: tracked/untracked × qubit/qubit[]/other} × {element "
    "class: measured 0, measured 1, unmeasured, out of range} with registers of length 0–3 (the loops are uniform range-for loops over "
    "the register, checked syntactically): every tracked qubit/qubit[] entry of the closing scope is counted exactly once under the key "
    "`qubit <name>` / `qubit[] <name>`, nothing else is counted, the outcome is the bit string of the last measurements in index order "
    "or '?' as soon as one element is unmeasured, the scope is popped afterwards, and the two recorders agree; (R17.2) every scope that "
    "is opened is closed on every normal path, so every scope exit is seen by the recorder; (R17.4) the CLI adds every count of every "
    "shot into the aggregate inside the shot loop; the shots policy (flag present × annotation present) and the echo policy (--echo ∈ "
    "{absent, auto, all} × shots given × shots = 1) are evaluated exhaustively from the extracted statements and compared with the "
    "documented policy; (R17.5) the printed probability divides the count by the sum of that variable's counts. Per-shot outcome "
    "strings themselves depend on the draws and are not decided.")

T = 'bloch::runtime::Value::Type::'


def run(prog, chk):
    R = Roles(prog)
    chk.rule('R17.1', 'each tracked qubit/qubit[] entry of a closing scope is counted exactly once; nothing else is; the scope is popped')
    chk.rule('R17.2', 'every beginScope has its endScope on all normal paths')
    chk.rule('R17.3', 'outcome string = last measurements in index order, or ? if any element is unmeasured; both recorders agree')
    chk.rule('R17.4', 'CLI: aggregate = sum over shots; shots and echo policy as documented')
    chk.rule('R17.5', 'printed probability = count / (sum of that variable\'s counts)')
    recorder_tables(prog, chk, R)
    end = R.ev_method('endScope')
    rec = R.ev_method('recordTrackedValue')

    # the record the outcome strings are built from: each measurement is stored under the measured qubit's own index (C02's R02.5)
    from .C02 import evaluator_measure_sites
    evaluator_measure_sites(prog, chk, R, R.sim_classify()['measure'], 'R17.3')
    # the owner of a tracked field that only a garbage cycle still refers to ends inside the run: the collector keeps such referrers
    # alive while the program runs (C11 R11.5), but the collection at the end of the run must release them — at teardown nothing is
    # recorded any more
    from . import C11 as _c11

    class _Quiet:
        def __init__(self):
            self.extra = {}
            self.vacuous = []

        def rule(self, *a, **k):
            pass

        def ob(self, *a, **k):
            return True

        def count(self, *a, **k):
            pass

        def note(self, *a, **k):
            pass
    q_ = _Quiet()
    gc_ = R.ev_method('runCycleCollector')
    entry_ = None
    for f_ in R.ev_methods():
        for lf_ in f_.lambdas:
            for n_ in SX.walk(f_.body, into_lambdas=False):
                if n_['k'] == 'construct' and n_['type'] == 'std::thread' and lf_.node in n_['args']:
                    entry_ = lf_
    if entry_ is None:
        raise AnalysisBroken('timer thread entry lambda not found')
    valrec_ = _c11._value_record(prog)
    _c11._rule_sweep_closed(prog, q_, R, gc_, R.ev_method('markObject'), [f_['name'] for f_ in valrec_['fields'] if 'std::shared_ptr<bloch::runtime::Object>' in f_['type']], entry_)
    sc_ = q_.extra.get('sweep_closure')
    if sc_ and sc_['found']:
        chk.ob('R17.8', gc_, sc_.get('line') or gc_.ln, sc_['skipped_when_run_is_over'],
               'the collector keeps the referrers of objects with tracked fields alive only while the program runs: the closure over %s is skipped once the run is over, so the '
               'end-of-run collection releases them and their tracked outcomes are recorded (kept until teardown they are dropped silently: counts fall short of N × exits)' % sc_['kept_set'],
               key='end-of-run-release')
    # the class flag the collector reads ("objects of this class own qubits or tracked state") covers inherited fields: every builder of
    # runtime classes that copies the field table from the base copies the flag with it — otherwise an object of a class that only
    # inherits its @tracked field is reclaimed silently when a garbage cycle is its last owner, and its outcome is never recorded
    nb_ = 0
    for f_ in prog.in_file('runtime_evaluator.cpp', with_lambdas=False):
        if not f_.body:
            continue
        copied = {}
        for n_ in SX.walk(f_.body, into_lambdas=False):
            w_ = SX.write_target(n_)
            if not (w_ and w_[2] == '='):
                continue
            l_, r_ = SX.strip(w_[0]), SX.strip(w_[1])
            if SX.is_node(l_) and l_.get('k') == 'member' and SX.is_node(r_) and r_.get('k') == 'member' and l_['name'] == r_['name'] and 'RuntimeClass' in (l_.get('q') or ''):
                rb_ = SX.strip(r_['base'])
                while SX.is_node(rb_) and rb_.get('k') == 'opcall' and rb_.get('op') in ('->', '*'):
                    rb_ = SX.strip(rb_['args'][0])
                if SX.is_node(rb_) and ((rb_.get('k') == 'member' and rb_.get('name') == 'base') or (rb_.get('k') == 'ref' and 'base' in rb_.get('name', '').lower())):
                    copied[l_['name']] = n_.get('ln', f_.ln)
        if 'instanceFields' in copied:
            nb_ += 1
            chk.ob('R17.3', f_, copied['instanceFields'], 'hasTrackedFields' in copied,
                   '%s starts a class from its base\'s field table: the "has qubit/tracked fields" flag is copied with it (an object that only inherits its tracked field is otherwise '
                   'reclaimed silently when a garbage cycle is its last owner — its outcome is never recorded)' % f_.short, key='tracked-flag-inherited:' + f_.short)
    chk.count('builders that start a class from its base\'s field table', nb_, 2)
    # ---- R17.2 ---------------------------------------------------------------------------------
    nb = 0
    for f in [x for x in R.ev_methods() if x.body]:
        if not any(n['k'] == 'mcall' and SX.short(n['callee']) == 'beginScope' for n in SX.walk(f.body, into_lambdas=False)):
            continue
        g = prog.cfg(f)
        begins = [c for c in g.calls(lambda e: e['k'] == 'mcall' and e['callee'] == R.ev['name'] + '::beginScope')]
        ends = [c for c in g.calls(lambda e: e['k'] == 'mcall' and e['callee'] == R.ev['name'] + '::endScope')]
        for i, b in enumerate(begins):
            nb += 1
            ok = bool(ends) and g.must_follow(b, ends)
            chk.ob('R17.2', f, b.ln, ok, 'a scope opened in %s is closed on every normal path' % f.short, key='pair:%s#%d' % (f.short, i))
        for i, e in enumerate(ends):
            ok = bool(begins) and g.must_precede(begins, e)
            chk.ob('R17.2', f, e.ln, ok, 'endScope in %s closes a scope opened in the same function' % f.short, key='pair-end:%s#%d' % (f.short, i), nontrivial=False)
    chk.count('beginScope call sites', nb, 7)

    # ---- R17.6: output switches only affect output ------------------------------------------------
    chk.rule('R17.6', 'presentation switches (echo, warnings, QASM logging) never decide whether program code is evaluated')
    from .C13 import _config_members
    cfgm = {m for m in _config_members(prog, R.ev) if [f for f in R.ev['fields'] if f['name'] == m and f['type'] == 'bool']}
    chk.count('presentation switches of the evaluator', len(cfgm), 2)
    nsw = 0
    for f in [x for x in R.ev_methods() if x.body]:
        if not any(n['k'] == 'member' and n['name'] in cfgm for n in SX.walk(f.body, into_lambdas=False)):
            continue
        g = prog.cfg(f)
        for c in g.calls(lambda e: e['k'] == 'mcall' and e['callee'].startswith(R.ev['name'] + '::') and SX.short(e['callee']) in ('eval', 'exec', 'call', 'callMethod')):
            sw = [SX.show(ce) for ce, pol, _ in g.guards(c) if any(x['k'] == 'member' and x['name'] in cfgm for x in SX.walk(ce))]
            nsw += 1
            chk.ob('R17.6', f, c.ln, not sw, 'evaluation %s is conditional on the output switch %s: with echo off, side effects inside the operand (a measurement, a call) are skipped and '
                   'tracked outcomes change with the --echo mode' % (SX.show(c.e)[:40], sw), key='switch-guards-eval:%s' % f.short, nontrivial=bool(sw))
    # each switch governs its own output only: the echo lines of a run are written out at the end of every run (the CLI silences the
    # *warnings* of all shots but the last — if the flush hung on that switch, `--echo=all` would print one shot's echoes)
    bufs = [x['name'] for x in R.ev['fields'] if x['type'].replace(' ', '') in ('std::vector<std::string>',) and 'echo' in x['name'].lower()]
    flushers = []
    for f in [x for x in R.ev_methods() if x.body]:
        reads = any(lp['k'] == 'forrange' and SX.is_this_member(SX.strip(lp['range'])) and SX.strip(lp['range'])['name'] in bufs and
                    any(x['k'] == 'opcall' and x.get('op') == '<<' for x in SX.walk(lp['body'])) for lp in SX.walk(f.body, into_lambdas=False))
        if reads:
            flushers.append(f)
    exf = R.ev_method('execute')
    gx = prog.cfg(exf)
    if len(flushers) == 1:
        fc = [c for c in gx.calls(lambda e: e['k'] == 'mcall' and e.get('callee') == flushers[0].name)]
        sw = [SX.show(ce) for c in fc for ce, pol, _ in gx.guards(c) if any(x['k'] == 'member' and x['name'] in cfgm for x in SX.walk(ce))]
        chk.ob('R17.6', exf, fc[0].ln if fc else exf.ln, bool(fc) and gx.must_follow(gx.entry, fc) and not sw,
               'every run ends by writing out its echo lines (%s), on every normal path and under no presentation switch (%s)' % (flushers[0].short, sw or 'none'), key='echo-flush-unconditional')
    else:
        chk.vacuous.append('echo flush function not resolved (%d candidates)' % len(flushers))
    # ---- R17.3b: a reset invalidates the qubit's recorded outcome --------------------------------------------------
    from ..kernels import ArgSummary, arg
    from ..kcanon import Canon
    last = [x['name'] for x in R.ev['fields'] if x['type'] == 'std::vector<int>' and 'last' in x['name'].lower()]
    if len(last) == 1:
        last = last[0]
        evfns = [x for x in R.ev_methods() if x.body]
        base = []
        for f in evfns:
            for n in SX.walk(f.body, into_lambdas=False):
                w = SX.write_target(n)
                if w and SX.is_node(SX.strip(w[0])) and SX.strip(w[0]).get('k') == 'index' and SX.is_this_member(SX.strip(SX.strip(w[0])['base']), last):
                    i_ = SX.strip(SX.strip(w[0])['i'])
                    v_ = SX.strip(w[1])
                    neg1 = SX.is_node(v_) and v_.get('k') == 'un' and v_.get('op') == '-' and SX.strip(v_['e']).get('v') == 1
                    if SX.is_node(i_) and i_.get('k') == 'ref' and i_.get('kind') == 'param' and neg1:
                        base.append((f, [[k for k, p_ in enumerate(f.params) if p_['id'] == i_['id']][0]]))
        CLR = ArgSummary(prog, base, evfns, modulo_bounds=True)
        sim = R.sim_classify()
        nrs = 0
        from ..kcanon import inline_closures
        for f in evfns:
            f = inline_closures(prog, f)
            if not any(R.is_sim_call(n, (sim['reset'].short,)) for n in SX.walk(f.body, into_lambdas=False)):
                continue
            g = prog.cfg(f)
            canon = Canon(prog, f)
            for node in g.calls(lambda e: R.is_sim_call(e, (sim['reset'].short,))):
                nrs += 1
                t = canon.text(arg(node.e, 0))
                clr = [x for x in g.calls() if CLR.establishes_canon(x.e, t, canon)]
                ok = bool(clr) and (g.must_follow(node, clr) or g.must_precede(clr, node))
                chk.ob('R17.3', f, node.ln or f.ln, ok,
                       'sim.reset(%s) goes with forgetting the qubit\'s last measurement (%s[q] = -1, through the unmark/release helpers): a tracked qubit that is measured, reset and not '
                       'measured again counts as `?`, not as its stale outcome' % (t, last), key='reset-forgets:%s:%s' % (f.short, t[:24]))
        chk.count('evaluator reset sites', nrs, 3)
        chk.count('functions that forget a last measurement', len(base), 1)
    # ---- R17.1b: an object's tracked fields are sampled when the object ends, i.e. after its destructors ran --------------
    do = R.ev_method('destroyObject')
    gd = prog.cfg(do)
    recs = [c for c in gd.calls(lambda e: e['k'] == 'mcall' and e.get('callee') == rec.name)]
    execs_d = [c for c in gd.calls(lambda e: e['k'] == 'mcall' and SX.short(e.get('callee', '')) == 'exec' and e['callee'].startswith(R.ev['name']))]
    if not recs:
        chk.ob('R17.1', do, do.ln, False, 'destroyObject records the tracked fields of the object it ends (no reachable recorder call found)', key='object-fields-recorded')
    for c in recs:
        r_ = gd.reachable([c])
        late = [x for x in execs_d if x.id in r_]
        chk.ob('R17.1', do, c.ln or do.ln, not late,
               'the tracked fields of an object are sampled after its destructor chain has run (a destructor may still measure them): the sample must be the last measurement at the '
               'moment the object ends', key='object-fields-after-destructors')
    # ---- R17.4 / R17.5 CLI ---------------------------------------------------------------------
    _cli(prog, chk, R)


def _declarator_siblings(prog, chk, rule='R17.7'):
    """`@tracked qubit a, b;` — the parser builds one declaration node per declarator; every attribute it derives from the
    written declaration (annotations and the flags derived from them, finality, type, position) must be given to each of them"""
    chk.rule(rule, 'every declarator of a multi-declaration receives the attributes (tracked flag included) of the declaration')
    n_ = 0
    for f in prog.functions:
        if not f.body or not f.file.endswith('parser.cpp') or f.kind == 'lambda':
            continue
        made = [v for v in SX.walk(f.body, into_lambdas=False) if v['k'] == 'var' and 'unique_ptr<bloch::compiler::VariableDeclaration>' in (v.get('type') or '').replace('std::', '')
                and 'make_unique' in SX.show(v.get('init'))]
        if len(made) < 2:
            continue
        written = {}
        for n in SX.walk(f.body, into_lambdas=False):
            w = SX.write_target(n)
            if not w:
                continue
            l = SX.strip(w[0])
            if SX.is_node(l) and l.get('k') == 'member':
                root = SX.strip(l.get('base'))
                while SX.is_node(root) and root.get('k') == 'opcall' and root.get('op') in ('->', '*') and root.get('args'):
                    root = SX.strip(root['args'][0])
                if SX.is_node(root) and root.get('k') == 'ref' and root.get('id') in {v['id'] for v in made}:
                    written.setdefault(root['id'], set()).add(l['name'])
        first = made[0]
        for other in made[1:]:
            n_ += 1
            missing = sorted(written.get(first['id'], set()) - written.get(other['id'], set()) - {'initializer'})
            chk.ob(rule, f, other.get('ln', f.ln), not missing,
                   'the additional declarator node `%s` receives every attribute the first one (`%s`) receives; missing: %s — a `@tracked qubit a, b;` then tracks only `a`' %
                   (other['name'], first['name'], missing), key='declarators:%s:%s' % (f.short, other['name']))
            # … and what it receives is the finished value: an attribute copied from the first node (`extra->isTracked = var->isTracked`) is
            # not written on the first node afterwards (the copy would hand on the value from before — `false`)
            g = prog.cfg(f)

            def root_of(e):
                e = SX.strip(e)
                while SX.is_node(e) and e.get('k') == 'opcall' and e.get('op') in ('->', '*') and e.get('args'):
                    e = SX.strip(e['args'][0])
                return e
            for cn, l, r, op in g.writes():
                l0 = SX.strip(l)
                if not (SX.is_node(l0) and l0.get('k') == 'member' and SX.is_node(root_of(l0.get('base'))) and root_of(l0['base']).get('id') == other['id']):
                    continue
                src = [x for x in SX.walk(r) if x.get('k') == 'member' and SX.is_node(root_of(x.get('base'))) and root_of(x['base']).get('id') == first['id']] if SX.is_node(r) else []
                for sm in src:
                    later = g.reachable([cn])
                    late = [wn for wn, l2, r2, op2 in g.writes() if wn.id in later and SX.is_node(SX.strip(l2)) and SX.strip(l2).get('k') == 'member'
                            and SX.strip(l2).get('name') == sm.get('name') and SX.is_node(root_of(SX.strip(l2).get('base'))) and root_of(SX.strip(l2)['base']).get('id') == first['id']]
                    chk.ob(rule, f, cn.ln or f.ln, not late,
                           '`%s` copies %s from the first declarator, which is final at that point (written again at line %s: the copy hands on the value from before)' %
                           (SX.show(cn.e)[:50], sm.get('name'), late[0].ln if late else '-'), key='declarators:%s:%s:copy-%s' % (f.short, other['name'], sm.get('name')))
    chk.count('additional declarator nodes', n_, 1)


def recorder_tables(prog, chk, R, r1='R17.1', r3='R17.3'):
    """the scope-exit recorder and the object-field recorder evaluated abstractly on every small state (also run by C02: the recorded
    outcome must be the bits the measurements returned, element by element in index order)"""
    end = R.ev_method('endScope')
    rec = R.ev_method('recordTrackedValue')
    for f in (end, rec):
        for lp in SX.walk(f.body):
            if lp['k'] in ('for', 'while', 'do'):
                raise AnalysisBroken('%s contains a non-range loop: the uniform-loop quotient does not apply' % f.short)
    last = [0, 1, -1]          # index 0 measured 0, index 1 measured 1, index 2 never measured; 7 and -1 are out of range
    cls_of = {0: '0', 1: '1', 2: None, 7: None, -1: None}

    def want_scalar(q):
        return cls_of[q] if cls_of[q] is not None else '?'

    def want_array(qs):
        return '?' if any(cls_of[q] is None for q in qs) else ''.join(cls_of[q] for q in qs)

    def val(kind, payload=None):
        v = Obj(type=T + kind, qubit=-1, qubitArray=[], intValue=0)
        if kind == 'Qubit':
            v['qubit'] = payload
        if kind == 'QubitArray':
            v['qubitArray'] = list(payload)
        return v
    arrays = [tuple(x) for n in range(0, 4) for x in itertools.product((0, 1, 2, 7), repeat=n)]
    scal = [0, 1, 2, 7, -1]
    n_states = 0
    bad1, bad3, badpop, badagree = [], [], [], []
    for payload, kind in [(q, 'Qubit') for q in scal] + [(a, 'QubitArray') for a in arrays]:
        want = want_scalar(payload) if kind == 'Qubit' else want_array(payload)
        for tracked in (True, False):
            n_states += 1
            scope = {'v': Obj(value=val(kind, payload), tracked=tracked, initialized=True),
                     'other': Obj(value=val('Int'), tracked=True, initialized=True),
                     'plain': Obj(value=val('Qubit', 0), tracked=False, initialized=True)}
            this = Obj(m_env=[{'outer': Obj(value=val('Qubit', 1), tracked=True, initialized=True)}, scope], m_lastMeasurement=list(last), m_trackedCounts={})
            it = Interp(prog, {'move': lambda it, e, env: it.expr(SX.real_args(e)[0], env)})
            try:
                it.call_fn_env(end, [], {'this': this})
            except OutOfRange as e:
                bad3.append((kind, payload, tracked, str(e), 'reads the last-measurement vector out of range'))
                continue
            except Unsupported as e:
                raise AnalysisBroken('abstract evaluation of endScope: %s' % e)
            counts = this['m_trackedCounts']
            key = ('qubit ' if kind == 'Qubit' else 'qubit[] ') + 'v'
            expect = {key: {want: 1}} if tracked else {}
            if counts != expect:
                (bad3 if tracked and list(counts) == [key] and sum(counts[key].values()) == 1 else bad1).append((kind, payload, tracked, counts, expect))
            if len(this['m_env']) != 1 or 'outer' not in this['m_env'][0]:
                badpop.append((kind, payload))
            if tracked:
                this2 = Obj(m_lastMeasurement=list(last), m_trackedCounts={})
                it2 = Interp(prog, {})
                try:
                    it2.call_fn_env(rec, ['K.f', val(kind, payload)], {'this': this2})
                except OutOfRange as e:
                    badagree.append((kind, payload, str(e), want))
                    continue
                except Unsupported as e:
                    raise AnalysisBroken('abstract evaluation of recordTrackedValue: %s' % e)
                c2 = this2['m_trackedCounts']
                if c2 != {'K.f': {want: 1}}:
                    badagree.append((kind, payload, c2, want))
    chk.extra['recorder_states'] = n_states
    chk.ob(r1, end, end.ln, not bad1, 'scope exit counts exactly the tracked qubit/qubit[] entries of the closing scope, once each; counterexamples: %s' % bad1[:2], key='count-once')
    chk.ob(r1, end, end.ln, not badpop, 'the closing scope (and only it) is popped after recording; counterexamples: %s' % badpop[:2], key='pops-scope')
    chk.ob(r3, end, end.ln, not bad3, 'outcome string: counterexamples %s' % bad3[:3], key='outcome:endScope')
    chk.ob(r3, rec, rec.ln, not badagree, 'object-field recorder agrees with the scope recorder on every state; counterexamples: %s' % badagree[:3], key='outcome:recordTrackedValue')



def return_slot_obligations(prog, R):
    """The value of an executed `return` travels through an evaluator member (found by effect: the member the ReturnStatement
    branch of exec assigns the evaluated operand to).  An activation function that reads it into its result must not leave a copy
    behind: the copy keeps a returned object alive until the next call — or until teardown, where neither destructors nor
    @tracked fields are recorded any more (`Q a = make(); … measure a.q;` then reports nothing for Q.q, and the destructor of the
    temporary in `mk(9).v` never runs).  → [(function, line, ok, detail, key)]"""
    ex = R.ev_method('exec')
    slots = set()
    for n in SX.walk(ex.body, into_lambdas=False):
        w = SX.write_target(n)
        if w and w[2] == '=' and SX.is_this_member(SX.strip(w[0])) and SX.is_node(SX.strip(w[1])) and SX.strip(w[1]).get('k') == 'mcall' \
                and SX.short(SX.strip(w[1]).get('callee', '')) == 'eval' and 'Value' in (SX.strip(w[0]).get('t') or ''):
            slots.add(SX.strip(w[0])['name'])
    out = []
    if len(slots) != 1:
        raise AnalysisBroken('return-value slot of the evaluator not resolved: %s' % sorted(slots))
    slot = slots.pop()
    for f in [x for x in R.ev_methods() if x.body]:
        g = prog.cfg(f)
        for d in g.nodes:
            if d.kind != 'decl' or not SX.is_node(d.e.get('init')):
                continue
            i0 = SX.strip(d.e['init'])
            moved = False
            while SX.is_node(i0) and ((i0.get('k') == 'call' and (i0.get('callee') or '').startswith('std::move') and len(SX.real_args(i0)) == 1) or
                                      (i0.get('k') == 'construct' and len(SX.real_args(i0)) == 1) or i0.get('k') == 'cast'):
                if i0.get('k') == 'call':
                    moved = True
                i0 = SX.strip(SX.real_args(i0)[0] if i0['k'] != 'cast' else i0['e'])
            if not SX.is_this_member(i0, slot):
                continue
            rets = [r for r in g.nodes if r.kind == 'return' and SX.is_node(SX.strip(r.e.get('e'))) and SX.strip(r.e['e']).get('id') == d.e.get('id')]
            if not rets:
                continue        # a saved copy that is put back (destructor activations), not a result
            resets = [n for n, l, r, op in g.writes() if op == '=' and SX.is_this_member(SX.strip(l), slot) and SX.is_node(SX.strip(r)) and
                      SX.strip(r).get('k') in ('initlist', 'construct') and not (SX.strip(r).get('items') or SX.real_args(SX.strip(r)))]
            ok = bool(resets) and all(g.must_follow(d, resets) for _ in (0,))
            out.append((f, d.ln or f.ln, ok,
                        '%s reads the returned value out of %s%s; the slot is emptied on every normal path afterwards (otherwise the returned object stays referenced after the '
                        'call: its destructor and its @tracked fields are then missed when it dies at teardown)' % (f.short, slot, ' (moved)' if moved else ''), 'return-slot:' + f.short))
    # activations that produce no result (constructor bodies; destructor bodies save and restore the slot): a `return this;` /
    # `return x;` executed in the body still writes the slot, so the activation empties it (or puts the saved value back) before it
    # ends — `Foo f = new Foo(1); destroy f;` otherwise runs ~Foo only at the next call
    seen = {o[0].name for o in out}
    for f in [x for x in R.ev_methods() if x.body and x.name not in seen]:
        flags = set()
        for lp in SX.walk(f.body, into_lambdas=False):
            if lp.get('k') not in ('for', 'forrange', 'while'):
                continue
            runs = any(c.get('k') == 'mcall' and c.get('callee') == ex.name for c in SX.walk(lp['body'], into_lambdas=False))
            if not runs:
                continue
            for i_ in SX.walk(lp['body'], into_lambdas=False):
                c_ = SX.strip(i_.get('c')) if i_.get('k') == 'if' else None
                if SX.is_node(c_) and SX.is_this_member(c_) and c_.get('t') == 'bool' and any(b.get('k') == 'break' for b in SX.walk(i_['t'], into_lambdas=False)):
                    flags.add(c_['name'])
        if len(flags) != 1:
            continue
        flag = next(iter(flags))
        saved = {v['id'] for v in SX.walk(f.body, into_lambdas=False) if v['k'] == 'var' and SX.is_node(v.get('init')) and SX.is_this_member(SX.strip(v['init']), flag)}
        restores = [n for n in SX.walk(f.body, into_lambdas=False) for w in [SX.write_target(n)] if w and w[2] == '=' and SX.is_this_member(SX.strip(w[0]), flag) and
                    SX.is_node(SX.strip(w[1])) and SX.strip(w[1]).get('id') in saved]
        if not restores:
            continue        # not an activation of its own (a block statement: the return travels on)
        g = prog.cfg(f)
        loops = [n for n in g.nodes if n.kind == 'loophead' and any(c.get('k') == 'mcall' and c.get('callee') == ex.name for c in SX.walk(n.e.get('body'), into_lambdas=False))
                 and any(SX.is_this_member(SX.strip(i_.get('c')), flag) for i_ in SX.walk(n.e.get('body'), into_lambdas=False) if i_.get('k') == 'if' and SX.is_node(i_.get('c')))]
        if not loops:
            continue
        sv = {v['id'] for v in SX.walk(f.body, into_lambdas=False) if v['k'] == 'var' and SX.is_node(v.get('init')) and SX.is_this_member(SX.strip(v['init']), slot)}
        resets = [n for n, l, r, op in g.writes() if op == '=' and SX.is_this_member(SX.strip(l), slot) and SX.is_node(SX.strip(r)) and
                  ((SX.strip(r).get('k') in ('initlist', 'construct') and not (SX.strip(r).get('items') or SX.real_args(SX.strip(r)))) or SX.strip(r).get('id') in sv)]
        ok = bool(resets) and all(g.must_follow(lh, resets) for lh in loops)
        out.append((f, loops[0].ln or f.ln, ok,
                    '%s runs a body in which `return` writes %s, and produces no result from it; the slot is emptied (or the saved value put back) on every normal path after '
                    'the body (otherwise the object named by `return this;` stays referenced after its last reference is gone and its destructor runs late)' % (f.short, slot),
                    'return-slot:' + f.short))
    return out


def _runtime_field_builders(prog, chk, R):
    """The evaluator builds its per-class field descriptions in more than one place (ordinary classes in the class-table pass,
    specialisations of generic classes on demand).  Every builder must copy the same attributes from the field declaration —
    the tracked flag in particular: a builder that leaves it out makes `@tracked` fields of (say) generic classes vanish from the
    outcome tables.  A builder = a default-constructed local of the record type whose members are assigned and which is then
    appended to a container."""
    n_ = 0
    evfile = R.ev['file']
    for rname, rec in prog.facts.records.items():
        if not rname.split('::')[-1].startswith('Runtime') or len(rec.get('fields', [])) < 3 or not any(x['name'] == 'isTracked' for x in rec['fields']):
            continue
        fnames = {x['name'] for x in rec['fields']}
        sites = []
        for f in prog.functions:
            if not f.body or f.kind == 'lambda' or not f.file.endswith('runtime_evaluator.cpp'):
                continue
            for v in SX.walk(f.body, into_lambdas=True):
                if v['k'] != 'var' or (v.get('type') or '').replace('const ', '') not in (rname, rname.split('::')[-1]):
                    continue
                i0 = SX.strip(v.get('init')) if SX.is_node(v.get('init')) else None
                if SX.is_node(i0) and not (i0.get('k') in ('construct', 'initlist') and not (SX.real_args(i0) if i0['k'] == 'construct' else i0.get('items'))):
                    continue
                filled = set()
                appended = False
                for n in SX.walk(f.body, into_lambdas=True):
                    w = SX.write_target(n)
                    tgt = SX.strip(w[0]) if w else (SX.strip(n.get('obj')) if n.get('k') == 'mcall' and not n.get('constm', True) else None)
                    while SX.is_node(tgt) and tgt.get('k') == 'member' and not (SX.is_node(SX.strip(tgt.get('base'))) and SX.strip(tgt['base']).get('id') == v['id']):
                        tgt = SX.strip(tgt.get('base'))
                    if SX.is_node(tgt) and tgt.get('k') == 'member' and SX.strip(tgt['base']).get('id') == v['id'] and tgt['name'] in fnames:
                        filled.add(tgt['name'])
                    if SX.append_target(n) is not None and any(SX.is_node(SX.strip(a)) and SX.strip(a).get('id') == v['id'] for a in n.get('args', [])):
                        appended = True
                if appended and filled:
                    sites.append((f, v, filled))
        if len(sites) < 2:
            continue
        union = set().union(*[fl for _, _, fl in sites])
        for f, v, filled in sites:
            n_ += 1
            missing = sorted(union - filled)
            chk.ob('R17.7', f, v.get('ln', f.ln), not missing,
                   '%s builds a %s from a field declaration; every builder copies the same attributes — missing here: %s (a field of a class built by this path then loses '
                   'them, e.g. `@tracked` fields of generic classes are no longer reported)' % (f.short, rname.split('::')[-1], missing), key='field-builder:%s:%s' % (f.short, v.get('ln')))
    chk.count('runtime field builders', n_, 2)


def _shots_pair(prog, chk):
    """the (annotated?, N) pair the CLI reads is written by the loader: `annotated` is true exactly when main carries @shots —
    it does not depend on N (with @shots(1) the run is still an annotated run: header, table, precedence over --shots)"""
    ld = [f for f in prog.functions if f.file.endswith('module_loader.cpp') and f.body and f.kind != 'lambda' and any(
        (lambda w: w and SX.is_node(SX.strip(w[0])) and SX.strip(w[0]).get('k') == 'member' and SX.strip(w[0]).get('name') == 'shots')(SX.write_target(n))
        for n in SX.walk(f.body, into_lambdas=False))]
    if len(ld) != 1:
        raise AnalysisBroken('writer of Program::shots not found uniquely')
    f = ld[0]
    g = prog.cfg(f)
    n_ = 0
    for node, l, r, op in g.writes():
        l0 = SX.strip(l)
        if not (SX.is_node(l0) and l0.get('k') == 'member' and l0.get('name') == 'shots'):
            continue
        r0 = SX.strip(r)
        items = (r0.get('items') if r0.get('k') == 'initlist' else SX.real_args(r0)) if SX.is_node(r0) else None
        if not items or len(items) != 2:
            raise AnalysisBroken('Program::shots is not written as a (flag, count) pair')
        n_ += 1
        flag = SX.strip(items[0])
        under_annotation = any(pol and 'shots' in SX.show(ce) and ('name' in SX.show(ce) or 'hasShotsAnnotation' in SX.show(ce)) for ce, pol, _ in g.guards(node))
        if under_annotation:
            ok = SX.is_node(flag) and flag.get('k') == 'bool' and flag['v'] is True
            chk.ob('R17.4', f, node.ln or f.ln, ok,
                   'when main carries @shots the pair records annotated = true whatever N is (found `%s`): @shots(1) is an annotated single-shot run' % SX.show(flag)[:30],
                   key='shots-pair:annotated')
        else:
            ok = SX.is_node(flag) and flag.get('k') == 'bool' and flag['v'] is False
            chk.ob('R17.4', f, node.ln or f.ln, ok, 'without the annotation the pair records annotated = false (found `%s`)' % SX.show(flag)[:30], key='shots-pair:plain')
    chk.count('writes of the (annotated, N) pair', n_, 2)


def _cli(prog, chk, R):
    _shots_pair(prog, chk)
    _declarator_siblings(prog, chk)
    _runtime_field_builders(prog, chk, R)
    chk.rule('R17.8', 'the owner of a tracked field ends inside the run: no evaluator member keeps a returned object alive after the call that returned it')
    obs = return_slot_obligations(prog, R)
    for f_, ln_, ok_, detail_, key_ in obs:
        chk.ob('R17.8', f_, ln_, ok_, detail_, key=key_)
    chk.count('activation functions that read the return slot', len(obs), 2)
    f = cli_run_function(prog, 'trackedCounts')
    from ..kernels import enclosing_stmts
    # aggregate accumulation inside the shot loop
    tc = [n for n in SX.walk(f.body, into_lambdas=False) if n['k'] == 'mcall' and SX.short(n['callee']) == 'trackedCounts']
    ok = False
    for n in tc:
        chain = enclosing_stmts(f.body, n)
        loops = [s for s in chain if s['k'] in ('for', 'forrange')]
        outer = [s for s in loops if s['k'] == 'for']
        fr = [s for s in loops if s['k'] == 'forrange' and any(x is n for x in SX.walk(s['range']))]
        if not outer or not fr:
            continue
        def part(e, var, which):
            # `.first` / `.second` of a loop's element, or the structured binding at that position (`for (const auto& [name, counts] : …)`)
            e = SX.strip(e)
            if not (SX.is_node(e) and SX.is_node(var)):
                return False
            if e.get('k') == 'member' and e.get('name') == ('first', 'second')[which] and SX.is_node(SX.strip(e.get('base'))) and SX.strip(e['base']).get('id') == var.get('id'):
                return True
            b = var.get('bindings') or []
            return e.get('k') == 'ref' and len(b) == 2 and e.get('id') == b[which].get('id')
        inner = [x for x in SX.walk(fr[0]['body']) if x['k'] == 'forrange']
        adds = [x for x in SX.walk(fr[0]['body']) if (lambda w: w and w[2] == '+=' and inner and part(w[1], inner[0].get('var'), 1))(SX.write_target(x))]
        full = not any(x['k'] in ('break', 'continue', 'return') for x in SX.walk(fr[0]['body']))
        keyed = False
        if adds and inner:
            tgt = SX.strip(SX.write_target(adds[0])[0])
            keyed = SX.is_node(tgt) and tgt.get('k') == 'index' and part(tgt.get('i'), inner[0].get('var'), 0) and SX.is_node(SX.strip(tgt.get('base'))) \
                and SX.strip(tgt['base']).get('k') == 'index' and part(SX.strip(tgt['base']).get('i'), fr[0].get('var'), 0) and part(inner[0].get('range'), fr[0].get('var'), 1)
        ok = bool(adds) and full and len(inner) == 1 and bool(keyed)
        g = prog.cfg(f)
        ex = [c for c in g.calls(lambda e: e['k'] == 'mcall' and SX.short(e['callee']) == 'execute')]
        node = [c for c in g.nodes if c.e is n]
        ok = ok and bool(node) and any(g.dominates(x, node[0]) for x in ex)
        # unconditional: after a shot executed, no path leaves the iteration without visiting the accumulation loop
        rinit = [c for c in g.nodes if c.kind == 'rangeinit' and c.e is fr[0]]
        ok = ok and bool(rinit) and all(g.must_follow(x, rinit, use_x=False) for x in ex if g.dominates(x, node[0]))
    chk.ob('R17.4', f, tc[0].get('ln', f.ln), ok, 'every shot\'s counts (all variables × all outcomes) are added into the aggregate, inside the shot loop, after execute', key='aggregate-sum')
    # policy tables by abstract evaluation of the slice of the run function that computes the three decisions (multi-shot mode,
    # number of shots, echo) from the command-line inputs and the program's (annotated, N) pair — found by data flow, not by name
    pol = _policy_slice(prog, f)
    bad_s, bad_e = [], []
    nst = 0
    for cli_f, ann in itertools.product((False, True), repeat=2):
        for cliN, annN in ((1, 1), (1, 5), (5, 1), (3, 5)):
            for opt in ('', 'auto', 'all'):
                nst += 1
                prog_obj = Obj(shots=Obj(first=ann, second=annN if ann else 1))
                it = Interp(prog, {'blochWarning': lambda it, e, env: None, 'blochInfo': lambda it, e, env: None,
                                   'empty': lambda it, e, env: len(it.expr(e['obj'], env)) == 0,
                                   'op:->': lambda it, e, env: prog_obj, 'op:*': lambda it, e, env: prog_obj})
                try:
                    shots, provided, echos = pol.run(it, {'flag': cli_f, 'n': cliN if cli_f else 1, 'echo': opt})
                except Unsupported as e:
                    raise AnalysisBroken('CLI policy statements: %s' % e)
                want_shots = annN if ann else (cliN if cli_f else 1)
                want_prov = ann or cli_f
                # the number of shots matters only in multi-shot mode; a single run is one shot whatever the variable holds
                if bool(provided) != want_prov or (want_prov and shots != want_shots):
                    bad_s.append((cli_f, ann, cliN, annN, shots, provided))
                want_echo = (opt == 'all') or (opt in ('', 'auto') and (not want_prov or want_shots == 1))
                for echo in echos[bool(provided)]:
                    if bool(echo) != want_echo:
                        bad_e.append((opt, want_prov, want_shots, echo))
    chk.extra['cli_policy_states'] = nst
    chk.extra['cli_policy_inputs'] = pol.describe()
    chk.ob('R17.4', f, pol.ln_shots or f.ln, not bad_s, '@shots(N) takes precedence over --shots; either one enables multi-shot mode; counterexamples: %s' % bad_s[:3], key='shots-policy')
    chk.ob('R17.4', f, pol.ln_echo or f.ln, not bad_e, 'echo iff --echo=all, or --echo absent/auto with a single shot; counterexamples: %s' % bad_e[:3], key='echo-policy')
    # echo policy reaches every evaluator: setEcho(<decision>) before execute at every site
    g = prog.cfg(f)
    for i, ex in enumerate(g.calls(lambda e: e['k'] == 'mcall' and SX.short(e['callee']) == 'execute')):
        obj = SX.show(ex.e['obj'])
        se = [c for c in g.calls(lambda e: e['k'] == 'mcall' and SX.short(e['callee']) == 'setEcho' and SX.show(e['obj']) == obj)]
        chk.ob('R17.4', f, ex.ln, bool(se) and g.must_precede(se, ex), 'the echo decision is applied to the evaluator before it executes', key='echo-applied#%d' % i)
    # ---- R17.5 ---------------------------------------------------------------------------------
    # the printing code may live in runImpl or in a helper of the same file that runImpl reaches
    hosts = [f] + [h for h in prog.reach([f]) if h is not f and h.body and h.file == f.file and h.kind != 'lambda']
    divs_h = [(h, n) for h in hosts for n in SX.walk(h.body, into_lambdas=False)
              if n['k'] == 'bin' and n['op'] == '/' and n.get('t') == 'double' and 'second' in SX.show(n['l'])]
    chk.count('probability divisions in the CLI', len(divs_h), 1)
    f_run = f
    for f, n in divs_h:
        d = SX.strip(n['r'])
        while SX.is_node(d) and d['k'] == 'cast':
            d = d['e']
        ok = False
        why = 'divisor is %s' % SX.show(d)
        if d.get('k') == 'ref' and d.get('kind') == 'var':
            decl = [v for v in SX.walk(f.body, into_lambdas=False) if v['k'] == 'var' and v['id'] == d.get('id')]
            accs = [x for x in SX.walk(f.body, into_lambdas=False) if (lambda w: w and w[2] == '+=' and SX.strip(w[0]).get('id') == d.get('id'))(SX.write_target(x))]
            if decl and accs and SX.is_node(SX.strip(decl[0].get('init'))) and SX.strip(decl[0]['init']).get('v') == 0:
                lp = [s for s in enclosing_stmts(f.body, accs[0]) if s['k'] == 'forrange']
                dl = [s for s in enclosing_stmts(f.body, n) if s['k'] == 'forrange']
                same = bool(lp) and bool(dl) and SX.show(lp[-1]['range']) == SX.show(dl[-1]['range'])
                adds_second = SX.show(SX.write_target(accs[0])[1]).endswith('.second')
                full = bool(lp) and not any(x['k'] in ('break', 'continue', 'return') for x in SX.walk(lp[-1]['body']))
                # … and the sum is used as it is: nothing else writes the divisor (`total = max(total, shots)` makes the column sum to less than 1
                # for a variable whose scope is not entered in every shot)
                other_w = [x for x in SX.walk(f.body, into_lambdas=False) if (lambda w: w and SX.is_node(SX.strip(w[0])) and SX.strip(w[0]).get('id') == d.get('id') and x is not accs[0])(
                    SX.write_target(x))]
                ok = same and adds_second and full and len(accs) == 1 and not other_w
                why = 'divisor %s = Σ counts over %s: %s' % (d['name'], SX.show(lp[-1]['range']) if lp else '?', ok)
        chk.ob('R17.5', f, n.get('ln', f.ln), ok, 'probability = count / (sum of that variable\'s counts), so the column sums to 1 whatever the number of scope exits per shot; %s' % why,
               key='denominator')


def cli_run_function(prog, marker):
    """the CLI function that runs the program: the one whose body — with its file-local helpers inlined (K-NORM) — calls
    evaluator.<marker>() and is not itself inlined into another such function"""
    from ..knorm import normalise
    cands = []
    for f0 in prog.functions:
        if not (f0.file.endswith('cli.cpp') and f0.body and f0.kind != 'lambda'):
            continue
        fn_ = normalise(prog, f0)
        if any(n['k'] == 'mcall' and SX.short(n['callee']) == marker for n in SX.walk(fn_.body, into_lambdas=False)):
            cands.append((f0, fn_))
    keys = {f0.key for f0, _ in cands}
    top = [(f0, fn_) for f0, fn_ in cands if not any(c.key in keys and c is not f0 for c, _ in prog.callers(f0))]
    if len(top) != 1:
        raise AnalysisBroken('CLI run function not found')
    return top[0][1]


class _PolicySlice:
    def __init__(self):
        self.stmts = []       # (statement, 'exec' | 'input')
        self.inputs = {}      # role → location
        self.ln_shots = self.ln_echo = None

    def describe(self):
        return {k: _loc_text(v) for k, v in self.inputs.items()}

    def run(self, it, vals):
        import copy as _copy
        env = {}

        def put(loc, v):
            if loc[0] == 'v':
                env[loc[1]] = v
            else:
                o = env.get(loc[1])
                if not isinstance(o, Obj):
                    o = env[loc[1]] = Obj()
                o[loc[2]] = v
        for st, kind in self.stmts:
            if kind == 'input':
                for role, loc in self.inputs.items():
                    put(loc, vals[role])
            else:
                it.stmt(st, env)
        provided = it.truth(it.expr(self.multi_cond, env))
        envb = dict(env)
        for d in self.bound_pre:
            it.stmt(d, envb)
        shots = it.expr(self.bound, envb)
        echos = {True: [], False: []}
        for branch, e, pre in self.echo_sites:
            env2 = dict(env)
            for d in pre:
                it.stmt(d, env2)
            echos[branch].append(it.expr(e, env2))
        return shots, provided, echos


def _loc_text(loc):
    return loc[-1] if loc[0] == 'v' else '%s.%s' % (loc[3] if len(loc) > 3 else '?', loc[2])


def _loc(e):
    """location key of an lvalue/rvalue expression: a local/parameter, or a field of a local record"""
    e = SX.strip(e)
    while SX.is_node(e) and e.get('k') == 'cast':
        e = SX.strip(e['e'])
    if SX.is_node(e) and e.get('k') == 'ref' and e.get('kind') in ('var', 'param') and e.get('id'):
        return ('v', e['id'])
    if SX.is_node(e) and e.get('k') == 'member':
        b = SX.strip(e.get('base'))
        if SX.is_node(b) and b.get('k') == 'ref' and b.get('kind') in ('var', 'param') and b.get('id'):
            return ('m', b['id'], e['name'])
    return None


def _reads(s):
    out = set()
    for n in SX.walk(s):
        if n['k'] == 'ref' and n.get('kind') in ('var', 'param') and n.get('id'):
            out.add(('v', n['id']))
        if n['k'] == 'member':
            l = _loc(n)
            if l:
                out.add(l)
    return out


def _writes(s):
    out = set()
    for n in SX.walk(s):
        if n['k'] == 'var' and n.get('id'):
            out.add(('v', n['id']))
        w = SX.write_target(n)
        if w:
            l = _loc(w[0])
            if l:
                out.add(l)
    return out


def _policy_slice(prog, f):
    from ..kernels import enclosing_stmts
    P = _PolicySlice()
    # ---- sinks: the shot loop around execute(), the branch that selects it, the argument of every setEcho ------------------
    execs = [n for n in SX.walk(f.body, into_lambdas=False) if n['k'] == 'mcall' and SX.short(n['callee']) == 'execute']
    loop = None
    for n in execs:
        for st in enclosing_stmts(f.body, n):
            if st['k'] == 'for':
                loop = (st, n)
    if loop is None:
        raise AnalysisBroken('CLI: no shot loop around execute()')
    cp = SX.cmp_parts(loop[0].get('c')) if SX.is_node(loop[0].get('c')) else None
    if not cp or cp[0] != '<':
        raise AnalysisBroken('CLI: shot loop bound not recognised')
    P.bound = cp[2]
    P.ln_shots = loop[0].get('ln')
    ifs = [st for st in enclosing_stmts(f.body, loop[0]) if st['k'] == 'if' and any(x is loop[0] for x in SX.walk(st['t']))]
    if not ifs:
        raise AnalysisBroken('CLI: the shot loop is not selected by a branch')
    multi_if = ifs[-1]
    P.multi_cond = multi_if['c']

    def pre_decls(a, n):
        # declarations between the branch and node n that expression a depends on (value parameters of inlined helpers)
        pre = []
        need = set(_reads(a))
        chain = [st for st in enclosing_stmts(f.body, n) if st['k'] == 'block' and any(x is st for x in SX.walk(multi_if))]
        for blk in chain:
            stmts_ = []
            for st in blk['body']:
                if any(x is n for x in SX.walk(st)):
                    break
                stmts_.append(st)
            for st in reversed(stmts_):
                if st['k'] == 'decls' and (_writes(st) & need):
                    pre.insert(0, st)
                    need |= _reads(st)
        return pre
    P.bound_pre = pre_decls(P.bound, loop[0])
    P.echo_sites = []
    for n in SX.walk(f.body, into_lambdas=False):
        if n['k'] == 'mcall' and SX.short(n['callee']) == 'setEcho':
            in_multi = any(x is n for x in SX.walk(multi_if['t']))
            a = SX.real_args(n)[0]
            P.echo_sites.append((in_multi, a, pre_decls(a, n)))
            P.ln_echo = P.ln_echo or n.get('ln')
    if not any(b for b, _, _ in P.echo_sites) or not any(not b for b, _, _ in P.echo_sites):
        raise AnalysisBroken('CLI: setEcho not found in both the single-run and the multi-shot branch')
    # ---- the statements in front of the branch, flattened through try blocks ----------------------------------------------
    flat = []

    def flatten(stmts):
        for st in stmts:
            if any(x is multi_if for x in SX.walk(st)) and st is not multi_if:
                if st['k'] == 'try':
                    flatten(st['body']['body'] if st['body'].get('k') == 'block' else [st['body']])
                    return True
                if st['k'] == 'block':
                    if flatten(st['body']):
                        return True
                raise AnalysisBroken('CLI: the run branch is nested in a %s statement' % st['k'])
            if st is multi_if:
                return True
            flat.append(st)
        return False
    if not flatten(f.body['body']):
        raise AnalysisBroken('CLI: run branch not found at statement level')
    # ---- backward closure of the locations the sinks depend on ------------------------------------------------------------------
    rel = _reads(P.multi_cond) | _reads(P.bound)
    for d in P.bound_pre:
        rel |= _reads(d)
    for _, a, pre in P.echo_sites:
        rel |= _reads(a)
        for d in pre:
            rel |= _reads(d)
    inputs = set()

    def is_input_def(st):
        # the argument loop, or a call that fills a record / scalars through non-const references
        if st['k'] in ('for', 'while', 'forrange', 'do'):
            return True
        for n in SX.walk(st, into_lambdas=False):
            if n['k'] in ('call', 'mcall'):
                for t in prog.resolve(n):
                    for prm, a in zip(t.params, SX.real_args(n)):
                        ty = (prm.get('type') or '').strip()
                        if ty.endswith('&') and not ty.startswith('const') and _loc(a) is not None:
                            return True
        return False

    def writes_of(st):
        w = _writes(st)
        if st['k'] not in ('for', 'while', 'forrange', 'do'):
            for n in SX.walk(st, into_lambdas=False):
                if n['k'] in ('call', 'mcall'):
                    for t in prog.resolve(n):
                        for prm, a in zip(t.params, SX.real_args(n)):
                            ty = (prm.get('type') or '').strip()
                            l = _loc(a)
                            if ty.endswith('&') and not ty.startswith('const') and l is not None and l[0] == 'v':
                                w.add(('v*', l[1]))      # the whole object (every field) may be written by the callee
        return w
    changed = True
    chosen = set()
    while changed:
        changed = False
        for i, st in enumerate(flat):
            w = writes_of(st)
            hit = {l for l in rel if l in w or (l[0] == 'm' and (('v*', l[1]) in w)) or (l[0] == 'v' and ('v*', l[1]) in w)}
            whole = {l for l in rel if l[0] == 'm' and ('v', l[1]) in w}       # declaration of the record a relevant field belongs to
            if not hit and not whole:
                continue
            if st['k'] == 'decls' and any('compiler::Program' in (v.get('type') or '') for v in st['d']):
                continue      # the loaded program is a source: its (annotated, N) pair is enumerated, not computed
            if is_input_def(st):
                new_in = hit - inputs
                if new_in or i not in chosen:
                    inputs |= hit
                    chosen.add(i)
                    changed = True
                continue
            if i not in chosen:
                chosen.add(i)
                changed = True
            r = _reads(st) - rel
            if r:
                rel |= r
                changed = True
    # ---- classify the inputs by type ------------------------------------------------------------------------------------------
    types = {}
    names = {}
    for n in SX.walk(f.body):
        if n['k'] == 'var' and n.get('id'):
            types[('v', n['id'])] = n.get('type', '')
            names[n['id']] = n.get('name', '')
        if n['k'] == 'member':
            l = _loc(n)
            if l:
                types[l] = n.get('t', '')
    by = {'flag': [], 'n': [], 'echo': []}
    for l in inputs:
        t = types.get(l, '').replace('const ', '')
        if t == 'bool':
            by['flag'].append(l)
        elif t == 'int':
            by['n'].append(l)
        elif t.startswith('std::string') or t.startswith('std::basic_string'):
            by['echo'].append(l)
    if any(len(v) != 1 for v in by.values()):
        raise AnalysisBroken('CLI: the shot/echo decisions do not depend on exactly one command-line flag, one count and one echo option: %s' % (
            {k: [names.get(l[1], '?') + ('.' + l[2] if l[0] == 'm' else '') for l in v] for k, v in by.items()}))
    for role, v in by.items():
        l = v[0]
        P.inputs[role] = l + ((names.get(l[1], '?'),) if l[0] == 'm' else (names.get(l[1], '?'),))
    for i, st in enumerate(flat):
        if i in chosen:
            P.stmts.append((st, 'input' if is_input_def(st) else 'exec'))
    if not any(k == 'input' for _, k in P.stmts):
        raise AnalysisBroken('CLI: no statement defines the command-line inputs')
    return P
