"""C03 — the state stays a unit 2^n vector and qubit handles stay distinct, in any history."""
from .. import sx as SX
from ..facts import AnalysisBroken
from ..roles import Roles
from .. import kterm as KT

EXPLANATION = (
    "Inductive invariants decided from the source: (R03.1) allocation doubles the vector, copies the old amplitudes index-for-index into "
    "the first half, leaves the second half zero, increments the qubit count once and returns the old count; the initial state is the "
    "one-element unit vector; (R03.2) unit norm is preserved: gate matrices are unitary (K-SYM), measure and reset scale the kept "
    "amplitudes by 1/√p_kept with p_kept accumulated under the keep guard, the reset move is a permutation; (R03.3) every "
    "floating-point division in the simulator has a divisor that is a non-zero constant, is guarded by a dominating positivity test, "
    "or is discharged by the checked premise set of measure (r ∈ [0,1), outcome ≡ r < p1, divisor √(outcome ? p1 : 1−p1)); (R03.4) "
    "index ownership: the simulator allocates only from the tracked allocator; the free list is pushed only on release and popped "
    "only on reuse, each pop followed by simulator reset and unmark; release happens only when an object is destroyed; (R03.5) a "
    "field may hold a qubit only if the object allocated it — every write into object field storage is the allocation itself, a "
    "wipe, or excluded from carrying a foreign qubit handle by a type test or an analyser rule (otherwise destroying the object "
    "frees an index a live variable still denotes). Norm within tolerance over long histories is numerical and not decided.")


def run(prog, chk):
    import sympy as sp
    from .. import ksym as KS
    from .. import kpair as KP
    from .C02 import analyse_measure_like
    R = Roles(prog)
    chk.trusted.append('sympy (closed-form simplification) from the tooling venv')
    chk.rule('R03.1', 'allocation: 2·old size, first half copied, second half zero, count incremented once, old count returned')
    chk.rule('R03.2', 'unit norm is an inductive invariant of gates, measure and reset')
    chk.rule('R03.3', 'every floating-point division in the simulator has a provably non-zero divisor')
    chk.rule('R03.4', 'qubit index ownership: who allocates, who frees, who reuses')
    chk.rule('R03.5', 'object fields never receive a qubit handle the object did not allocate')
    # two qubit fields of one object are two qubits only if they have two slots: a class that copies its base's layout before the base was
    # populated puts its own fields on the base's offsets (`Top.r` and `Bottom.q` both at slot 0 — one simulator qubit, one release).
    # The rule is C10's R10.2 (base first, also through a generic template in the middle of the chain), run here as part of R03.4
    from . import C10 as _c10
    _sub10 = _Sub(chk)
    _c10.run(prog, _sub10)
    _n10 = 0
    for rule_, fn_, site_, ok_, detail_, key_ in _sub10.obs:
        if rule_ == 'R10.2':
            _n10 += 1
            chk.ob('R03.4', fn_, site_, ok_, 'distinct slots for distinct qubit fields — layout order: ' + detail_, key='layout:' + str(key_))
    chk.count('layout-order obligations (C10 R10.2)', _n10, 1)
    sim = R.sim_classify()
    amp = R.amp_field
    cnt = R.sim_count_field
    al = sim['allocate']
    # ---- R03.1 -----------------------------------------------------------------------------
    # decided first by abstract evaluation of the allocator on symbolic states (any spelling of copy-and-zero is accepted);
    # the structural form below is the fallback when the function uses a construct the evaluator does not model
    if _alloc_state_table(prog, chk, R, al, amp, cnt):
        return_after_table = True
    else:
        return_after_table = False
    if not return_after_table:
        g = prog.cfg(al)
        incs = [n for n, l, r, op in g.writes() if SX.is_this_member(SX.strip(l), cnt)]
        idx_decl = [d for d in g.nodes if d.kind == 'decl' and SX.is_node(d.e.get('init')) and any(
            x['k'] == 'un' and x['op'] == '++' and x.get('postfix') and SX.is_this_member(SX.strip(x['e']), cnt) for x in SX.walk(d.e['init']))]
        rets = [n for n in g.nodes if n.kind == 'return']
        ok = len(incs) == 1 and len(idx_decl) == 1 and bool(rets) and all(SX.is_node(SX.strip(r.e.get('e'))) and SX.strip(r.e['e']).get('id') == idx_decl[0].e['id'] for r in rets)
        chk.ob('R03.1', al, al.ln, ok, 'qubit count incremented exactly once (post-increment) and the old count is returned', key='alloc:count')
        news = [v for v in SX.walk(al.body) if v['k'] == 'var' and 'std::vector<std::complex<double>' in v['type']]
        if len(news) != 1:
            raise AnalysisBroken('allocate: new state vector not found')
        nv = news[0]
        init = SX.strip(nv.get('init'))
        F = KT.Folder()
        size_ok = False
        if SX.is_node(init) and init['k'] == 'construct' and len(SX.real_args(init)) == 1:
            try:
                size_ok = F.fold(SX.real_args(init)[0]) == KT.op('*', KT.I(2), KT.S(amp + '.size()'))
            except KT.Unfoldable:
                pass
        chk.ob('R03.1', al, nv.get('ln', al.ln), size_ok, 'new state has exactly twice the old size and is value-initialised (zeros): %s' % SX.show(init)[:60], key='alloc:size')
        loops = [s for s in al.body['body'] if s['k'] == 'for']
        copy_ok = zero_ok = False
        if len(loops) == 1:
            fl = KP.full_state_loop(loops[0], amp)
            if fl:
                iv, body = fl
                writes = []
                for n in SX.walk(body, into_lambdas=False):
                    w = SX.write_target(n)
                    if w and w[2] == '=' and SX.is_node(SX.strip(w[0])) and SX.strip(w[0])['k'] == 'index' and SX.strip(SX.strip(w[0])['base']).get('id') == nv['id']:
                        writes.append((F2(iv).fold(SX.strip(w[0])['i']), SX.strip(w[1])))
                i_t = KT.S('i')
                for idx, rhs in writes:
                    if idx == i_t:
                        copy_ok = rhs.get('k') == 'index' and SX.show(rhs['base']) == amp and F2(iv).fold(rhs['i']) == i_t
                others = [(idx, rhs) for idx, rhs in writes if idx != i_t]
                zero_ok = all(rhs.get('v') in (0, 0.0) and idx == KT.op('+', i_t, KT.S(amp + '.size()')) for idx, rhs in others)
                nonloop = [n for n in SX.walk(al.body, into_lambdas=False) if (lambda w: w and SX.is_node(SX.strip(w[0])) and SX.strip(w[0]).get('k') == 'index'
                           and SX.strip(SX.strip(w[0])['base']).get('id') == nv['id'])(SX.write_target(n))]
                if len(nonloop) != len(writes):
                    zero_ok = False
        chk.ob('R03.1', al, loops[0].get('ln', al.ln) if loops else al.ln, copy_ok, 'old amplitudes are copied index-for-index over the full range', key='alloc:copy')
        chk.ob('R03.1', al, loops[0].get('ln', al.ln) if loops else al.ln, zero_ok, 'no other cell of the new vector receives a non-zero value', key='alloc:zero-half')
        swaps = [c for c in g.calls(lambda e: (e['k'] == 'mcall' and SX.short(e['callee']) == 'swap' and SX.is_this_member(SX.strip(e.get('obj')), amp)
                                               and SX.strip(SX.real_args(e)[0]).get('id') == nv['id']))]
        swaps += [n for n, l, r, op in g.writes() if op == '=' and SX.is_this_member(SX.strip(l), amp) and any(x.get('k') == 'ref' and x.get('id') == nv['id'] for x in SX.walk(r))]
        heads = [n for n in g.nodes if n.kind == 'loophead']
        ok = len(swaps) == 1 and all(swaps[0].id in g.reachable([h]) and h.id not in g.reachable(swaps) for h in heads) and all(g.must_precede(swaps, r) for r in rets)
        chk.ob('R03.1', al, al.ln, ok, 'the new vector replaces the state after the copy loop, on every path', key='alloc:install')
    fld = [f for f in R.sim['fields'] if f['name'] == amp][0]
    i0 = fld.get('init')
    def _lits(e):
        if not SX.is_node(e) or e['k'] == 'defaultarg':
            return []
        out = [e] if e['k'] in ('int', 'float') else []
        for c in SX.children(e):
            out += _lits(c)
        return out
    lits = _lits(i0)
    lists = [x for x in SX.walk(i0) if x['k'] == 'initlist'] if SX.is_node(i0) else []
    ok = len(lits) == 1 and lits[0]['v'] == 1 and len(lists) == 1 and len(lists[0]['items']) == 1
    chk.ob('R03.1', R.sim['name'], '%s:%s' % (prog.rel(R.sim['file']), fld['ln']), ok, 'initial state is the one-element vector [1] (found %s)' % SX.show(i0)[:40], key='initial-state')

    # ---- R03.2 -----------------------------------------------------------------------------
    t = sp.Symbol('t', real=True)
    app = [f for f in R.sim_methods() if len(f.params) == 2 and 'std::array<std::complex<double>, 4' in f.params[1]['type']]
    for gt in sim['gates']:
        mats = [v for v in SX.walk(gt.body) if v['k'] == 'var' and 'std::array<std::complex<double>, 4' in v['type']]
        if not mats:
            continue
        env = {p['id']: t for p in gt.params if p['type'] == 'double'}
        try:
            for s in gt.body['body']:
                if s['k'] == 'decls':
                    for v in s['d']:
                        if v is mats[0]:
                            i_ = SX.strip(v['init'])
                            if SX.is_node(i_) and i_.get('k') in ('call', 'mcall'):
                                from .C01 import _matrix_of      # the matrix comes from a builder function (`pauliMatrix(Axis::X)`)
                                M = _matrix_of(prog, KS, i_, env)
                            else:
                                M = KS.matrix_from_initlist(i_, env)
                        elif v.get('init') is not None:
                            env[v['id']] = KS.to_sympy(v['init'], env)
            uni = KS.unitary(M)
        except KS.Unfoldable as e:
            raise AnalysisBroken('gate %s: %s' % (gt.short, e))
        chk.ob('R03.2', gt, gt.ln, uni, 'gate %s matrix is unitary for every angle' % gt.short, key='unitary:' + gt.short)
    m = sim['measure']
    from .C02 import PartialSweep
    try:
        info = analyse_measure_like(prog, m, amp, m.params[0], sp, KS, KP)
    except PartialSweep as e:
        chk.ob('R03.2', m, e.ln or m.ln, False, 'measure does not sweep the whole state vector (%s): the renormalisation constant is wrong' % e, key='norm:measure:sweep')
        info = None
    p1 = info['p1sym'] if info else None
    for res in ((0, 1) if info else ()):
        pk = p1 if res else 1 - p1
        got = info['collapse'][(res, res)].get(res, KP.A[res])
        c = sp.simplify(got / KP.A[res])
        ok = sp.simplify(c ** 2 * pk - 1) == 0 and sp.simplify(info['acc'].get((1,), 0) + info['acc'].get((0,), 0) - sp.Abs(KP.A[1]) ** 2) == 0
        chk.ob('R03.2', m, info['loop2_ln'], ok, 'measure outcome %d: kept amplitudes scaled by %s; (scale)²·p_kept = 1' % (res, c), key='norm:measure:%d' % res)
    # reset is covered through C04's transformer; recompute the scale here
    from . import C04 as _c04
    sub = _Sub(chk)
    _c04.run(prog, sub)
    bad = [o for o in sub.obs if not o[3] and o[0] in ('R04.2', 'R04.3')]
    chk.ob('R03.2', sim['reset'], sim['reset'].ln, not bad and any(o[0] == 'R04.2' for o in sub.obs),
           'reset keeps unit norm: kept branch scaled by 1/√p_kept, other branch zero, move is a permutation (%s)' % ('ok' if not bad else bad[0][4][:80]), key='norm:reset')

    # ---- R03.3 -----------------------------------------------------------------------------
    from ..ktry import parent_map
    nd = 0
    sim_file = R.sim_methods()[0].file if R.sim_methods() else ''
    from ..knorm import normalise
    cands = [x for x in list(R.sim_methods()) + [x for x in prog.functions if x.body and x.file == sim_file and x.kind == 'function'] if x.body]
    normd = {id(x): normalise(prog, x) for x in cands}

    def covered(h):
        # a helper whose every call was inlined into its callers (K-NORM) is examined there, with the callers' guards in view
        cs = prog.callers(h)
        return bool(cs) and all(id(c) in normd and not any(n_.get('k') in ('call', 'mcall') and n_.get('callee') == h.name for n_ in SX.walk(normd[id(c)].body)) for c, _ in cs)
    for f0 in cands:
        if covered(f0):
            continue
        f = normd[id(f0)]
        pm = parent_map(f.body)
        for n in SX.walk(f.body, into_lambdas=False):
            isdiv = (n['k'] in ('bin', 'cassign') and n['op'] in ('/', '/=') and n.get('t') in ('double', 'float')) or \
                    (n['k'] == 'opcall' and n['op'] in ('/', '/=') and 'complex' in n.get('at', ''))
            if not isdiv:
                continue
            nd += 1
            d = SX.strip(n['r'] if n['k'] != 'opcall' else n['args'][1])
            ok, why = _divisor_ok(prog, f, n, d, pm, info if (f0 is m and info) else None)
            chk.ob('R03.3', f, n.get('ln', f.ln), ok, 'divisor %s: %s' % (SX.show(d)[:40], why), key='div:%s:%s' % (f.short, SX.show(d)[:24]))
    chk.count('floating-point divisions in the simulator (incl. file-local helpers)', nd, 2)

    # ---- R03.4 -----------------------------------------------------------------------------
    free = [f['name'] for f in R.ev['fields'] if f['type'] == 'std::vector<int>' and 'free' in f['name'].lower()]
    if len(free) != 1:
        raise AnalysisBroken('free-index list not resolved')
    free = free[0]
    evfns = [f for f in R.ev_methods() if f.body]
    pushers = [f for f in evfns if any(n['k'] == 'mcall' and SX.short(n['callee']) in ('push_back', 'emplace_back', 'insert') and SX.is_this_member(SX.strip(n.get('obj')), free) for n in SX.walk(f.body))]
    poppers = [f for f in evfns if any(n['k'] == 'mcall' and SX.short(n['callee']) in ('pop_back', 'erase', 'clear') and SX.is_this_member(SX.strip(n.get('obj')), free) for n in SX.walk(f.body))]
    allocs = [f for f in evfns if any(R.is_sim_call(n, (al.short,)) for n in SX.walk(f.body))]
    chk.ob('R03.4', R.ev['name'], 'runtime_evaluator', len(allocs) == 1, 'the simulator allocator is called from exactly one evaluator function: %s' % [f.short for f in allocs], key='one-allocator')
    chk.ob('R03.4', R.ev['name'], 'runtime_evaluator', len(pushers) == 1, 'free list is pushed in exactly one function (release): %s' % [f.short for f in pushers], key='one-releaser')
    ok = len(poppers) >= 1 and all(p in allocs or p.short == 'execute' for p in poppers)
    chk.ob('R03.4', R.ev['name'], 'runtime_evaluator', ok, 'free list is popped only by the allocator: %s' % [f.short for f in poppers], key='pop-in-allocator')
    if pushers:
        rel = pushers[0]
        def top_of(gf_):
            while gf_.kind == 'lambda' and getattr(gf_, 'parent', None) is not None:
                gf_ = gf_.parent
            return gf_
        callers = {top_of(gf).short for gf, n in prog.callers(rel)}       # a call inside a local closure belongs to the enclosing function
        chk.ob('R03.4', rel, rel.ln, callers <= {'destroyObject'} and bool(callers), 'release is called only when an object is destroyed: %s' % sorted(callers), key='release-callers')
        # each qubit slot of a destroyed object is released exactly once: the release sites sit in ONE sweep over the object's
        # field vector (optionally an inner sweep over the elements of a qubit[] slot), not in a walk over classes or class
        # metadata (a derived class's field table repeats the inherited fields, so a per-level walk releases them twice)
        from ..kernels import enclosing_stmts, full_range_for
        sites = []
        from ..kcanon import inline_closures
        seen_tops = set()
        for gf, call in prog.callers(rel):
            if gf.kind == 'lambda' and getattr(gf, 'parent', None) is not None:
                # release inside a local closure that is called as a plain statement: the release sites are where the closure is
                # called (the closure is read inlined at its call statements)
                tf = top_of(gf)
                if id(tf) in seen_tops:
                    continue
                seen_tops.add(id(tf))
                tfi = inline_closures(prog, tf)
                for c2 in SX.walk(tfi.body, into_lambdas=False):
                    if c2.get('k') in ('call', 'mcall') and c2.get('callee') == rel.name:
                        sites.append((tfi, c2))
                if not any(t_ is tfi for t_, _ in sites):
                    sites.append((gf, call))
            else:
                sites.append((gf, call))
        # … and only after every user destructor of the chain has run: a destructor body can still use `this.q`, and a qubit it allocates
        # meanwhile would be handed the index released under its feet (two live handles on one simulator qubit)
        exec_name = R.ev_method('exec').name
        for gf, call in sites:
            tf_ = top_of(gf) if gf.kind == 'lambda' else gf
            if gf.kind == 'lambda' and not any(y is call for y in SX.walk(tf_.body, into_lambdas=False)):
                continue
            g_ = prog.cfg(gf)
            cn_ = [x for x in g_.nodes if x.kind == 'call' and SX.is_node(x.e) and any(y is call for y in SX.walk(x.e, into_lambdas=False))]
            if not cn_:
                continue
            later = g_.reachable(cn_)
            runs = [x for x in g_.nodes if x.kind == 'call' and SX.is_node(x.e) and x.id in later and any(
                y.get('k') == 'mcall' and y.get('callee') == exec_name for y in SX.walk(x.e, into_lambdas=False))]
            chk.ob('R03.4', gf, call.get('ln', gf.ln), not runs,
                   'a qubit field is released only after every user destructor of the object has run (a destructor body still reachable after the release can use the field, and '
                   'anything it allocates may be given the released index: two handles on one qubit)', key='release-after-destructors:%s' % gf.short)
        for gf, call in sites:
            loops = [s_ for s_ in enclosing_stmts(gf.body, call, into_lambdas=(gf.kind == 'lambda')) if s_['k'] in ('for', 'forrange', 'while', 'do')]
            detail = []
            ok = bool(loops)
            if loops:
                outer = loops[0]
                if outer['k'] == 'for':
                    fr = full_range_for(outer)
                    okb = bool(fr) and SX.show(fr[1]).replace(' ', '').endswith('->fields.size()')
                    if fr and not okb:
                        # the slots the class layout describes: `const size_t n = std::min(obj->fields.size(), cls->instanceFields.size());`
                        # (the sweep used to skip the slots past the layout one by one)
                        b_ = SX.strip(fr[1])
                        while SX.is_node(b_) and b_.get('k') == 'cast':
                            b_ = SX.strip(b_['e'])
                        if SX.is_node(b_) and b_.get('k') == 'ref' and b_.get('kind') == 'var':
                            dv = [d_ for d_ in SX.walk(gf.body) if d_.get('k') == 'var' and d_.get('id') == b_.get('id') and SX.is_node(d_.get('init'))]
                            wr = [1 for y_ in SX.walk(gf.body) for w_ in [SX.write_target(y_)] if w_ and SX.is_node(SX.strip(w_[0])) and SX.strip(w_[0]).get('id') == b_.get('id')]
                            i_ = SX.strip(dv[0]['init']) if len(dv) == 1 and not wr else None
                            if SX.is_node(i_) and i_.get('k') == 'call' and (i_.get('callee') or '').split('<')[0] == 'std::min' and \
                                    any(SX.show(SX.strip(a_)).replace(' ', '').endswith('->fields.size()') for a_ in SX.real_args(i_)) and \
                                    any('instanceFields.size()' in SX.show(SX.strip(a_)).replace(' ', '') for a_ in SX.real_args(i_)):
                                okb = True
                elif outer['k'] == 'forrange':
                    okb = SX.show(outer['range']).replace(' ', '').endswith('->fields')
                else:
                    okb = False
                if not okb:
                    ok = False
                    detail.append('outer loop is not a full sweep over the object\'s fields: %s' % (SX.show(outer.get('range') or outer.get('c'))[:50]))
                for inner in loops[1:]:
                    if not (inner['k'] == 'forrange' and 'qubitArray' in SX.show(inner['range'])):
                        ok = False
                        detail.append('nested loop over %s' % SX.show(inner.get('range') or inner.get('c'))[:40])
            chk.ob('R03.4', gf, call.get('ln', gf.ln), ok,
                   'every qubit slot of a destroyed object is released exactly once (one sweep over obj->fields, inner sweep only over a qubit[] slot\'s elements)%s' %
                   ('' if ok else ': ' + '; '.join(detail)), key='release-once:%s' % gf.short)
    if allocs:
        for key, a, ok, detail in reuse_discipline(prog, R, sim, al, allocs[0], free):
            chk.ob('R03.4', a, a.ln, ok, detail, key=key)

    # ---- R03.5 -----------------------------------------------------------------------------
    _alias_rule(prog, chk, R)


def F2(iv):
    return KT.Folder({iv['id']: KT.S('i')})


def _const_val(e):
    e = SX.strip(e)
    while SX.is_node(e) and e['k'] in ('construct', 'cast') and (e.get('args') or e.get('e')):
        e = SX.strip(e['args'][0]) if e['k'] == 'construct' else SX.strip(e['e'])
    return e.get('v') if SX.is_node(e) else None


def reuse_discipline(prog, R, sim, al, a, free):
    """the allocation role a: a reused index is the free list's last element, which is the one removed, and it is reset in the
    simulator before it is handed out; reuse and fresh allocation exclude each other → [(key, function, ok, detail)]"""
    ga = prog.cfg(a)
    pops = [c for c in ga.calls(lambda e: e['k'] == 'mcall' and SX.short(e['callee']) == 'pop_back' and SX.is_this_member(SX.strip(e.get('obj')), free))]
    backs = [d for d in ga.nodes if d.kind in ('assign', 'decl') and any(x['k'] == 'mcall' and SX.short(x['callee']) == 'back' and SX.is_this_member(SX.strip(x.get('obj')), free)
                                                                 for x in SX.walk(d.e if d.kind == 'assign' else d.e.get('init')))]
    resets = [c for c in ga.calls(lambda e: R.is_sim_call(e, (sim['reset'].short,)))]
    # the free list is a multiset of released indices: allocation removes exactly the element it hands out.  The only element write
    # that does so is swap-and-pop — `*it = list.back(); list.pop_back();` with `it` the position the index was read from; any other
    # write to an element overwrites a released index with one that stays in the list (one index lost, another handed out twice)
    def rooted_in_free(e):
        e = SX.strip(e)
        hops = 0
        while SX.is_node(e) and hops < 6:
            hops += 1
            if SX.is_this_member(e, free):
                return True
            k = e.get('k')
            if k == 'mcall':
                e = SX.strip(e.get('obj'))
            elif k in ('index', 'member'):
                e = SX.strip(e.get('base'))
            elif k == 'opcall' and e.get('args'):
                e = SX.strip(e['args'][0])
            elif k == 'un' and e.get('op') == '*':
                e = SX.strip(e['e'])
            elif k == 'ref':
                d = [v for v in SX.walk(a.body, into_lambdas=False) if v['k'] == 'var' and v['id'] == e.get('id')]
                i0 = d[0].get('init') if d else None
                if SX.is_node(i0) and any(SX.is_this_member(y, free) for y in SX.walk(i0)):
                    return True
                return False
            else:
                return False
        return False
    elem_writes = []
    stmts_flat = [x for x in SX.walk(a.body, into_lambdas=False) if x.get('k') == 'block']
    for n_, l, r, op in ga.writes():
        l0 = SX.strip(l)
        if SX.is_this_member(l0, free) or not rooted_in_free(l0):
            continue
        fine = False
        r0 = SX.strip(r)
        if op == '=' and SX.is_node(r0) and r0.get('k') == 'mcall' and SX.short(r0.get('callee', '')) == 'back' and SX.is_this_member(SX.strip(r0.get('obj')), free) \
                and not (SX.is_node(l0) and l0.get('k') == 'mcall'):
            # next statement pops; the index was read from the same position before
            for blk in stmts_flat:
                for i_, st in enumerate(blk['body']):
                    if st.get('k') == 'expr' and st.get('e') is n_.e and i_ + 1 < len(blk['body']):
                        nx = SX.strip(blk['body'][i_ + 1].get('e')) if blk['body'][i_ + 1].get('k') == 'expr' else None
                        popped = SX.is_node(nx) and nx.get('k') == 'mcall' and SX.short(nx.get('callee', '')) == 'pop_back' and SX.is_this_member(SX.strip(nx.get('obj')), free)
                        read_before = any(SX.show(SX.strip(w_[1])) == SX.show(l0) for b_ in blk['body'][:i_] for y in SX.walk(b_, into_lambdas=False)
                                          for w_ in [SX.write_target(y)] if w_) or \
                            any(v['k'] == 'var' and SX.is_node(v.get('init')) and SX.show(SX.strip(v['init'])) == SX.show(l0) for b_ in blk['body'][:i_] for v in SX.walk(b_, into_lambdas=False))
                        fine = popped and read_before
        elem_writes.append((n_, fine, SX.show(l0)[:40]))
    backs = [d for d in backs if not any(d is w_[0] for w_ in elem_writes)]
    ok = bool(pops) and (bool(backs) or any(f_ for _, f_, _ in elem_writes)) and all(ga.must_follow(p, resets) for p in pops) and all(ga.must_precede(backs, p) for p in pops if backs)
    out = [('reuse-resets', a, ok, 'a reused index is read from the free list, popped, and reset in the simulator before it is handed out')]
    badw = [t for _, f_, t in elem_writes if not f_]
    out.append(('free-list-multiset', a, not badw, 'allocation removes exactly the element it hands out; an element of the free list is overwritten (%s) outside a swap-and-pop of the '
                'position the index was read from: a released index is lost and another is handed out twice' % badw))
    # the two sources of an index are exclusive: either popped or freshly allocated
    al_calls = [c for c in ga.calls(lambda e: R.is_sim_call(e, (al.short,)))]
    excl = bool(al_calls) and bool(pops) and not any(c.id in ga.reachable(pops) for c in al_calls) and not any(p.id in ga.reachable(al_calls) for p in pops)
    out.append(('exclusive-sources', a, excl, 'an index is either reused or freshly allocated, never both'))
    return out


class _Sub:
    """collects obligations of another rule module without reporting them"""
    def __init__(self, chk):
        self.obs = []
        self.trusted = []
        self.extra = {}

    def rule(self, *a):
        pass

    def ob(self, rule, fn, site, ok, detail='', key=None, nontrivial=True, path=None):
        self.obs.append((rule, fn, site, bool(ok), detail, key))
        return ok

    def count(self, *a, **k):
        pass

    def note(self, *a):
        pass


def _alloc_state_table(prog, chk, R, al, amp, cnt):
    """allocate on symbolic states: returns the old count, count+1, new state = old state followed by as many zeros"""
    from ..kabs import Interp, Obj, Unsupported, OutOfRange
    mf = R.sim_measured_field
    bad, n = [], 0
    for nq in (0, 1, 2, 3):
        n += 1
        old = ['a%d' % i for i in range(2 ** nq)]
        this = Obj({cnt: nq, mf: [False] * nq, amp: list(old)})
        try:
            ret = Interp(prog, {}, max_steps=20000).call_fn_env(al, [], {'this': this})
        except OutOfRange as ex:
            bad.append('n=%d: %s' % (nq, ex))
            continue
        except Unsupported:
            return False
        st = this[amp]
        zero = lambda z: z == 0 or z == 0.0 or (isinstance(z, complex) and z == 0)
        ok = ret == nq and this[cnt] == nq + 1 and isinstance(st, list) and len(st) == 2 * len(old) and st[:len(old)] == old and all(zero(z) for z in st[len(old):])
        if not ok:
            bad.append('n=%d: returned %r, count %r, state %s' % (nq, ret, this[cnt], (st[:6] if isinstance(st, list) else st)))
    chk.ob('R03.1', al, al.ln, not bad,
           'allocate returns the old qubit count, increments it once, and the new state is the old amplitudes followed by as many zeros (%d symbolic states); counterexamples: %s' % (n, bad[:3]),
           key='alloc:table')
    return True


def _divisor_ok(prog, f, n, d, pm, minfo):
    # (a) non-zero constant
    def const_nonzero(e):
        e = SX.strip(e)
        if SX.is_node(e) and e['k'] in ('int', 'float'):
            return e['v'] != 0
        if SX.is_node(e) and e['k'] == 'call' and SX.short(e.get('callee', '')) == 'sqrt':
            return const_nonzero(SX.real_args(e)[0])
        if SX.is_node(e) and e['k'] == 'cast':
            return const_nonzero(e['e'])
        return False
    if const_nonzero(d):
        return True, 'non-zero constant'
    # (b) enclosing ?: or if whose condition is X > 0 / X != 0 with divisor X or sqrt(X)
    rad = d
    if SX.is_node(d) and d['k'] == 'call' and SX.short(d.get('callee', '')) == 'sqrt':
        rad = SX.strip(SX.real_args(d)[0])
    cur = n
    while id(cur) in pm:
        par = pm[id(cur)]
        if par.get('k') == 'cond' and par['t'] is cur:
            cp = SX.cmp_parts(par['c'])
            if cp and SX.show(SX.strip(cp[1])) == SX.show(rad) and ((cp[0] == '>' and _const_val(cp[2]) == 0) or (cp[0] == '!=' and _const_val(cp[2]) == 0)):
                return True, 'guarded by %s' % SX.show(par['c'])[:40]
        cur = par
    g = prog.cfg(f)
    from ..kdiv import _contains
    node = None
    for cn in g.nodes:
        if cn.e is not None and cn.kind in ('assign', 'call', 'decl', 'return') and _contains(cn, n):
            node = cn
            break
    if node is not None:
        for ce, pol, _ in g.guards(node):
            cp = SX.cmp_parts(ce)
            if cp and SX.show(SX.strip(cp[1])) == SX.show(rad):
                op = cp[0] if pol else {'==': '!=', '!=': '==', '<': '>=', '>=': '<', '>': '<=', '<=': '>'}[cp[0]]
                if op in ('>', '!=') and _const_val(cp[2]) == 0:
                    return True, 'dominating guard %s' % SX.show(ce)[:40]
    # (c) premise set of measure
    if minfo is not None and SX.is_node(d) and d['k'] == 'ref':
        for v in SX.walk(f.body):
            if v['k'] == 'var' and v['id'] == d.get('id'):
                init = SX.strip(v.get('init'))
                if SX.is_node(init) and init['k'] == 'call' and SX.short(init.get('callee', '')) == 'sqrt':
                    x = SX.strip(SX.real_args(init)[0])
                    if x['k'] == 'cond' and SX.strip(x['c']).get('id') == minfo.get('res_id'):
                        tt, ff = SX.strip(x['t']), SX.strip(x['f'])
                        pid = minfo.get('p1_id')
                        t_ok = SX.is_node(tt) and tt.get('k') == 'ref' and tt.get('id') == pid
                        f_ok = SX.is_node(ff) and ff.get('k') == 'bin' and ff.get('op') == '-' and _const_val(ff['l']) == 1 and \
                            SX.is_node(SX.strip(ff['r'])) and SX.strip(ff['r']).get('id') == pid
                        if minfo['res_ok'] and minfo['dist_ok'] and minfo['draw_ok'] and pid is not None and t_ok and f_ok:
                            return True, 'premises hold: r∈[0,1), outcome ≡ r<p1 ⇒ p1>r≥0 when 1, p1≤r<1 when 0; divisor √(outcome ? p1 : 1−p1) > 0'
    return False, 'no non-zero evidence found (constant, dominating positivity test, or the measure premise set)'


FIELD_KIND_PREMISES = {
    # write site kind → description of the analyser rule that keeps qubits out of it
    'default-constructor binding': 'default constructor cannot bind qubit fields',
}


def _alias_rule(prog, chk, R):
    evfns = [f for f in prog.functions if f.body and f.file.endswith('runtime_evaluator.cpp')]
    objrec = prog.record('bloch::runtime::Object')
    n = 0
    helpers = {}
    # helper functions that store into a slot reference: their call sites are the write sites
    for f in evfns:
        if f.kind == 'lambda':
            continue
        refs = [p for p in f.params if p['type'] == 'bloch::runtime::Value &']
        if refs and any((lambda w: w and SX.is_node(SX.strip(w[0])) and SX.strip(w[0]).get('id') == refs[0]['id'])(SX.write_target(x)) for x in SX.walk(f.body)):
            helpers[f.key] = f
    for f in evfns:
        if f.key in helpers:
            continue
        aliases = {}
        for v in SX.walk(f.body, into_lambdas=False):
            if v['k'] == 'var' and v.get('isref') and SX.is_node(v.get('init')) and _is_field_slot(SX.strip(v['init'])):
                aliases[v['id']] = v
        g = None
        for x in SX.walk(f.body, into_lambdas=False):
            target = rhs = None
            w = SX.write_target(x)
            if w and w[2] == '=':
                l = SX.strip(w[0])
                if _is_field_slot(l) or (SX.is_node(l) and l.get('k') == 'ref' and l.get('id') in aliases):
                    target, rhs = l, SX.strip(w[1])
            if x['k'] == 'call' and (x.get('callee', '') + x.get('sig', '')) in helpers:
                a = SX.real_args(x)
                if a and _is_field_slot(SX.strip(a[0])):
                    target, rhs = SX.strip(a[0]), SX.strip(a[1])
            if target is None:
                continue
            n += 1
            kind, fresh = _classify_rhs(f, rhs)
            if fresh:
                chk.ob('R03.5', f, x.get('ln', f.ln), True, 'field write of %s: %s' % (SX.show(rhs)[:30], kind), key='field-write:%s:%s' % (f.short, kind), nontrivial=False)
                continue
            g = g or prog.cfg(f)
            node = None
            for cn in g.nodes:
                if cn.e is x:
                    node = cn
            guarded = False
            if node is not None:
                for ce, pol, _ in g.guards(node):
                    t = SX.show(ce)
                    if 'Qubit' in t and (('!=' in t and pol) or ('==' in t and not pol)):
                        guarded = True
            site_kind = _site_kind(f, g, node)
            premise = _analyser_premise(prog, site_kind)
            ok = guarded or premise
            chk.ob('R03.5', f, x.get('ln', f.ln), ok,
                   '%s stores a value computed elsewhere into an object field; nothing excludes a qubit handle (no type test here%s): destroying the object then releases '
                   'an index that a live variable still denotes, and the next declaration shares it' % (
                       site_kind, '' if not FIELD_KIND_PREMISES.get(site_kind) else ', analyser rule "%s" %s' % (FIELD_KIND_PREMISES[site_kind], 'found' if premise else 'NOT found')),
                   key='foreign-field-write:%s' % site_kind)
    chk.count('writes into object field storage', n, 4)


def _is_field_slot(e):
    """<obj>->fields[…]"""
    e = SX.strip(e)
    if not (SX.is_node(e) and e.get('k') == 'index'):
        return False
    b = SX.strip(e['base'])
    return SX.is_node(b) and b.get('k') == 'member' and b.get('q') == 'bloch::runtime::Object::fields'


def _classify_rhs(f, rhs):
    if not SX.is_node(rhs):
        return 'unknown', False
    if rhs['k'] in ('initlist', 'construct', 'zeroinit') and not (rhs.get('items') or SX.real_args(rhs)):
        return 'wipe', True
    if rhs['k'] in ('call', 'mcall') and SX.short(SX.callee(rhs)) == 'defaultValueForField':
        return 'own-allocation', True
    return 'foreign', False


def _site_kind(f, g, node):
    if f.short == 'runFieldInitialisers':
        return 'field initialiser'
    if f.short == 'runConstructorChain':
        return 'default-constructor binding'
    if f.short == 'assign':
        return 'bare-name field assignment'
    if node is not None:
        for ce, pol, _ in g.guards(node):
            if pol and SX.is_node(ce) and SX.is_node(ce.get('cvinit')):
                for x in SX.walk(ce['cvinit']):
                    if x['k'] == 'dyncast':
                        t = x['type'].split('::')[-1].replace(' *', '')
                        if t == 'MemberAssignmentExpression':
                            return 'member assignment'
                        return t
    return f.short


def _analyser_premise(prog, site_kind):
    msg = FIELD_KIND_PREMISES.get(site_kind)
    if not msg:
        return False
    for f in [x for x in prog.functions if x.body and x.file.endswith('semantic_analyser.cpp')]:
        for n in SX.walk(f.body, into_lambdas=False):
            if n['k'] == 'throw' and msg in SX.show(n):
                g = prog.cfg(f)
                node = [c for c in g.nodes if c.kind == 'throw' and c.e is n]
                if not node:
                    continue
                # the throw is reached from the true edge of a test on the field's qubit type (the test may be one arm of a disjunction)
                for c in g.nodes:
                    if c.kind == 'cond' and 'Qubit' in SX.show(c.e):
                        r = g.reachable([c.succ[0]], avoid=[x for x in g.nodes if x.kind == 'loophead'])
                        if node[0].id in r and g.exit.id not in g.reachable([c.succ[0]], avoid=[x for x in g.nodes if x.kind in ('loophead', 'cond') and x is not c]):
                            return True
    return False
