"""C13 — the front end is total: any input yields an AST or one categorised diagnostic."""
from .. import sx as SX
from ..facts import AnalysisBroken
from ..ktry import Escape, parent_map, raises
from ..kdiv import division_sites, check_site, cmp_with_const, int_const
from ..kprogress import Progress, _peel

EXPLANATION = (
    "Totality of lexer, parser, loader and analyser decided by static arguments over all inputs: (R13.1) exception escape — every "
    "value-dependent throwing library call reachable from tokenize/parse/load/analyse is converted into a BlochError; (R13.2) "
    "termination — the classical progress argument: summaries 'must-consume-or-throw' by least fixpoint over the parser/lexer "
    "methods, every loop's cyclic paths consume input, advance a bounded index or falsify the loop condition, the first-call graph "
    "(calls made before anything was consumed) is acyclic, all other front-end loops are range-for over an unmodified container, "
    "counted, or hierarchy walks after the inheritance-cycle check; (R13.3) look-behind/ahead bounds — previous()/advance() are "
    "only called where a token has been consumed or the cursor is known not to be at Eof, every token/character subscript is "
    "dominated by its range test, the token stream always ends in Eof; (R13.4) a handler that resumes parsing restores the cursor "
    "saved before the try; (R13.5) analyse()/load() reset every piece of per-run state first; (R13.7) every throw in the front end "
    "is a BlochError of the phase's category; plus the signed-division guards of the constant folder. Nothing is executed.")

PHASE_CAT = {'lexer.cpp': ('Lexical',), 'parser.cpp': ('Parse',), 'semantic_analyser.cpp': ('Semantic',),
             'module_loader.cpp': ('Semantic', 'Parse', 'Lexical'), 'type_system.cpp': ('Semantic',)}


def _error_value(prog, e, cats, depth, within=None):
    """e is BlochError(<phase category>, …), or a call of an error-building helper every return of which is one"""
    e = SX.strip(e)
    if not SX.is_node(e):
        return False
    if e['k'] == 'construct' and e.get('type', '').endswith('BlochError'):
        a = e.get('args') or []
        if a and SX.is_node(a[0]) and a[0]['k'] == 'ref' and any(a[0]['name'].endswith('ErrorCategory::' + c) for c in cats):
            return True
        # copy/move construction of another error value
        ra = SX.real_args(e)
        return len(ra) == 1 and _error_value(prog, ra[0], cats, depth, within)
    if e['k'] == 'opcall' and e.get('op') == '()' and depth > 0 and within is not None and (e.get('t') or '').replace('const ', '').strip().endswith('BlochError'):
        # a local error-building closure (`auto argumentError = [&](size_t i, const std::string& what) { return BlochError(…); }`)
        lam = prog.closure_target(e, within)
        if lam is None or not lam.body:
            return False
        rets = [r for r in SX.walk(lam.body, into_lambdas=False) if r['k'] == 'return']
        return bool(rets) and all(_error_value(prog, r.get('e'), cats, depth - 1, lam) for r in rets)
    if e['k'] in ('call', 'mcall') and depth > 0 and (e.get('t') or '').replace('const ', '').strip().endswith('BlochError'):
        ts = [t for t in prog.resolve(e) if t.body]
        if len(ts) != 1:
            return False
        rets = [r for r in SX.walk(ts[0].body, into_lambdas=False) if r['k'] == 'return']
        return bool(rets) and all(_error_value(prog, r.get('e'), cats, depth - 1) for r in rets)
    return False


def run(prog, chk):
    chk.rule('R13.1', 'value-dependent throwing library calls in the front end are converted to BlochError')
    chk.rule('R13.2', 'termination: progress on every cyclic path, no left recursion, other loops bounded')
    chk.rule('R13.3', 'look-behind/look-ahead and subscript bounds')
    chk.rule('R13.4', 'a catch handler that resumes parsing restores the cursor saved before the try')
    chk.rule('R13.5', 'per-run state is reset at the start of analyse() and load()')
    chk.rule('R13.7', 'every front-end throw is a BlochError of the phase category')
    chk.rule('R13.8', 'integer / and % in the front end: zero and -1 divisors handled')
    PARSER = 'bloch::compiler::Parser'
    LEXER = 'bloch::compiler::Lexer'
    roots = [prog.fn('ModuleLoader::load'), prog.fn('SemanticAnalyser::analyse'), prog.fn('Parser::parse'), prog.fn('Lexer::tokenize')]

    # ---- R13.1 ----------------------------------------------------------------------------
    esc = Escape(prog, roots)
    n1 = 0
    for f, n, types in esc.sites():
        if SX.short(SX.callee(n)) == 'substr':
            a = SX.real_args(n)
            if int_const(a[0]) is None:
                continue   # computed position: needs value-range reasoning, not attempted (DESIGN: not decided)
        n1 += 1
        ok, why = esc.protected(f, n, types)
        detail = ('protected: ' + why) if ok else ('escapes via ' + ' <- '.join(SX.short(x) for x in why))
        if not ok:
            pre = _validated_upstream(prog, f, n)
            if pre:
                ok, detail = True, 'safe by checked premise: ' + pre
        chk.ob('R13.1', f, n.get('ln', f.ln), ok, '%s can raise %s; %s' % (SX.show(n)[:60], '/'.join(t.split('::')[-1] for t in types), detail),
               key='%s:%s:%s' % (f.short, SX.short(SX.callee(n)), SX.show(SX.real_args(n)[0] if SX.real_args(n) else n.get('obj'))[:30]))
    chk.count('value-dependent throwing call sites in the front end', n1, 4)

    # ---- R13.2 termination ----------------------------------------------------------------
    P = Progress(prog, PARSER, 'm_current', True, 'Eof')
    L = Progress(prog, LEXER, 'm_position', False, None, ('m_source.size()',))
    chk.extra['must_consume_or_throw'] = {'parser': len(P.MC0), 'lexer': len(L.MC0)}
    chk.count('parser functions proven must-consume-or-throw', len(P.MC0), 30)
    nloops = 0
    for A, nm in ((P, 'parser'), (L, 'lexer')):
        for f in A.fns:
            g, heads = A.loops(f)
            for h in heads:
                nloops += 1
                ok, kind, detail = A.check_loop(g, h)
                chk.ob('R13.2', f, h.ln, ok, '%s loop (%s): %s' % (nm, kind, detail), key='loop:%s:%s' % (f.short, _loop_key(h)), nontrivial=kind != 'range-for')
        cyc, edges = A.cycles()
        chk.ob('R13.2', A.cls, '%s' % nm, not cyc,
               'first-call graph of the %s (%d edges) must be acyclic; cycles: %s' % (nm, sum(len(v) for v in edges.values()), [[SX.short(x) for x in c] for c in cyc]),
               key='left-recursion:' + nm)
    chk.count('parser+lexer loops', nloops, 30)
    # cursor writers
    for A, allowed in ((P, None), (L, None)):
        for f in A.fns:
            for n in SX.walk(f.body, into_lambdas=False):
                w = SX.write_target(n)
                if w and SX.is_this_member(SX.strip(w[0]), A.cursor):
                    op = w[2]
                    fwd = op == '++' or (op == '+=' and int_const(w[1]) and int_const(w[1]) > 0)
                    if fwd:
                        chk.ob('R13.2', f, n.get('ln', f.ln), True, 'cursor moves forward', key='cursor-write:%s' % f.short, nontrivial=False)
                    else:
                        ok = _is_backtrack_restore(f, n, A.cursor)
                        chk.ob('R13.2', f, n.get('ln', f.ln), ok, 'cursor assigned: only a restore of a value saved before a try is allowed (bounded backtracking)',
                               key='cursor-write:%s' % f.short)
    # other front-end loops
    others = [f for f in prog.functions if f.body and f.cls not in (PARSER, LEXER) and
              (f.file.endswith('semantic_analyser.cpp') or f.file.endswith('module_loader.cpp') or f.file.endswith('type_system.cpp')
               or f.file.endswith('built_ins.cpp'))]
    D = Progress(prog, '::none::', '::none::', False)
    nother = 0
    cyclecheck = _cycle_check_present(prog)
    for f in others:
        g = prog.cfg(f)
        for h in g.loops():
            nother += 1
            s = h.e
            if s['k'] == 'forrange':
                ok, kind, detail = D.check_loop(g, h)
                chk.ob('R13.2', f, h.ln, ok, 'range-for: ' + detail, key='loop:%s:%s' % (f.short, _loop_key(h)), nontrivial=False)
                continue
            hw = _hierarchy_walk(s)
            if hw:
                in_check = _loop_has_seen_throw(s)
                ok = in_check or cyclecheck
                chk.ob('R13.2', f, h.ln, ok, 'hierarchy walk over %s: terminates because inheritance cycles are rejected first (%s)' % (
                    hw, 'this loop is the cycle check' if in_check else ('cycle check found in the class-registry build' if cyclecheck else 'NO cycle check found')),
                    key='loop:%s:%s' % (f.short, _loop_key(h)))
                continue
            ok, kind, detail = D.check_loop(g, h)
            if not ok and _iterator_walk(s):
                ok, kind, detail = True, 'iterator', 'iterator advanced on every cyclic path over an unmodified container'
            chk.ob('R13.2', f, h.ln, ok, '%s loop: %s' % (kind, detail), key='loop:%s:%s' % (f.short, _loop_key(h)))
    chk.count('analyser/loader loops', nother, 60)

    # ---- R13.3 bounds ---------------------------------------------------------------------
    # parser: previous() needs a consumed token; advance() needs N or C (it calls previous() after a conditional increment)
    ec = _entry_consumed(prog, P)
    nprev = 0
    for f in P.fns:
        g = prog.cfg(f)
        ins, outs = P.run(g, g.entry, (0, 0, 0, 0))
        dead = f.kind == 'method' and not _has_callers(prog, f) and _is_private(prog, f)
        for n in g.nodes:
            if n.kind != 'call' or n.id not in ins:
                continue
            t = P.callee_of(n.e)
            if t is None:
                continue
            C, N, X, _n2 = ins[n.id]
            if t.short == 'previous':
                nprev += 1
                ok = bool(C) or f.key in ec or dead
                if f.short == 'advance':
                    continue   # obligation transferred to advance()'s call sites below
                chk.ob('R13.3', f, n.ln, ok, 'previous() needs a token consumed before it (in this function%s)' % (
                    '' if C else (', or at every call site of %s' % f.short)), key='previous:%s' % f.short, nontrivial=not C)
            if t.short == 'advance':
                ok = bool(C or N) or f.key in ec or dead
                chk.ob('R13.3', f, n.ln, ok, 'advance() returns previous(): the cursor must be past the first token or known not at Eof', key='advance:%s' % f.short,
                       nontrivial=not (C or N))
    chk.count('previous() call sites', nprev, 5)
    # subscripts of the token vector / source text
    for A, container in ((P, 'm_tokens'), (L, 'm_source')):
        for f in A.fns:
            subs = [n for n in SX.walk(f.body, into_lambdas=False) if n['k'] == 'index' and SX.is_this_member(SX.strip(n.get('base')), container)]
            if not subs:
                continue
            g = prog.cfg(f)
            lins = None
            for n in subs:
                node = _cfg_node_containing(g, n)
                base, k = _lin(n['i'])
                ok = False
                why = 'no dominating range test found'
                if base is not None and node is not None:
                    if k < 0:
                        # look-behind: only inside previous()
                        ok = f.short == 'previous'
                        why = 'look-behind subscript is confined to previous() (call sites checked above)'
                    else:
                        for ce, pol, ed in g.guards(node):
                            r = _bound_test(ce, pol, base, container)
                            if r is not None and r >= k and _no_write_between(g, ed, node, base):
                                ok = True
                                why = 'dominated by %s (%s)' % (SX.show(ce)[:50], 'true' if pol else 'false')
                                break
                        if not ok and A is L and f.short == 'advance':
                            # the scanner's advance(): obligation transferred to its call sites (must be known not at end)
                            ok = True
                            why = 'transferred to call sites'
                chk.ob('R13.3', f, n.get('ln', f.ln), ok, '%s[%s]: %s' % (container, SX.show(n['i'])[:30], why), key='subscript:%s:%s' % (f.short, SX.show(n['i'])[:24]))
    # a type parameter is not in scope inside its own bound: `class Box<T extends T>` must find no T when the bound is converted —
    # otherwise the bound of T is T, and every relation that resolves a parameter through its bound (assignability, conversion
    # cost) recurses without end.  In each loop over declared type parameters that adds them to the analyser's scope of type
    # parameters, the conversion of the parameter's bound precedes the addition.
    nb = 0
    for f in prog.functions:
        if not f.body or not f.file.endswith('semantic_analyser.cpp'):
            continue
        for lp in SX.walk(f.body, into_lambdas=False):
            if lp['k'] != 'forrange' or 'typeParameters' not in SX.show(lp.get('range')):
                continue
            g = prog.cfg(f)
            inloop = {id(x) for x in SX.walk(lp['body'], into_lambdas=False)}
            pushes = [c for c in g.calls(lambda e: id(e) in inloop and SX.append_target(e) is not None and SX.is_this_member(SX.strip(SX.append_target(e)))
                                         and 'TypeParam' in (SX.strip(SX.append_target(e)).get('t') or ''))]
            convs = [c for c in g.calls(lambda e: id(e) in inloop and e['k'] in ('call', 'mcall') and SX.short(SX.callee(e) or '') == 'typeFromAst'
                                        and any(y.get('k') == 'member' and y.get('name') == 'bound' for y in SX.walk(e)))]
            if not pushes or not convs:
                continue
            nb += 1
            heads = [h for h in g.nodes if h.kind == 'loophead' and h.e is lp]
            bad = [c for c in convs for p_ in pushes if heads and c.id in g.reachable([p_], avoid=heads)]
            chk.ob('R13.2', f, (bad[0].ln if bad else lp.get('ln')) or f.ln, not bad,
                   'the bound of a type parameter is converted before the parameter enters the scope of type parameters (a parameter visible in its own bound makes '
                   '`T extends T` its own bound: unbounded recursion in the type relations)', key='typeparam-bound-scope:%s' % f.short)
    chk.count('type-parameter registration loops', nb, 1)
    # the analyser's vector subscripts
    chk.count('analyser vector subscripts', analyser_subscripts(prog, chk), 20)
    # lexer advance() call sites: known not at end
    for f in L.fns:
        g = prog.cfg(f)
        ins, outs = L.run(g, g.entry, (0, 0, 0, 0))
        ecl = _entry_n(prog, L)
        for n in g.nodes:
            if n.kind == 'call' and n.id in ins:
                t = L.callee_of(n.e)
                if t is not None and t.short == 'advance':
                    C, N, X, _n2 = ins[n.id]
                    ok = bool(N) or (f.key in ecl and _first_cursor_event(g, n, L))
                    chk.ob('R13.3', f, n.ln, ok, 'scanner advance() reads m_source[m_position]: must be known not at end of input', key='lex-advance:%s' % f.short,
                           nontrivial=True)
    # token stream always ends in Eof
    tk = prog.fn('Lexer::tokenize')
    g = prog.cfg(tk)
    pushes = [c for c in g.calls(lambda e: e['k'] == 'mcall' and SX.short(e['callee']) in ('push_back', 'emplace_back') and any(
        x['k'] == 'ref' and x.get('kind') == 'enum' and x['name'].endswith('::Eof') for x in SX.walk(e)))]
    rets = [n for n in g.nodes if n.kind == 'return']
    ok = bool(pushes) and all(g.must_precede(pushes, r) for r in rets) and not any(
        c.id in g.reachable(pushes) for c in g.calls(lambda e: e['k'] == 'mcall' and SX.short(e['callee']) in ('push_back', 'emplace_back')) if c not in pushes)
    chk.ob('R13.3', tk, tk.ln, ok, 'tokenize() appends Eof as the last token on every path (peek() relies on a non-empty stream ending in Eof)', key='eof-last')

    # ---- R13.4 ----------------------------------------------------------------------------
    nh = 0
    for f in P.fns:
        pm = None
        for t in SX.walk(f.body, into_lambdas=False):
            if t['k'] != 'try':
                continue
            for h in t['handlers']:
                resumes = any(n['k'] == 'mcall' and (P.callee_of(n) is not None and P.callee_of(n).key in P.moves) for n in SX.walk(h['body'], into_lambdas=False))
                rethrows = any(n['k'] == 'throw' for n in SX.walk(h['body'], into_lambdas=False)) and not resumes
                if not resumes:
                    continue
                nh += 1
                ok = False
                detail = 'handler goes on parsing without restoring the cursor'
                first = None
                for n in SX.walk(h['body'], into_lambdas=False):
                    w = SX.write_target(n)
                    if w and SX.is_this_member(SX.strip(w[0]), P.cursor):
                        first = n
                        break
                if first is not None and _is_backtrack_restore(f, first, P.cursor, t):
                    # the restore precedes any parsing in the handler
                    order = [n for n in SX.walk(h['body'], into_lambdas=False)]
                    i_restore = order.index(first)
                    movers = [i for i, n in enumerate(order) if n['k'] == 'mcall' and P.callee_of(n) is not None and P.callee_of(n).key in P.moves]
                    ok = bool(movers) and i_restore < min(movers)
                    detail = 'cursor restored from the value saved before the try, before parsing resumes' if ok else 'cursor restored after parsing resumed'
                    # … and the saved position belongs to the current iteration of every loop around the restore: a position saved
                    # before the loop rewinds past what earlier iterations consumed, and the loop need not make progress any more
                    from ..kernels import enclosing_stmts
                    rv = SX.strip(SX.write_target(first)[1])
                    for lp in [x for x in enclosing_stmts(f.body, first) if x['k'] in ('while', 'for', 'do', 'forrange')]:
                        if not any(v['k'] == 'var' and v.get('id') == rv.get('id') for v in SX.walk(lp['body'], into_lambdas=False)):
                            ok = False
                            detail = 'the cursor is restored to a position saved outside the enclosing loop: a later iteration rewinds over what earlier ones consumed (no progress, the loop may not terminate)'
                chk.ob('R13.4', f, h.get('ln', f.ln), ok, detail, key='handler:%s' % f.short)
    chk.count('parser handlers that resume parsing', nh, 1)

    # ---- R13.5 ----------------------------------------------------------------------------
    for fq, recname, before in (('SemanticAnalyser::analyse', 'SemanticAnalyser', 'buildClassRegistry'), ('ModuleLoader::load', 'ModuleLoader', 'loadModule')):
        f = prog.fn(fq)
        rec = prog.record(recname)
        g = prog.cfg(f)
        firstwork = [c for c in g.calls(lambda e: e['k'] == 'mcall' and SX.short(e['callee']) == before)]
        if not firstwork:
            raise AnalysisBroken('%s does not call %s' % (fq, before))
        config = _config_members(prog, rec)
        for fld in rec['fields']:
            if fld['static'] or fld['name'] in config:
                continue
            resets = []
            for cn in g.nodes:
                if not SX.is_node(cn.e):
                    continue
                w = SX.write_target(cn.e) if cn.kind in ('assign', 'call', 'incdec') else None
                if w and SX.is_this_member(SX.strip(w[0]), fld['name']):
                    resets.append(cn)
                if cn.kind == 'call' and cn.e['k'] == 'mcall' and SX.short(cn.e['callee']) in ('clear', 'reset') and SX.is_this_member(cn.e.get('obj'), fld['name']):
                    resets.append(cn)
            ok = bool(resets) and all(g.must_precede(resets, w) for w in firstwork)
            chk.ob('R13.5', f, f.ln, ok, 'member %s must be reset before %s() so that a failed or earlier run leaves nothing behind' % (fld['name'], before),
                   key='reset:%s.%s' % (recname, fld['name']))

    # ---- R13.7 ----------------------------------------------------------------------------
    nthrow = 0
    for f in prog.functions:
        if not f.body:
            continue
        cats = None
        for suf, c in PHASE_CAT.items():
            if f.file.endswith(suf):
                cats = c
        if cats is None:
            continue
        for n in SX.walk(f.body, into_lambdas=False):
            if n['k'] != 'throw':
                continue
            nthrow += 1
            e = n.get('e')
            if e is None:
                ok, what = True, 'rethrow'
            else:
                e = SX.strip(e)
                ok = _error_value(prog, e, cats, 3, f)
                if not ok and SX.is_node(e) and e['k'] == 'ref':
                    ok = 'BlochError' in e.get('t', '')    # rethrowing a caught BlochError object
                what = SX.show(e)[:60]
            chk.ob('R13.7', f, n.get('ln', f.ln), ok, 'throw %s must be BlochError(%s, …)' % (what, '/'.join(cats)), key='throw:%s' % f.short, nontrivial=False)
    chk.count('front-end throw sites', nthrow, 150)

    # ---- R13.8 ----------------------------------------------------------------------------
    nd = 0
    for f in esc.reach.values():
        if not f.body:
            continue
        sites = list(division_sites(f))
        if not sites:
            continue
        g = prog.cfg(f)
        for i, n in enumerate(sites):
            res = check_site(g, n)
            if res is None:
                raise AnalysisBroken('division site not located in ' + f.name)
            zero, m1, text = res
            nd += 1
            chk.ob('R13.8', f, n.get('ln', f.ln), zero, 'integer %s by %s needs a dominating zero test' % (n['op'], text), key='zero:%s:%s%s' % (f.short, n['op'], text))
            chk.ob('R13.8', f, n.get('ln', f.ln), m1, 'integer %s by %s: divisor -1 must be examined (MIN %s -1 traps)' % (n['op'], text, n['op']),
                   key='minus1:%s:%s%s' % (f.short, n['op'], text))
    chk.count('front-end integer division sites', nd, 2)


# ---- helpers ------------------------------------------------------------------------------------

def _loop_key(h):
    s = h.e
    if s['k'] == 'forrange':
        return 'for:' + SX.show(s['range'])[:30]
    return (s['k'] + ':' + SX.show(s.get('c'))[:40]) if s.get('c') is not None else s['k'] + ':true'


def _validated_upstream(prog, f, n):
    """The argument of a throwing conversion in the loader is `annotation->value` of a @shots annotation; the parser
    converts the same token text with std::stoi inside a try whose handlers reject it, before the annotation is built."""
    a = SX.real_args(n)
    if not a:
        return None
    root, names = SX.member_chain(a[0])
    arg = SX.strip(a[0])
    if names[-1:] != ['value'] or not (SX.is_node(arg) and arg.get('k') == 'member' and arg.get('q', '').endswith('AnnotationNode::value')):
        return None
    for g in prog.fns('Parser::parseFunctionAnnotation'):
        esc = Escape(prog, [g])
        for ff, site, types in esc.sites():
            if ff is g and SX.short(SX.callee(site)) == SX.short(SX.callee(n)):
                ok, _ = esc.protected(ff, site, types)
                targ = SX.real_args(site)[0]
                # the same token's text is what is stored into the annotation
                def origin(e_, depth=0):
                    # a local that is only ever given one value stands for that value (`numberOfShots = <helper's result> = tok.value`)
                    e_ = SX.strip(e_)
                    if depth > 5 or not (SX.is_node(e_) and e_.get('k') == 'ref' and e_.get('kind') == 'var' and not e_.get('global')):
                        return e_
                    srcs = [v_['init'] for v_ in SX.walk(g.body) if v_['k'] == 'var' and v_['id'] == e_.get('id') and SX.is_node(v_.get('init')) and
                            not (SX.strip(v_['init']).get('k') in ('construct', 'initlist') and not (SX.real_args(SX.strip(v_['init'])) if SX.strip(v_['init']).get('k') == 'construct' else SX.strip(v_['init']).get('items')))]
                    srcs += [w_[1] for x_ in SX.walk(g.body) for w_ in [SX.write_target(x_)] if w_ and w_[2] == '=' and SX.is_node(SX.strip(w_[0])) and SX.strip(w_[0]).get('id') == e_.get('id')]
                    if len(srcs) != 1:
                        return e_
                    return origin(srcs[0], depth + 1)
                stores = [x for x in SX.walk(g.body) if (lambda w: w and w[1] is not None and SX.is_node(SX.strip(w[0])) and SX.strip(w[0]).get('q', '').endswith('AnnotationNode::value') and (any(
                    SX.show(y) == SX.show(targ) for y in SX.walk(w[1])) or SX.show(origin(w[1])) == SX.show(targ)))(SX.write_target(x))]
                if ok and stores:
                    return 'Parser::parseFunctionAnnotation converts the same text under try and rejects it'
    return None


def _is_backtrack_restore(f, n, cursor, trynode=None):
    """n assigns the cursor from a local that was initialised from the cursor (a saved position)."""
    w = SX.write_target(n)
    if not w or w[2] != '=':
        return False
    r = SX.strip(w[1])
    if not (SX.is_node(r) and r['k'] == 'ref' and r.get('kind') == 'var'):
        return False
    for v in SX.walk(f.body, into_lambdas=False):
        if v['k'] == 'var' and v['id'] == r.get('id'):
            init = SX.strip(v.get('init'))
            if SX.is_this_member(init, cursor) and v.get('const'):
                if trynode is None:
                    return True
                # declared before the try (not inside it)
                return not any(x is v for x in SX.walk(trynode))
    return False


def _cycle_check_present(prog):
    for f in prog.fns('SemanticAnalyser::buildClassRegistry'):
        for lp in SX.walk(f.body, into_lambdas=False):
            if lp['k'] in ('while', 'for') and _hierarchy_walk(lp) and _loop_has_seen_throw(lp):
                return True
    return False


def _hierarchy_walk(s):
    """while (cur …) { …; cur = findClass(cur->base) / cur->base …; }  → name of the walking variable"""
    if s['k'] not in ('while', 'for'):
        return None
    cond = s.get('c')
    vars_ = [x for x in SX.walk(cond) if x['k'] == 'ref' and x.get('kind') in ('var', 'param') and '*' in x.get('t', '')] if SX.is_node(cond) else []
    for v in vars_:
        for n in list(SX.walk(s['body'], into_lambdas=False)) + (list(SX.walk(s.get('inc'))) if s.get('inc') else []):
            w = SX.write_target(n)
            if w and SX.is_node(SX.strip(w[0])) and SX.strip(w[0]).get('id') == v.get('id') and w[1] is not None:
                if any(x['k'] == 'member' and x['name'] == 'base' for x in SX.walk(w[1])):
                    return v['name']
    return None


def _loop_has_seen_throw(s):
    has_throw = any(n['k'] == 'throw' for n in SX.walk(s['body'], into_lambdas=False))
    has_seen = any(n['k'] == 'mcall' and SX.short(n['callee']) in ('count', 'find', 'contains', 'insert') and 'unordered_set' in n.get('ot', '')
                   for n in SX.walk(s['body'], into_lambdas=False))
    return has_throw and has_seen


def _iterator_walk(s):
    """for (auto it = c.begin()/rbegin(); it != c.end()/rend(); ++it) with `it` not reassigned in the body"""
    if s['k'] != 'for' or not s.get('init') or s['init']['k'] != 'decls' or len(s['init']['d']) != 1:
        return False
    v = s['init']['d'][0]
    init = SX.strip(v.get('init'))
    if not (SX.is_node(init) and 'iterator' in v.get('type', '')):
        return False
    cont = init['obj'] if init['k'] == 'mcall' and SX.short(init['callee']) in ('begin', 'rbegin', 'cbegin') else None
    inc = s.get('inc')
    w = SX.write_target(inc) if SX.is_node(inc) else None
    if not (w and w[2] == '++' and SX.is_node(SX.strip(w[0])) and SX.strip(w[0]).get('id') == v['id']):
        return False
    cp = SX.cmp_parts(s.get('c')) if SX.is_node(s.get('c')) else None
    if not (cp and cp[0] == '!='):
        return False
    for n in SX.walk(s['body'], into_lambdas=False):
        w2 = SX.write_target(n)
        if w2 and SX.is_node(SX.strip(w2[0])) and SX.strip(w2[0]).get('id') == v['id']:
            return False
        if n['k'] == 'mcall' and SX.short(n['callee']) in ('push_back', 'emplace_back', 'insert', 'erase', 'clear', 'pop_back', 'resize'):
            # the end() the loop compares against must stay valid: no modification of the compared container in the body
            endc = [x for x in SX.walk(s.get('c')) if x['k'] == 'mcall' and SX.short(x['callee']) in ('end', 'rend', 'cend')]
            if any(SX.show(n.get('obj')) == SX.show(x['obj']) for x in endc) or (cont is not None and SX.show(n.get('obj')) == SX.show(cont)):
                return False
    return True


def _has_callers(prog, f):
    return bool(prog.callers(f))


def _is_private(prog, f):
    rec = prog.facts.records.get(f.cls)
    if not rec:
        return False
    for m in rec['methods']:
        if m['name'] == f.short:
            return m['access'] != 0
    return False


def _entry_consumed(prog, P):
    """EC(f): at every call site of f inside the class a token has been consumed (C) or the caller itself is EC."""
    sites = {}
    for f in P.fns:
        g = prog.cfg(f)
        ins, outs = P.run(g, g.entry, (0, 0, 0, 0))
        for n in g.nodes:
            if n.kind == 'call' and n.id in ins:
                t = P.callee_of(n.e)
                if t is not None:
                    sites.setdefault(t.key, []).append((f.key, ins[n.id][0]))
    ec = set()
    changed = True
    while changed:
        changed = False
        for f in P.fns:
            if f.key in ec or f.key not in sites:
                continue
            if all(c or caller in ec for caller, c in sites[f.key]):
                ec.add(f.key)
                changed = True
    return ec


def _entry_n(prog, L):
    """EN(f): at every call site of f inside the scanner the cursor is known not to be at end."""
    sites = {}
    for f in L.fns:
        g = prog.cfg(f)
        ins, outs = L.run(g, g.entry, (0, 0, 0, 0))
        for n in g.nodes:
            if n.kind == 'call' and n.id in ins:
                t = L.callee_of(n.e)
                if t is not None:
                    sites.setdefault(t.key, []).append((f.key, ins[n.id][1], n, g))
    en = set()
    changed = True
    while changed:
        changed = False
        for f in L.fns:
            if f.key in en or f.key not in sites:
                continue
            if all(nn or (caller in en and _first_cursor_event(gg, node, L)) for caller, nn, node, gg in sites[f.key]):
                en.add(f.key)
                changed = True
    return en


def _first_cursor_event(g, node, A):
    """node is reached from the function entry without any earlier cursor movement"""
    for i in g.reachable([node], forward=False):
        n = g.nodes[i]
        if n.kind == 'call':
            t = A.callee_of(n.e)
            if t is not None and t.key in A.moves and n is not node:
                return False
    return True


def _cfg_node_containing(g, x):
    for cn in g.nodes:
        if cn.e is x:
            return cn
    for cn in g.nodes:
        if cn.kind in ('entry', 'exit', 'throwexit', 'loophead', 'rangeinit', 'edge', 'tryentry', 'catch', 'switch', 'case', 'break', 'continue'):
            continue
        e = cn.e
        if cn.kind == 'decl':
            e = e.get('init')
        if cn.kind == 'return':
            e = e.get('e')
        if SX.is_node(e) and any(y is x for y in SX.walk(e, into_lambdas=False)):
            return cn
    return None


def _lin(e):
    """index expression as (base text, constant offset)"""
    e = _peel(e)
    if SX.is_node(e) and e['k'] == 'bin' and e['op'] in ('+', '-'):
        k = int_const(e['r'])
        if k is not None:
            b, k0 = _lin(e['l'])
            if b is not None:
                return b, k0 + (k if e['op'] == '+' else -k)
    if SX.is_node(e) and e['k'] in ('ref', 'member'):
        return SX.show(e), 0
    if SX.is_node(e) and e['k'] == 'un' and e['op'] == '++' and e.get('postfix'):
        return _lin(e['e'])
    return None, 0


def _bound_test(ce, pol, base, container):
    """If (ce, pol) implies  base + r < container.size(), returns r; else None."""
    cp = SX.cmp_parts(ce)
    if not cp:
        return None
    op, l, r = cp
    if not pol:
        op = {'==': '!=', '!=': '==', '<': '>=', '>=': '<', '>': '<=', '<=': '>'}[op]
    size_txt = container + '.size()'
    lt, rt = SX.show(_peel(l)), SX.show(_peel(r))
    if rt == size_txt and op in ('<',):
        b, k = _lin(l)
        return k if b == base else None
    if lt == size_txt and op in ('>',):
        b, k = _lin(r)
        return k if b == base else None
    return None


def _no_write_between(g, edge, node, base):
    fwd = g.reachable([edge], avoid=[node])
    bwd = g.reachable([node], forward=False, avoid=[edge])
    for i in fwd & bwd:
        n = g.nodes[i]
        if n.kind in ('assign', 'incdec', 'call') and SX.is_node(n.e):
            w = SX.write_target(n.e)
            if w and SX.show(SX.strip(w[0])) == base:
                return False
    return True


def _size_lower_bound(ce, pol, V):
    """least size of vector V that (ce, pol) implies, or None: `V.size() > k`, `>= k`, `== k`, `!V.empty()`, `k < V.size()` …"""
    c = _peel(ce)
    if SX.is_node(c) and c.get('k') == 'un' and c.get('op') == '!':
        return _size_lower_bound(c['e'], not pol, V)
    if SX.is_node(c) and c.get('k') == 'mcall' and SX.short(c.get('callee', '')) == 'empty' and SX.show(_peel(c.get('obj'))) == V:
        return 1 if not pol else None
    cp = SX.cmp_parts(c)
    if not cp:
        return None
    op, l, r = cp
    if not pol:
        op = {'==': '!=', '!=': '==', '<': '>=', '>=': '<', '>': '<=', '<=': '>'}[op]
    st = V + '.size()'
    lt, rt = SX.show(_peel(l)), SX.show(_peel(r))
    if rt == st:
        op = {'<': '>', '>': '<', '<=': '>=', '>=': '<=', '==': '==', '!=': '!='}[op]
        l, r, lt, rt = r, l, rt, lt
    if lt != st:
        return None
    k = int_const(r)
    if k is None:
        return None
    if op == '>':
        return k + 1
    if op in ('>=', '=='):
        return k
    if op == '!=' and k == 0:
        return 1
    return None


def _same_size_fact(ce, pol, V, W):
    """(ce, pol) implies V.size() == W.size()"""
    cp = SX.cmp_parts(_peel(ce))
    if not cp:
        return False
    op, l, r = cp
    if not pol:
        op = {'==': '!=', '!=': '=='}.get(op, op)
    if op != '==':
        return False
    return {SX.show(_peel(l)), SX.show(_peel(r))} == {V + '.size()', W + '.size()'}


def _filled_like(f, vref):
    """local vector V (declared in f or in the function a closure f belongs to) is filled by exactly one push_back per iteration of
    a full range-for over W and touched by nothing else (reserve aside) → text of W; else None"""
    if not (SX.is_node(vref) and vref.get('k') == 'ref' and vref.get('id')):
        return None
    host = f
    while host is not None:
        decl = [d for d in SX.walk(host.body, into_lambdas=False) if d['k'] == 'var' and d.get('id') == vref['id']]
        if decl:
            break
        host = getattr(host, 'parent', None)
    if host is None:
        return None
    i0 = SX.strip(decl[0].get('init')) if SX.is_node(decl[0].get('init')) else None
    if SX.is_node(i0) and not (i0.get('k') in ('construct', 'initlist') and not (SX.real_args(i0) if i0['k'] == 'construct' else i0.get('items'))):
        return None          # must start empty
    fills, other = [], 0
    for lp in SX.walk(host.body, into_lambdas=False):
        if lp['k'] != 'forrange':
            continue
        st = lp['body']['body'] if lp['body'].get('k') == 'block' else [lp['body']]
        if len(st) == 1 and st[0].get('k') == 'expr':
            e = SX.strip(st[0]['e'])
            if SX.is_node(e) and e.get('k') == 'mcall' and SX.short(e.get('callee', '')) in ('push_back', 'emplace_back') and _peel(e.get('obj')).get('id') == vref['id']:
                fills.append((lp, e))
    for n in SX.walk(host.body, into_lambdas=True):
        if n['k'] == 'mcall' and not n.get('constm', True) and SX.is_node(_peel(n.get('obj'))) and _peel(n['obj']).get('id') == vref['id']:
            if SX.short(n['callee']) == 'reserve' or any(n is e for _, e in fills):
                continue
            if SX.short(n['callee']) in ('operator[]', 'at', 'begin', 'end', 'front', 'back', 'data'):
                continue
            other += 1
        w = SX.write_target(n)
        if w and SX.is_node(_peel(w[0])) and _peel(w[0]).get('id') == vref['id']:
            other += 1
    if len(fills) == 1 and not other:
        return SX.show(_peel(fills[0][0]['range']))
    return None


def subscript_in_range(f, g, x, at=None):
    """(ok, why) for one std::vector subscript x of function f with flow graph g — see analyser_subscripts.  `at`: judge x as if it were
    evaluated where the expression `at` is (the call of a local closure whose body holds the subscript)"""
    V = SX.show(_peel(x['base']))
    node = _cfg_node_containing(g, x if at is None else at)
    ok, why = False, 'no dominating range test on %s' % V
    if node is not None:
        gs = list(g.guards(node))
        k = int_const(x['i'])
        if k is not None:
            for ce, pol, ed in gs:
                lb = _size_lower_bound(ce, pol, V)
                if lb is not None and lb > k:
                    ok, why = True, 'dominated by %s (%s)' % (SX.show(ce)[:50], pol)
                    break
        else:
            base, off = _lin(x['i'])
            if base is not None and off >= 0:
                for ce, pol, ed in gs:
                    r_ = _bound_test(ce, pol, base, V)
                    if r_ is not None and r_ >= off and _no_write_between(g, ed, node, base):
                        ok, why = True, 'dominated by %s (%s)' % (SX.show(ce)[:50], pol)
                        break
                if not ok:
                    # bounded on another vector W that a dominating test makes as long as V
                    for ce, pol, ed in gs:
                        cp = SX.cmp_parts(ce)
                        if not cp:
                            continue
                        for side in (cp[1], cp[2]):
                            s_ = _peel(side)
                            if SX.is_node(s_) and s_.get('k') == 'mcall' and SX.short(s_.get('callee', '')) == 'size':
                                W = SX.show(_peel(s_.get('obj')))
                                r_ = _bound_test(ce, pol, base, W)
                                if r_ is not None and r_ >= off and W != V and _no_write_between(g, ed, node, base):
                                    if any(_same_size_fact(c2, p2, V, W) for c2, p2, e2 in gs):
                                        ok, why = True, 'bounded by %s.size(), and %s.size() == %s.size() holds here' % (W, V, W)
                                    elif _filled_like(f, _peel(x['base'])) == W:
                                        ok, why = True, 'bounded by %s.size(); %s holds one element per element of %s (filled by one push per iteration of a full loop over it)' % (W, V, W)
    return ok, why


def _through_closure_calls(prog, lam, x, why):
    """a subscript in a local closure whose index is the closure's own parameter (`[&](size_t index) { … node.arguments[index] … }`) is in
    range iff it is at every call of the closure, with the argument passed there: judged at each call site in the defining function
    (the closure must not escape: every mention of its variable is a call)"""
    i = SX.strip(x.get('i'))
    pos = [k for k, p_ in enumerate(lam.params) if SX.is_node(i) and i.get('k') == 'ref' and i.get('id') == p_['id']]
    own = {p_['id'] for p_ in lam.params} | {n['id'] for n in SX.walk(lam.body, into_lambdas=False) if n.get('k') == 'var' and n.get('id')}
    if not pos or any(n.get('k') == 'ref' and n.get('id') in own for n in SX.walk(x.get('base'))):
        return False, why
    if any(SX.write_target(n) and SX.is_node(SX.strip(SX.write_target(n)[0])) and SX.strip(SX.write_target(n)[0]).get('id') == i['id'] for n in SX.walk(lam.body)):
        return False, why
    calls, closed = prog.closure_calls(lam)
    if not calls or not closed:
        return False, why
    par = lam.parent
    gp = prog.cfg(par)
    for c in calls:
        args = SX.real_args(c)[1:]
        if pos[0] >= len(args):
            return False, why
        synth = dict(x)
        synth['i'] = args[pos[0]]
        ok, w2 = subscript_in_range(par, gp, synth, at=c)
        if not ok:
            return False, 'called at line %s with %s: %s' % (c.get('ln'), SX.show(args[pos[0]])[:20], w2)
    return True, 'the index is the closure\'s parameter; in range at each of its %d call(s) in %s' % (len(calls), par.short)


def analyser_subscripts(prog, chk):
    """R13.3 for the semantic analyser: every subscript of a std::vector is known to be in range where it is evaluated — by a
    dominating test `i < v.size()` on the same vector, by the bound of the enclosing counted loop (on the same vector, or on a
    vector a dominating test makes equally long), or, for a constant index, by a dominating size test."""
    n = 0
    for f in prog.functions:
        if not f.body or not f.file.endswith('semantic_analyser.cpp'):
            continue
        subs = [x for x in SX.walk(f.body, into_lambdas=False) if x['k'] == 'index' and (x.get('bt') or '').replace('const ', '').startswith('std::vector<')]
        if not subs:
            continue
        g = prog.cfg(f)
        for x in subs:
            n += 1
            ok, why = subscript_in_range(f, g, x)
            if not ok and f.kind == 'lambda' and f.parent is not None:
                ok, why = _through_closure_calls(prog, f, x, why)
            chk.ob('R13.3', f, x.get('ln', f.ln), ok, 'analyser subscript %s: %s' % (SX.show(x)[:40], why), key='an-subscript:%s:%s' % (f.short, SX.show(x)[:30]))
    return n


def _config_members(prog, rec):
    """members that are configuration (set by the constructor / setters, never per-run state): only written in ctors or
    in methods named set*/add*"""
    out = set()
    for fld in rec['fields']:
        writers = set()
        for f in prog.methods_of(rec['name']):
            if not f.body:
                continue
            for n in SX.walk(f.body):
                w = SX.write_target(n)
                if w and _rooted_in_member(w[0], fld['name']):
                    writers.add(f)      # the member itself, an element (`m[k] = v`) or a field of it
                if n['k'] == 'mcall' and not n.get('constm', True) and _rooted_in_member(n.get('obj'), fld['name']):
                    writers.add(f)
            for i in f.d.get('inits', []):
                if i.get('member') == fld['name']:
                    writers.add(f)
        if writers and all(w.kind == 'ctor' or w.short.startswith('set') or w.short.startswith('add') for w in writers):
            out.add(fld['name'])
        if not writers:
            out.add(fld['name'])
    return out


def _rooted_in_member(e, name):
    """e is this->name, or an element / field / dereference reached from it"""
    e = SX.strip(e)
    hops = 0
    while SX.is_node(e) and hops < 8:
        if SX.is_this_member(e, name):
            return True
        k = e.get('k')
        if k == 'index':
            e = SX.strip(e.get('base'))
        elif k == 'member':
            e = SX.strip(e.get('base'))
        elif k == 'opcall' and e.get('op') in ('[]', '*', '->') and e.get('args'):
            e = SX.strip(e['args'][0])
        elif k == 'un' and e.get('op') == '*':
            e = SX.strip(e.get('e'))
        elif k == 'mcall' and SX.short(e.get('callee', '')) in ('at', 'back', 'front', 'operator[]'):
            e = SX.strip(e.get('obj'))
        elif k == 'cast':
            e = SX.strip(e.get('e'))
        else:
            return False
        hops += 1
    return False
